"""C10 — DMRG is variational and reports the energy of the state it returns.

Hamiltonians are Hermitian MPOs built through the public builders
(``SpinHam1D`` term lists with S in {1/2, 1}, named ``MPO_ham_*`` models, and a
hand-assembled random Hermitian ``MatrixProductOperator``).  The reference is
dense algebra on ``ham.to_dense()``, which is itself cross-checked in every
case against the sum of ``vf.oracle.embed``-ded terms made from spin matrices
written in this module.

Every sub-check runs real DMRG solves and asserts ONE clause of the statement,
so a defect in one clause (two are known, see known/C10.txt) does not hide the
others:

  (1) energy == <psi|H|psi>/<psi|psi>  (dense and ``psi.H @ ham.apply(psi)``)
  (2) lambda_min <= energy <= lambda_max
  (3) total energies do not go up across untruncated local updates
  (4) max_bond <= cap
  (5) full cap + converged  ->  exact energy and ground-space overlap
  periodic: (1) only at 1e-3.
"""
from __future__ import annotations

import math

import numpy as np
from hypothesis import strategies as st

from .. import arrays as A
from ..core import INV64, Reject, SubCheck, Violation, rel_err
from ..oracle import embed

RULE = ("cases are (Hermitian MPO description, DMRG configuration) pairs; Hamiltonians: SpinHam1D term lists (S=1/2,1; XX/YY/ZZ/XZ, "
        "XY-YX, YZ/XY, Y fields, Peierls-phase hopping, Hermitian array terms, site-dependent overrides, identity shifts), named "
        "MPO_ham_heis/ising/XY, random Hermitian MPO from arrays; L 3-8 (dense dim <= 256); DMRG: bsz 1/2 via DMRG/DMRG1/DMRG2, "
        "which SA/LA, bond_dims int/schedules, cutoffs float/schedules, sweep_sequence strings, 1-2 solve() stages with overrides, "
        "p0 None/random/computational, eigensolver options; oracle numpy.linalg.eigh of ham.to_dense(); non-trivial = L>=4 and "
        "(Hamiltonian has a non-zero imaginary part or site-dependent terms)")
ASSUMPTIONS = [
    "numpy.linalg.eigh of ham.to_dense() is the trusted spectrum; to_dense() is cross-checked per case against sum of embedded terms",
    "a DMRG2 sweep is 'untruncated' iff cutoff == 0.0 and cap >= d**(L//2); every DMRG1 update is untruncated (QR only)",
    "clause (5) is only asserted where exactness is provable: every sweep has cap >= d^(L/2), two-site runs use cutoff 0.0 and a generic "
    "full-bond start (complete block bases), the inner tolerance is <= 1e-10; the full claim (energy + ground space) needs every local solve "
    "to be numpy.linalg.eigh (d^L < 45); with Lanczos local solves only 'converged => eigenstate of H' is asserted, a run that Lanczos keeps "
    "inside an invariant subspace (product operators, classical models) is classified trapped, not failed",
    "ground-space overlap is only asserted when the gap above the ground space is >= 1e-3 * ||H||",
    "ArpackNoConvergence out of solve() is a rejection only when the case tightened local_eig_tol below 1e-6 (scipy's documented refusal)",
    "requested cap: last executed sweep's bond dimension for bsz=2 (every bond is re-split each sweep); running maximum of the "
    "schedule (and of p0) for bsz=1, which never truncates",
]

TOL1 = INV64          # clause 1, relative to ||H||_2
TOL_BOUND = 1e-8      # clause 2
TOL_MONO = 1e-9       # clause 3 when the local solve is dense (exact)
TOL_EXACT = 1e-6      # clause 5
TOL_PBC = 1e-3


def qtn():
    import quimb.tensor as Q

    return Q


# ---------------------------------------------------------------------------
# reference spin matrices and Hamiltonians (numpy only)
# ---------------------------------------------------------------------------

def spin_mats(S2):
    """Spin-S matrices in the basis m = S, S-1, ..., -S (own construction)."""
    S = S2 / 2.0
    d = S2 + 1
    m = [S - k for k in range(d)]
    Sz = np.diag(m).astype(complex)
    Sp = np.zeros((d, d), dtype=complex)
    for k in range(1, d):
        Sp[k - 1, k] = math.sqrt(S * (S + 1) - m[k] * (m[k] + 1))
    Sm = Sp.conj().T
    return {"X": (Sp + Sm) / 2, "Y": (Sp - Sm) / 2j, "Z": Sz, "+": Sp, "-": Sm, "I": np.eye(d, dtype=complex)}


def herm_matrix(seed, d, cplx):
    rng = np.random.default_rng(int(seed))
    a = rng.normal(size=(d, d))
    if cplx:
        a = a + 1j * rng.normal(size=(d, d))
    h = (a + a.conj().T) / 2
    return h / max(np.linalg.norm(h, 2), 1e-12) * 0.5  # spectral norm 1/2 like a spin-1/2 operator


def expand_two(term, S2):
    """term -> list of (factor, opA, opB); ops are str or ndarray (what quimb is given)."""
    d = S2 + 1
    k = term[0]
    if k == "pp":
        return [(float(term[1]), term[2], term[3])]
    if k == "hop":
        c, phi = float(term[1]), float(term[2])
        if phi == 0.0:
            return [(c / 2, "+", "-"), (c / 2, "-", "+")]
        return [(c / 2 * complex(math.cos(phi), math.sin(phi)), "+", "-"),
                (c / 2 * complex(math.cos(phi), -math.sin(phi)), "-", "+")]
    if k == "arr":
        return [(float(term[1]), herm_matrix(term[2], d, term[4]), herm_matrix(term[3], d, term[4]))]
    raise AssertionError(term)


def expand_one(term, S2):
    d = S2 + 1
    k = term[0]
    if k == "p":
        return [(float(term[1]), term[2])]
    if k == "arr1":
        return [(float(term[1]), herm_matrix(term[2], d, term[3]))]
    raise AssertionError(term)


def _mat(op, mats):
    return mats[op] if isinstance(op, str) else np.asarray(op, dtype=complex)


def ref_spin_ham(hd):
    """Dense reference of a 'spin' description: site-specific term lists REPLACE the
    default ones (documented: 'terms acting on specific sites only (which take precedence)')."""
    S2, L, cyc = hd["S2"], hd["L"], hd.get("cyclic", False)
    d = S2 + 1
    mats = spin_mats(S2)
    dims = [d] * L
    D = d ** L
    H = np.zeros((D, D), dtype=complex)
    var2 = {int(i): t for i, t in hd.get("var_two", [])}
    var1 = {int(i): t for i, t in hd.get("var_one", [])}
    for i in range(L):
        for t in var1.get(i, hd["one"]):
            for f, a in expand_one(t, S2):
                H += embed(f * _mat(a, mats), dims, [i])
        if i + 1 == L and not cyc:
            break
        j = (i + 1) % L
        for t in var2.get(i, hd["two"]):
            for f, a, b in expand_two(t, S2):
                H += embed(f * np.kron(_mat(a, mats), _mat(b, mats)), dims, [i, j])
    return H


def build_spin_ham(hd):
    Q = qtn()
    S2, L = hd["S2"], hd["L"]
    b = Q.SpinHam1D(S=S2 / 2, cyclic=bool(hd.get("cyclic", False)))
    route = hd.get("route", "iadd")
    for t in hd["two"]:
        for term in expand_two(t, S2):
            if route == "isub":
                b -= (-term[0],) + term[1:]
            elif route == "add_term":
                b.add_term(*term)
            else:
                b += term
    for t in hd["one"]:
        for term in expand_one(t, S2):
            if route == "isub":
                b -= (-term[0],) + term[1:]
            elif route == "add_term":
                b.add_term(*term)
            else:
                b += term
    for i, terms in hd.get("var_two", []):
        flat = [term for t in terms for term in expand_two(t, S2)]
        if hd.get("var_route", "iadd") == "setitem":
            b[i, i + 1] = flat
        else:
            for term in flat:
                b[i, i + 1] += term
    for i, terms in hd.get("var_one", []):
        flat = [term for t in terms for term in expand_one(t, S2)]
        if hd.get("var_route", "iadd") == "setitem":
            b[i] = flat
        else:
            for term in flat:
                b[i] += term
    return b.build_mpo(L)


def named_desc_to_spin(hd):
    """Documented formula of the named models, as a 'spin' description."""
    name, p = hd["name"], hd["params"]
    base = {"kind": "spin", "S2": hd["S2"], "L": hd["L"], "cyclic": hd.get("cyclic", False), "var_two": [], "var_one": []}
    if name == "heis":
        jx, jy, jz = p["j"] if isinstance(p["j"], list) else [p["j"]] * 3
        base["two"] = [["pp", jx, "X", "X"], ["pp", jy, "Y", "Y"], ["pp", jz, "Z", "Z"]]
        base["one"] = [["p", -p["bz"], "Z"]]
    elif name == "ising":
        base["two"] = [["pp", p["j"], "Z", "Z"]]
        base["one"] = [["p", -p["bx"], "X"]]
    elif name == "XY":
        jx, jy = p["j"] if isinstance(p["j"], list) else [p["j"]] * 2
        base["two"] = [["pp", jx, "X", "X"], ["pp", jy, "Y", "Y"]]
        base["one"] = [["p", -p["bz"], "Z"]]
    else:
        raise AssertionError(name)
    return base


def build_named_ham(hd):
    Q = qtn()
    name, p, L = hd["name"], hd["params"], hd["L"]
    kw = dict(S=hd["S2"] / 2, cyclic=bool(hd.get("cyclic", False)))
    j = tuple(p["j"]) if isinstance(p["j"], list) else p["j"]
    if name == "heis":
        return Q.MPO_ham_heis(L, j=j, bz=p["bz"], **kw)
    if name == "ising":
        return Q.MPO_ham_ising(L, j=j, bx=p["bx"], **kw)
    return Q.MPO_ham_XY(L, j=j, bz=p["bz"], **kw)


def herm_mpo_arrays(hd):
    """Random Hermitian MPO tensors (lrud): T[a,b,i,j] = conj(T[a,b,j,i]) for every bond pair."""
    L, d, D = hd["L"], hd["d"], hd["bond"]
    rng = np.random.default_rng(int(hd["seed"]))
    arrs = []
    for i in range(L):
        shp = ((D,) if i > 0 else ()) + ((D,) if i < L - 1 else ()) + (d, d)
        x = rng.normal(size=shp)
        if hd["cplx"]:
            x = x + 1j * rng.normal(size=shp)
        x = (x + np.conj(np.swapaxes(x, -1, -2))) / 2
        arrs.append(x / math.sqrt(D * d))
    return arrs


def ref_herm_mpo(hd):
    """Dense matrix (rows = upper, columns = lower indices, site 0 most significant) by explicit einsum."""
    arrs = herm_mpo_arrays(hd)
    L, d = hd["L"], hd["d"]
    cur = arrs[0]  # (r, u, l)
    for i in range(1, L):
        t = arrs[i]
        if i == L - 1:
            t = t[:, None, :, :]
        cur = np.einsum("aUL,abul->bUuLl", cur, t)
        cur = cur.reshape(cur.shape[0], cur.shape[1] * cur.shape[2], cur.shape[3] * cur.shape[4])
    return cur[0]


def build_ham(hd):
    """-> (quimb MPO, dense reference from own construction, physical dimension)."""
    Q = qtn()
    k = hd["kind"]
    if k == "spin":
        return build_spin_ham(hd), ref_spin_ham(hd), hd["S2"] + 1
    if k == "named":
        return build_named_ham(hd), ref_spin_ham(named_desc_to_spin(hd)), hd["S2"] + 1
    if k == "herm_mpo":
        return Q.MatrixProductOperator(herm_mpo_arrays(hd)), ref_herm_mpo(hd), hd["d"]
    raise AssertionError(k)


def ham_flags(hd):
    site_dep = bool(hd.get("var_two") or hd.get("var_one")) or hd["kind"] == "herm_mpo"
    return site_dep


# ---------------------------------------------------------------------------
# running DMRG from a configuration
# ---------------------------------------------------------------------------

def as_seq(x):
    return list(x) if isinstance(x, (list, tuple)) else [x]


class Schedule:
    """Model of DMRG's 'iterate through, then repeat the final value' schedules."""

    def __init__(self, seq):
        self.seq = as_seq(seq)
        self.pos = 0

    def peek(self):
        return self.seq[min(self.pos, len(self.seq) - 1)]

    def next(self):
        v = self.peek()
        self.pos += 1
        return v


def make_p0(cfg, L, d, cyclic):
    import quimb as qu

    Q = qtn()
    p = cfg.get("p0")
    if not p:
        return None
    if p["kind"] == "rand":
        qu.seed_rand(int(p["seed"]))
        p0 = Q.MPS_rand_state(L, int(p["bond"]), phys_dim=d, dtype=p["dtype"], cyclic=cyclic)
        if p.get("exponent"):
            # the public stored prefactor 10**exponent of a tensor network: the same ray, a legal initial state
            p0.exponent = float(p["exponent"])
        return p0
    if p["kind"] == "comp":
        rng = np.random.default_rng(int(p["seed"]))
        bits = [int(x) for x in rng.integers(0, d, size=L)]
        return Q.MPS_computational_state(bits, dtype=p.get("dtype", "float64"), cyclic=cyclic) if d == 2 else \
            Q.MPS_product_state([np.eye(d)[b] for b in bits], cyclic=cyclic)
    raise AssertionError(p)


class Run:
    pass


def prepare(case):
    """Build the Hamiltonian, its dense reference and spectrum, and the DMRG object of a case (no sweep yet)."""
    import quimb as qu

    Q = qtn()
    hd, cfg = case["ham"], case["dmrg"]
    ham, Href, d = build_ham(hd)
    L = hd["L"]
    cyclic = bool(hd.get("cyclic", False))
    Hd = np.asarray(ham.to_dense())
    if Hd.shape != Href.shape:
        raise Violation("ham-dense", what="shape", got=list(Hd.shape), want=list(Href.shape), kind=hd["kind"])
    e_h = rel_err(Hd, Href, floor=float(np.linalg.norm(Href)))
    if not e_h <= 1e-9:
        raise Violation("ham-dense", err=e_h, kind=hd["kind"], cyclic=cyclic, site_dep=ham_flags(hd))
    Hd = Hd.astype(complex)
    if float(np.linalg.norm(Href - Href.conj().T)) > 1e-10 * max(float(np.linalg.norm(Href)), 1e-300):
        raise Reject("generated Hamiltonian not Hermitian")
    evals, evecs = np.linalg.eigh((Hd + Hd.conj().T) / 2)
    scale = float(max(abs(evals[0]), abs(evals[-1])))
    if scale < 1e-6:
        raise Reject("zero Hamiltonian")
    complex_ham = bool(np.max(np.abs(Hd.imag)) > 1e-9 * scale)

    r = Run()
    r.L, r.d, r.cyclic, r.Hd, r.evals, r.evecs, r.scale, r.complex_ham = L, d, cyclic, Hd, evals, evecs, scale, complex_ham
    r.ham, r.ham_err = ham, e_h
    r.site_dep = ham_flags(hd)
    r.bsz = int(cfg["bsz"])
    r.which = cfg.get("which", "SA")

    p0 = make_p0(cfg, L, d, cyclic)
    qu.seed_rand(int(cfg.get("seed", 0)))
    ctor = cfg.get("ctor", "DMRG")
    kw = {}
    if cfg.get("bond_dims") is not None:
        kw["bond_dims"] = cfg["bond_dims"]
    if cfg.get("cutoffs") is not None:
        kw["cutoffs"] = cfg["cutoffs"]
    if ctor == "DMRG":
        dm = Q.DMRG(ham, bsz=r.bsz, which=r.which, p0=p0, **kw)
        cut_default = 1e-9
    else:
        cls = {1: Q.DMRG1, 2: Q.DMRG2}[r.bsz]
        dm = cls(ham, which=r.which, p0=p0, **kw)
        cut_default = 1e-8
    for k, v in (cfg.get("opts") or {}).items():
        dm.opts[k] = v
    r.dm = dm
    r.local_eig_tol = float(dm.opts["local_eig_tol"])
    bd0 = cfg.get("bond_dims")
    if bd0 is None:
        bd0 = list(range(10, 1001, 10)) if r.bsz == 1 else [8, 16, 32, 64, 128, 256, 512, 1024]
    r.bsched = Schedule(bd0)
    r.csched = Schedule(cfg["cutoffs"] if cfg.get("cutoffs") is not None else cut_default)
    r.caps, r.cuts, r.dirs, r.first = [], [], [], []
    r.p0_bond = int(p0.max_bond()) if p0 is not None else int(as_seq(bd0)[0])
    r.mpo_real_any = any(not np.iscomplexobj(t.data) for t in ham)
    r.p0_complex = bool(p0 is not None and any(np.iscomplexobj(t.data) for t in p0))
    r.p0_exponent = bool(p0 is not None and float(p0.exponent) != 0.0)
    r.dense_opt = (cfg.get("opts") or {}).get("local_eig_ham_dense")
    r.stage_ends = []
    r.converged = None
    return r


def execute(case, stage_hook=None):
    """Build the Hamiltonian, run the configured solve() stages, return measurements.
    stage_hook(run, stage_index) is called after every stage with run.* filled in."""
    r = prepare(case)
    for si, stg in enumerate(case["dmrg"]["stages"]):
        run_solve(r, stg)
        measure(r)
        if stage_hook is not None:
            stage_hook(r, si)
    return r


def run_solve(r, stg):
    """One solve() call on r.dm with the book-keeping model (caps / cutoffs / directions per executed sweep)."""
    dm, scale = r.dm, r.scale
    skw = dict(tol=float(stg["tol_rel"]) * scale, max_sweeps=int(stg["max_sweeps"]))
    if stg.get("bond_dims") is not None:
        skw["bond_dims"] = stg["bond_dims"]
        r.bsched = Schedule(stg["bond_dims"])
    if stg.get("cutoffs") is not None:
        skw["cutoffs"] = stg["cutoffs"]
        r.csched = Schedule(stg["cutoffs"])
    if stg.get("sweep_sequence") is not None:
        skw["sweep_sequence"] = stg["sweep_sequence"]
    n0 = len(dm.energies)
    try:
        r.converged = bool(dm.solve(**skw))
    except Exception as e:
        if type(e).__name__ != "ArpackNoConvergence":
            raise
        # the local eigensolve gave up: classify by whether this call runs a one-site sweep straight after a bond
        # expansion without re-canonisation (known defect C10-c makes the effective problem singular there)
        seq = skw.get("sweep_sequence") or dm.opts["default_sweep_sequence"]
        planned = [seq[k % len(seq)] for k in range(skw["max_sweeps"])]
        alt = bool(r.bsz == 1 and any(a != b for a, b in zip(planned, planned[1:])))
        if not alt and r.local_eig_tol < 1e-6:
            # scipy's documented refusal when the caller asks Lanczos (ncv=4) for more accuracy than it reaches in 10*N restarts
            raise Reject("ArpackNoConvergence at a user-tightened local_eig_tol")
        raise Violation("local-eigensolve-failed", bsz=r.bsz, alt_expand_planned=alt, which=r.which, msg=str(e)[:80])
    n1 = len(dm.energies)
    if not (min(1, skw["max_sweeps"]) <= n1 - n0 <= skw["max_sweeps"]):
        raise Violation("sweep-count", got=n1 - n0, max_sweeps=skw["max_sweeps"])
    seq = skw.get("sweep_sequence") or dm.opts["default_sweep_sequence"]
    for k in range(n1 - n0):
        r.caps.append(int(r.bsched.next()))
        r.cuts.append(float(r.csched.next()))
        r.dirs.append(seq[k % len(seq)])
        r.first.append(k == 0)
    r.stage_ends.append(n1 - 1)
    if len(dm.total_energies) != len(r.caps) or len(dm.local_energies) != len(r.caps):
        raise Violation("bookkeeping", what="lengths", energies=n1, total=len(dm.total_energies), local=len(dm.local_energies))
    return n1 - n0


def measure(r, E=None):
    """Dense measurements of the state DMRG currently returns (E: the energy the last call reported, default dm.energy)."""
    dm, Hd = r.dm, r.Hd
    psi = dm.state
    pd = np.asarray(psi.to_dense()).reshape(-1).astype(complex)
    if pd.size != Hd.shape[0]:
        raise Violation("state-shape", got=int(pd.size), want=int(Hd.shape[0]))
    n2 = float(np.vdot(pd, pd).real)
    if not (n2 > 1e-12 and np.isfinite(n2)):
        raise Violation("state-norm", norm2=n2, bsz=r.bsz, compress=str(dm.opts.get("bond_compress_method")),
                        zero_cutoff=bool(r.cuts and min(r.cuts) == 0.0))
    Hp = Hd @ pd
    r.psi, r.pd, r.n2 = psi, pd, n2
    r.e_unnorm = float(np.vdot(pd, Hp).real)
    r.e_norm = r.e_unnorm / n2
    r.e_conj_unnorm = float(np.vdot(pd.conj(), Hd @ pd.conj()).real)
    r.e_conj_norm = r.e_conj_unnorm / n2
    r.E = complex(dm.energy if E is None else E)
    r.max_bond = int(psi.max_bond())
    return r


def lib_energy(r):
    """The library's own operator-on-state convention: psi.H @ ham.apply(psi), normalised by psi.H @ psi."""
    num = complex(r.psi.H @ r.ham.apply(r.psi))
    den = complex(r.psi.H @ r.psi)
    return num / den


def base_classes(r, case):
    cfg = case["dmrg"]
    c = ["bsz=%d" % r.bsz, "which=" + r.which, "ham=" + case["ham"]["kind"], "L=%d" % r.L, "d=%d" % r.d,
         "complex" if r.complex_ham else "real", "ctor=" + cfg.get("ctor", "DMRG"),
         "p0=" + (cfg["p0"]["kind"] if cfg.get("p0") else "none"), "stages=%d" % len(cfg["stages"]),
         "converged" if r.converged else "not-converged", "flavor=" + case["ham"].get("flavor", "-")]
    if r.site_dep:
        c.append("site-dep")
    for k in (cfg.get("opts") or {}):
        c.append("opt=" + k)
    return c


def nontrivial(r):
    return r.L >= 4 and (r.complex_ham or r.site_dep)


def alt_after_expand(r, k):
    """Sweep k of a one-site run starts from bond-expanded (noise padded) tensors WITHOUT re-canonisation: solve() skips
    the canonisation when the direction alternates within one call, although expand_bond_dimension has just been applied."""
    return bool(r.bsz == 1 and not r.first[k] and r.dirs[k] != r.dirs[k - 1])


def linop_possible(r):
    """Can a local effective Hamiltonian be handed to the eigensolver as a TNLinearOperator (rather than a dense matrix)?
    DMRG.form_local_ops: dense iff opts['local_eig_ham_dense'] (default: prod(dims) < 800)."""
    if r.dense_opt is True:
        return False
    if r.dense_opt is False:
        return True
    return max(r.caps + [r.p0_bond]) ** 2 * r.d ** r.bsz >= 800


def linop_mixed(r):
    """The effective-Hamiltonian LinearOperator can contain real AND complex tensors (a real MPO site tensor next to complex
    environments): TNLinearOperator then declares the dtype of its first tensor (known defect C10-d)."""
    state_complex = r.p0_complex or any(np.iscomplexobj(t.data) for t in r.psi)
    return bool(linop_possible(r) and r.mpo_real_any and (r.complex_ham or state_complex))


def shrink_before(r, k):
    """One-site sweep k is asked for a cap below what the state already carries (decreasing schedule / larger p0)."""
    return bool(r.bsz == 1 and r.caps[k] < max(r.caps[:k] + [r.p0_bond]))


def untruncated_sweep(r, k):
    if r.bsz == 1:
        return True
    return r.cuts[k] == 0.0 and r.caps[k] >= r.d ** (r.L // 2)


# ---------------------------------------------------------------------------
# strategies
# ---------------------------------------------------------------------------

COEFS = [1.0, -1.0, 0.5, -0.7, 0.3, 1.3, -1.6, 2.0]
REAL_FLAVORS = ["real", "real", "real", "real-arr", "named", "herm_mpo_real"]
CPLX_FLAVORS = ["dm", "offdiag", "yfield", "hop", "arr", "var-only", "herm_mpo_cplx"]


@st.composite
def s_two_terms(draw, flavor, allow_empty=False):
    """A list of two-site terms; complex ingredients only when the flavor asks for them."""
    c = st.sampled_from(COEFS)
    terms = []
    base = draw(st.lists(st.sampled_from(["XX", "YY", "ZZ", "XZ", "ZX", "pm"]), min_size=0 if allow_empty else 1, max_size=3, unique=True))
    for b in base:
        if b == "pm":
            terms.append(["hop", draw(c), 0.0])
        else:
            terms.append(["pp", draw(c), b[0], b[1]])
    if flavor == "dm":
        dmc = draw(c)
        terms += [["pp", dmc, "X", "Y"], ["pp", -dmc, "Y", "X"]]
    elif flavor == "offdiag":
        a, b = draw(st.sampled_from(["XY", "YX", "YZ", "ZY"]))
        terms.append(["pp", draw(c), a, b])
    elif flavor == "hop":
        terms.append(["hop", draw(c), draw(st.sampled_from([0.3, 0.7, 1.1, math.pi / 2, 2.5]))])
    elif flavor == "arr":
        terms.append(["arr", draw(c), draw(A.seeds), draw(A.seeds), True])
    elif flavor == "real-arr":
        terms.append(["arr", draw(c), draw(A.seeds), draw(A.seeds), False])
    return terms


@st.composite
def s_one_terms(draw, flavor):
    c = st.sampled_from(COEFS)
    terms = []
    for ax in draw(st.lists(st.sampled_from(["X", "Z"]), max_size=2, unique=True)):
        terms.append(["p", draw(c), ax])
    if flavor == "yfield":
        terms.append(["p", draw(c), "Y"])
    elif flavor == "arr" and draw(st.booleans()):
        terms.append(["arr1", draw(c), draw(A.seeds), True])
    elif flavor == "real-arr" and draw(st.booleans()):
        terms.append(["arr1", draw(c), draw(A.seeds), False])
    return terms


@st.composite
def s_ham(draw, tier, Lmax=6, pc=50, shift=False, Lmin=3, Lmax3=5):
    """Hamiltonian description; genuinely complex (by construction) with probability pc %."""
    nc = int(round(pc / 10.0))  # (st.integers is not uniform: weights via an explicit list)
    want = draw(st.sampled_from(["complex"] * nc + ["real"] * (10 - nc)))
    flavor = draw(st.sampled_from(REAL_FLAVORS if want == "real" else CPLX_FLAVORS))
    S2 = draw(st.sampled_from([1, 1, 1, 2]))
    d = S2 + 1
    hi = Lmax if d == 2 else min(Lmax, Lmax3)
    L = draw(st.sampled_from([l for l in (2, 3, 4, 4, 5, 5, 6, 6, 7, 8) if Lmin <= l <= hi]))
    if flavor.startswith("herm_mpo"):
        return {"kind": "herm_mpo", "L": L, "d": d, "bond": draw(st.integers(1, 3)), "seed": draw(A.seeds),
                "cplx": flavor.endswith("cplx"), "flavor": flavor}
    if flavor == "named":
        name = draw(st.sampled_from(["heis", "ising", "XY"]))
        c = st.sampled_from(COEFS)
        if name == "heis":
            p = {"j": draw(st.one_of(c, st.lists(c, min_size=3, max_size=3))), "bz": draw(st.sampled_from([0.0, 0.3, -0.8]))}
        elif name == "ising":
            p = {"j": draw(c), "bx": draw(st.sampled_from([0.0, 0.5, 2.0, -1.0]))}
        else:
            p = {"j": draw(st.one_of(c, st.lists(c, min_size=2, max_size=2))), "bz": draw(st.sampled_from([0.0, 0.3, -0.8]))}
        return {"kind": "named", "name": name, "params": p, "S2": S2, "L": L, "flavor": flavor}
    inner = "real" if flavor == "var-only" else flavor
    hd = {"kind": "spin", "S2": S2, "L": L, "flavor": flavor,
          "route": draw(st.sampled_from(["iadd", "iadd", "isub", "add_term"])),
          "var_route": draw(st.sampled_from(["iadd", "setitem"]))}
    site_dep = flavor == "var-only" or draw(st.booleans())
    hd["two"] = draw(s_two_terms(inner, allow_empty=site_dep and draw(st.booleans())))
    hd["one"] = draw(s_one_terms(inner))
    var_two, var_one = [], []
    if site_dep:
        vflavor = draw(st.sampled_from(["dm", "offdiag", "hop", "arr"])) if flavor == "var-only" else inner
        bonds = draw(st.lists(st.integers(0, L - 2), min_size=1, max_size=2, unique=True))
        for i in sorted(bonds):
            var_two.append([i, draw(s_two_terms(vflavor))])
        sites = draw(st.lists(st.integers(0, L - 1), min_size=0, max_size=2, unique=True))
        for i in sorted(sites):
            t1 = draw(s_one_terms("yfield" if flavor in ("var-only", "yfield") else inner))
            if not t1:
                t1 = [["p", 0.0, "I"]]  # documented idiom: a '0' term turns the default field off
            var_one.append([i, t1])
    hd["var_two"], hd["var_one"] = var_two, var_one
    if shift:
        # identity shift: moves the whole spectrum to one side of zero (so an unnormalised <H> is visible to clause 2)
        sh = draw(st.sampled_from([3.0, -3.0, 1.5]))
        hd["one"] = hd["one"] + [["p", sh, "I"]]
        hd["var_one"] = [[i, t + [["p", sh, "I"]]] for i, t in hd["var_one"]]
    return hd


SWEEPSEQ = [None, None, "R", "L", "RL", "LR", "RRL", "LLR"]


def one_in(draw, n):
    """True with probability 1/n (st.integers is deliberately non-uniform, an explicit list is not)."""
    return draw(st.sampled_from([True] + [False] * (n - 1)))


@st.composite
def s_p0(draw, d, L, max_bond, generic=False):
    kinds = ["none", "rand", "rand"] if generic else ["none", "rand", "rand", "comp"]
    k = draw(st.sampled_from(kinds))
    if k == "none":
        return None
    if k == "rand":
        return {"kind": "rand", "seed": draw(A.seeds), "bond": draw(st.integers(1, max(1, max_bond))),
                "dtype": draw(st.sampled_from(["float64", "complex128"]))}
    return {"kind": "comp", "seed": draw(A.seeds), "dtype": draw(st.sampled_from(["float64", "complex128"]))}


@st.composite
def s_dmrg_generic(draw, tier, hd, bsz=None, coarse=True):
    """A general configuration: truncating caps / cutoffs, schedules, stages, options."""
    L = hd["L"]
    d = hd.get("d") or hd["S2"] + 1
    if bsz is None:
        bsz = draw(st.sampled_from([1, 2]))
    full = d ** (L // 2)
    ctor = draw(st.sampled_from(["DMRG", "DMRG", "alias"]))
    ctor = "DMRG" if ctor == "DMRG" else "DMRG%d" % bsz
    max_total = 5 if tier == "quick" else 8
    caps = [c for c in [2, 3, 4, 6, 8, 12, 16, 27] if c <= max(full, 2)]
    form = draw(st.sampled_from(["int", "int", "inc", "any"]))
    if form == "int":
        bond_dims = draw(st.sampled_from(caps + ([1] if coarse and one_in(draw, 4) else [])))
    elif form == "inc":
        bond_dims = sorted(draw(st.lists(st.sampled_from(caps), min_size=1, max_size=3)))
    else:
        bond_dims = draw(st.lists(st.sampled_from(caps), min_size=1, max_size=3))
    cut_pool = [0.0, 1e-14, 1e-12, 1e-9, 1e-9] + ([1e-3, 1e-2] if coarse and one_in(draw, 3) else [])
    if one_in(draw, 4):
        cutoffs = draw(st.lists(st.sampled_from(cut_pool), min_size=1, max_size=3))
    else:
        cutoffs = draw(st.sampled_from(cut_pool))
    first_cap = as_seq(bond_dims)[0]
    # (one-site: mostly a start that fits the first cap, sometimes a larger one)
    p0 = draw(s_p0(d, L, first_cap if (bsz == 1 and not one_in(draw, 4)) else min(8, full)))
    nst = draw(st.sampled_from([1, 1, 2]))
    stages = []
    left = max_total
    for s in range(nst):
        ms = draw(st.integers(1, max(1, min(4, left - (nst - 1 - s)))))
        left -= ms
        stg = {"max_sweeps": ms, "tol_rel": draw(st.sampled_from([1e-4, 1e-4, 1e-8, 0.0])),
               "sweep_sequence": draw(st.sampled_from(SWEEPSEQ))}
        if s > 0 and draw(st.booleans()):
            hi = [c for c in caps if bsz == 2 or one_in(draw, 3) or c >= max(as_seq(bond_dims))] or [max(as_seq(bond_dims))]
            stg["bond_dims"] = draw(st.sampled_from(hi))
        if s > 0 and one_in(draw, 3):
            stg["cutoffs"] = draw(st.sampled_from(cut_pool))
        stages.append(stg)
    opts = draw(st.sampled_from([{}, {}, {}, {"local_eig_ham_dense": True}, {"local_eig_tol": 1e-8},
                                 {"bond_compress_method": "eig"}, {"default_sweep_sequence": "RL"}]))
    if opts.get("bond_compress_method") == "eig":
        # svd-via-eig with cutoff exactly 0.0 returns a non-isometric 'isometric' factor for a rank deficient two-site
        # solution (open finding C05-g of the decomposition property); DMRG then sweeps on with a singular environment
        # (finding C10-e, reproducer kept in known/C10.txt).  That class is left to C05: no exact-zero cutoff with 'eig'.
        nz = lambda c: 1e-14 if c == 0.0 else c  # noqa: E731
        cutoffs = [nz(c) for c in cutoffs] if isinstance(cutoffs, list) else nz(cutoffs)
        for stg in stages:
            if stg.get("cutoffs") is not None:
                stg["cutoffs"] = nz(stg["cutoffs"])
    cfg = {"bsz": bsz, "ctor": ctor, "which": draw(st.sampled_from(["SA", "SA", "SA", "LA"])), "bond_dims": bond_dims,
           "cutoffs": cutoffs, "p0": p0, "seed": draw(A.seeds), "stages": stages, "opts": opts}
    if ctor != "DMRG" and one_in(draw, 5) and bsz == 2:
        cfg["bond_dims"] = None  # the alias' documented default schedule
    if one_in(draw, 5):
        cfg["cutoffs"] = None
    return cfg


def s_case_generic(tier, bsz=None, Lmax=None, pc=50, shift=False, coarse=True, Lmin=3, expo=False):
    if Lmax is None:
        Lmax = 6 if tier == "quick" else 8

    @st.composite
    def s(draw):
        hd = draw(s_ham(tier, Lmax=Lmax, pc=pc, shift=shift, Lmin=Lmin))
        cfg = draw(s_dmrg_generic(tier, hd, bsz=bsz, coarse=coarse))
        if expo and cfg.get("p0") and cfg["p0"]["kind"] == "rand" and one_in(draw, 3):
            cfg["p0"]["exponent"] = draw(st.sampled_from([0.5, -0.3, 2.0]))
        return {"ham": hd, "dmrg": cfg}

    return s()


# ---------------------------------------------------------------------------
# 0. the Hamiltonian reference itself (validates the oracle every other sub-check trusts)
# ---------------------------------------------------------------------------

def s_ham_reference(tier):
    @st.composite
    def s(draw):
        hd = draw(s_ham(tier, Lmax=6))
        if hd["kind"] in ("spin", "named") and one_in(draw, 4) and hd["L"] >= 3:
            hd = dict(hd, cyclic=True, var_two=[]) if hd["kind"] == "spin" else dict(hd, cyclic=True)
        return {"ham": hd}

    return s()


def run_ham_reference(case):
    hd = case["ham"]
    ham, Href, d = build_ham(hd)
    Hd = np.asarray(ham.to_dense())
    if Hd.shape != Href.shape:
        raise Violation("ham-dense", what="shape", got=list(Hd.shape), want=list(Href.shape), kind=hd["kind"])
    e = rel_err(Hd, Href, floor=float(np.linalg.norm(Href)))
    if not e <= 1e-9:
        raise Violation("ham-dense", err=e, kind=hd["kind"], cyclic=bool(hd.get("cyclic")), site_dep=ham_flags(hd))
    eh = rel_err(Hd, Hd.conj().T, floor=float(np.linalg.norm(Href)))
    if not eh <= 1e-9:
        raise Violation("ham-not-hermitian", err=eh, kind=hd["kind"])
    cplx = bool(np.max(np.abs(Hd.imag)) > 1e-9 * max(float(np.linalg.norm(Href, 2)), 1e-300))
    want_c = hd.get("flavor") in CPLX_FLAVORS
    return {"nt": hd["L"] >= 4 and (cplx or ham_flags(hd)), "err": max(e, eh),
            "cls": ["kind=" + hd["kind"], "flavor=" + hd.get("flavor", "-"), "complex" if cplx else "real",
                    "cyclic" if hd.get("cyclic") else "open", "S2=%d" % (hd.get("S2") or hd["d"] - 1)] +
                   (["site-dep"] if ham_flags(hd) else []) + (["flavor-complex-but-real"] if want_c and not cplx else [])}


# ---------------------------------------------------------------------------
# 1. reported energy == expectation value in the returned state
# ---------------------------------------------------------------------------

def check_energy_state(r, tol=TOL1, **extra):
    """Clause 1 on the current state of r. Returns the observed error (relative to ||H||)."""
    s = r.scale
    e_lib = lib_energy(r)
    err_dense = abs(r.E - r.e_norm) / s
    err_lib = abs(r.E - e_lib) / s
    err_conv = abs(e_lib - r.e_norm) / s
    if not err_conv <= tol:
        # the library's own convention disagrees with dense algebra: not DMRG's fault, but the clause is undecidable
        raise Violation("apply-vs-dense", err=err_conv, complex_ham=r.complex_ham)
    if not (err_dense <= tol and err_lib <= tol):
        fits = lambda x: abs(r.E - x) / s <= tol  # noqa: E731
        conj_fits = bool((fits(r.e_conj_norm) or fits(r.e_conj_unnorm)) and not (fits(r.e_norm) or fits(r.e_unnorm)))
        unnorm = bool((fits(r.e_unnorm) and not fits(r.e_norm)) or (fits(r.e_conj_unnorm) and not fits(r.e_conj_norm)))
        raise Violation("energy-state", err=max(err_dense, err_lib), bsz=r.bsz, complex_ham=r.complex_ham, conj_fits=conj_fits,
                        unnormalised=unnorm, which=r.which, E=r.E, expect=r.e_norm, norm2=r.n2, **extra)
    # "... in the normalized state it returns": open-boundary DMRG hands back a unit vector
    if not r.cyclic and not abs(r.n2 - 1.0) <= TOL1:
        raise Violation("state-not-normalised", norm2=r.n2, bsz=r.bsz, p0_exponent=r.p0_exponent, **extra)
    return max(err_dense, err_lib, abs(r.n2 - 1.0) if not r.cyclic else 0.0)


def run_energy_state(case):
    errs = []

    def hook(r, si):
        errs.append(check_energy_state(r, stage=si))
        # energy is the last entry of the per-sweep list, which is the last total energy of the last sweep (documented attributes)
        dm = r.dm
        if complex(dm.energies[-1]) != r.E or abs(complex(dm.total_energies[-1][-1]) - r.E) > 1e-12 * r.scale:
            raise Violation("bookkeeping", what="energy-is-last-total", E=r.E, last_total=complex(dm.total_energies[-1][-1]))

    r = execute(case, hook)
    trunc = any(not untruncated_sweep(r, k) for k in range(len(r.caps))) and r.bsz == 2
    return {"nt": nontrivial(r), "err": max(errs), "cls": base_classes(r, case) + (["truncating"] if trunc else ["untruncated"])}


# ---------------------------------------------------------------------------
# 2 + 4. variational bound and bond cap
# ---------------------------------------------------------------------------

def run_bounds(case):
    worst = [0.0]

    def outside(x, r):
        lo, hi = r.evals[0], r.evals[-1]
        x = complex(x)
        return max(lo - x.real, x.real - hi, abs(x.imag), 0.0) / r.scale

    def hook(r, si):
        dm = r.dm
        # (4) bond cap
        cap = r.caps[-1]  # the cap of the last executed sweep, one- and two-site alike
        if r.max_bond > cap:
            raise Violation("bond-cap", got=r.max_bond, cap=cap, bsz=r.bsz, stage=si,
                            shrink_needed=shrink_before(r, len(r.caps) - 1))
        # (2) the energy of the returned state
        o = outside(r.E, r)
        worst[0] = max(worst[0], o)
        if o > TOL_BOUND:
            explained = bool(outside(r.E / r.n2, r) <= TOL_BOUND and abs(r.n2 - 1) > 1e-9)
            raise Violation("outside-spectrum", where="energy", bsz=r.bsz, unnormalised=explained, excess=o, which=r.which,
                            norm2=r.n2, stage=si)

    r = execute(case, hook)
    dm = r.dm
    for k, (e, tots) in enumerate(zip(dm.energies, dm.total_energies)):
        for x in list(tots) + [e]:
            o = outside(x, r)
            if untruncated_sweep(r, k):
                worst[0] = max(worst[0], o)
            if o > TOL_BOUND:
                raise Violation("outside-spectrum", where="sweep", bsz=r.bsz, trunc_sweep=not untruncated_sweep(r, k), excess=o,
                                which=r.which, sweep=k, alt_after_expand=alt_after_expand(r, k))
    binding = r.max_bond == r.caps[-1]
    return {"nt": nontrivial(r), "err": worst[0], "cls": base_classes(r, case) + (["cap-reached"] if binding else ["cap-slack"])}


# ---------------------------------------------------------------------------
# 3. monotone total energies over untruncated updates
# ---------------------------------------------------------------------------

@st.composite
def s_dmrg_monotone(draw, tier, hd):
    L = hd["L"]
    d = hd.get("d") or hd["S2"] + 1
    bsz = draw(st.sampled_from([1, 2]))
    full = d ** (L // 2)
    if bsz == 2:
        # cutoff exactly 0 and cap never binding
        bond_dims = draw(st.sampled_from([full, full + 3, [full, 2 * full]]))
        cutoffs = draw(st.sampled_from([0.0, [0.0, 0.0]]))
        p0b = min(full, 8)
    else:
        caps = [c for c in [1, 2, 3, 4, 6, 8, 16] if c <= full] or [1]
        bond_dims = draw(st.one_of(st.sampled_from(caps), st.lists(st.sampled_from(caps), min_size=1, max_size=3).map(sorted)))
        cutoffs = draw(st.sampled_from([0.0, 1e-9, 1e-3]))  # irrelevant for one-site updates
        p0b = as_seq(bond_dims)[0]
    opts = draw(st.sampled_from([{}, {}, {"local_eig_ham_dense": True}, {"local_eig_ham_dense": False, "local_eig_tol": 1e-10},
                                 {"local_eig_ham_dense": False}, {"local_eig_tol": 1e-10}, {"local_eig_tol": 1e-10}]))
    if opts.get("local_eig_ham_dense") is False and bsz == 1 and min(as_seq(bond_dims)) < 2:
        # a LinearOperator of dimension 2 is refused by the eigensolver wrapper (k >= N - 1): not this property's business
        opts = {k: v for k, v in opts.items() if k != "local_eig_ham_dense"}
    nst = draw(st.sampled_from([1, 1, 2]))
    stages = [{"max_sweeps": draw(st.integers(1, 3 if tier == "quick" else 4)), "tol_rel": draw(st.sampled_from([0.0, 1e-4, 1e-10])),
               "sweep_sequence": draw(st.sampled_from(SWEEPSEQ))} for _ in range(nst)]
    return {"bsz": bsz, "ctor": draw(st.sampled_from(["DMRG", "DMRG%d" % bsz])), "which": draw(st.sampled_from(["SA", "SA", "LA"])),
            "bond_dims": bond_dims, "cutoffs": cutoffs, "p0": draw(s_p0(d, L, p0b)), "seed": draw(A.seeds), "stages": stages,
            "opts": opts}


def s_case_monotone(tier):
    @st.composite
    def s(draw):
        hd = draw(s_ham(tier, Lmax=6 if tier == "quick" else 7, shift=one_in(draw, 4)))
        return {"ham": hd, "dmrg": draw(s_dmrg_monotone(tier, hd))}

    return s()


def run_monotone(case):
    r = execute(case)
    dm = r.dm
    sign = 1.0 if r.which == "SA" else -1.0
    # the local solve is exact (numpy.eigh) only for a dense effective Hamiltonian of dimension N with N**2 < 2000
    # (base_linalg.choose_backend); otherwise it is Lanczos at relative tolerance local_eig_tol (default 1e-3)
    forced_iter = (case["dmrg"].get("opts") or {}).get("local_eig_ham_dense") is False
    big = (max(r.caps + [r.p0_bond]) ** 2 * r.d ** r.bsz) ** 2 >= 2000
    tol = (max(TOL_MONO, r.local_eig_tol) if (forced_iter or big) else TOL_MONO)
    worst, nsteps = 0.0, 0
    prev = None
    for k, tots in enumerate(dm.total_energies):
        tots = [complex(x).real for x in tots]
        if not untruncated_sweep(r, k):
            prev = None
            continue
        seq = tots
        if prev is not None and r.bsz == 2:
            seq = [prev] + tots  # canonisation between sweeps is exact for bsz=2 (bsz=1 re-expands bonds with noise)
        for a, b in zip(seq, seq[1:]):
            inc = sign * (b - a) / r.scale
            worst = max(worst, inc)
            nsteps += 1
            if inc > tol:
                raise Violation("energy-increased", inc=inc, tol=tol, bsz=r.bsz, which=r.which, sweep=k, iterative=bool(forced_iter or big),
                                alt_after_expand=alt_after_expand(r, k), linop_mixed=linop_mixed(r))
        prev = tots[-1]
    if nsteps == 0:
        raise Reject("no untruncated update pair")
    # reported error is scaled to the exact-solve tolerance so that one number measures the margin of both classes
    return {"nt": nontrivial(r), "err": max(worst, 0.0) * (TOL_MONO / tol),
            "cls": base_classes(r, case) + ["iterative" if (forced_iter or big) else "dense-solve"] +
                   (["linop"] if linop_possible(r) else []) + (["linop-mixed-dtype"] if linop_mixed(r) else [])}


# ---------------------------------------------------------------------------
# 5. exact limit
# ---------------------------------------------------------------------------

@st.composite
def s_dmrg_exact(draw, tier, hd):
    """Configurations for which exactness is PROVABLE rather than hoped for: every sweep has cap >= d^(L/2); two-site
    runs use cutoff exactly 0.0 and start from a generic state that already has full bonds (so the block bases are
    complete unitaries from the first sweep on and the central local problem is the full Hamiltonian in a rotated basis);
    one-site runs pad the bonds to the cap with noise before every sweep (same effect) and do not alternate directions
    inside a solve() call (known defect C10-c).  The inner solver is made accurate."""
    L = hd["L"]
    d = hd.get("d") or hd["S2"] + 1
    bsz = draw(st.sampled_from([1, 2]))
    full = d ** (L // 2)
    bond_dims = draw(st.sampled_from([full, full, full + 2, [full, full + 1]]))
    if bsz == 2:
        cutoffs = draw(st.sampled_from([0.0, 0.0, [0.0, 0.0]]))
        p0 = draw(st.one_of(st.none(), st.fixed_dictionaries(
            {"kind": st.just("rand"), "seed": A.seeds, "bond": st.just(full), "dtype": st.sampled_from(["float64", "complex128"])})))
        seqs = SWEEPSEQ
    else:
        cutoffs = draw(st.sampled_from([0.0, 1e-12, 1e-9, [1e-6, 1e-12]]))
        p0 = draw(s_p0(d, L, min(full, 8), generic=True))
        seqs = [None, None, "R", "L"]
    stages = [{"max_sweeps": 8 if tier == "quick" else 10, "tol_rel": draw(st.sampled_from([1e-9, 1e-10])),
               "sweep_sequence": draw(st.sampled_from(seqs))}]
    if one_in(draw, 4):
        stages = [{"max_sweeps": 2, "tol_rel": 1e-4, "sweep_sequence": None}] + stages
    return {"bsz": bsz, "ctor": draw(st.sampled_from(["DMRG", "DMRG%d" % bsz])), "which": draw(st.sampled_from(["SA", "SA", "LA"])),
            "bond_dims": bond_dims, "cutoffs": cutoffs, "p0": p0, "seed": draw(A.seeds), "stages": stages,
            # 'converged' (energy change between sweeps) says nothing about the distance from the optimum when every local
            # solve stops at the default relative tolerance 1e-3
            "opts": draw(st.sampled_from([{"local_eig_tol": 1e-10}, {"local_eig_tol": 1e-12},
                                          {"local_eig_tol": 1e-10, "local_eig_ham_dense": True}]))}


def s_case_exact(tier):
    @st.composite
    def s(draw):
        # half the cases are small enough (d^L < 45) for the library to solve every local problem with numpy.linalg.eigh
        if draw(st.booleans()):
            hd = draw(s_ham(tier, Lmax=5, pc=30, Lmax3=3))
        else:
            hd = draw(s_ham(tier, Lmax=6 if tier == "quick" else 7, pc=30, Lmax3=4, Lmin=4))
        return {"ham": hd, "dmrg": draw(s_dmrg_exact(tier, hd))}

    return s()


def run_exact(case):
    r = execute(case)
    cls = base_classes(r, case)
    full = r.d ** (r.L // 2)
    if min(r.caps) < full or (r.bsz == 2 and max(r.cuts) != 0.0):
        raise Reject("not a provably exact configuration")
    if not r.converged:
        return {"nt": False, "err": 0.0, "cls": cls + ["skipped:not-converged"]}
    ev = r.evals
    s = r.scale
    target = ev[0] if r.which == "SA" else ev[-1]
    err_e = abs(r.E - target) / s
    # every local problem has dimension <= d^L: below 45 the library's backend choice is the exact numpy.linalg.eigh
    # (base_linalg.choose_backend), so the central step returns the global optimum whatever the starting vector
    exact_solver = r.d ** r.L < 45 and r.dense_opt is not False
    cls.append("local-solve=eigh" if exact_solver else "local-solve=lanczos")
    nrm = math.sqrt(r.n2)
    resid = float(np.linalg.norm(r.Hd @ r.pd - r.e_norm * r.pd)) / (nrm * s)
    if not exact_solver:
        # Lanczos started from the current state cannot leave an invariant subspace of H (product operators, classical
        # models, symmetry sectors): a converged run is then an eigenstate, not necessarily the extremal one
        if not resid <= TOL_EXACT:
            pc = r.pd.conj()
            resid_c = float(np.linalg.norm(r.Hd @ pc - r.e_conj_norm * pc)) / (nrm * s)
            raise Violation("not-eigenstate", resid=resid, bsz=r.bsz, which=r.which, complex_ham=r.complex_ham,
                            conj_fits=bool(resid_c <= TOL_EXACT))
        if not err_e <= TOL_EXACT:
            return {"nt": False, "err": resid, "cls": cls + ["trapped-in-excited-eigenstate"]}
    if not err_e <= TOL_EXACT:
        raise Violation("exact-energy", err=err_e, bsz=r.bsz, which=r.which, complex_ham=r.complex_ham)
    width = 1e-8 * s
    inside = np.abs(ev - target) <= width
    rest = ev[~inside]
    gap = float(np.min(np.abs(rest - target))) / s if rest.size else float("inf")
    deg = int(inside.sum())
    cls.append("deg=%d" % min(deg, 4))
    if gap < 1e-3:
        return {"nt": nontrivial(r), "err": err_e, "cls": cls + ["near-degenerate:energy-only"]}
    V = r.evecs[:, inside]
    ov = float(np.linalg.norm(V.conj().T @ r.pd) ** 2 / r.n2)
    if not ov >= 1 - TOL_EXACT:
        ovc = float(np.linalg.norm(V.conj().T @ r.pd.conj()) ** 2 / r.n2)
        raise Violation("ground-overlap", overlap=ov, bsz=r.bsz, which=r.which, complex_ham=r.complex_ham,
                        conj_fits=bool(ovc >= 1 - TOL_EXACT), deg=deg)
    return {"nt": nontrivial(r), "err": max(err_e, 1 - ov, resid if not exact_solver else 0.0), "cls": cls}


# ---------------------------------------------------------------------------
# 6. periodic boundaries: energy/state consistency within the documented approximation
# ---------------------------------------------------------------------------

@st.composite
def s_case_periodic(draw, tier):
    # two-site periodic DMRG needs L >= 6 (L = 4, 5 raise ValueError / KeyError / try to allocate 78 GiB inside the segment
    # machinery - outside this property's periodic clause, see notes/C10.md); bonds <= 5 keep a run below ~1 s
    bsz = draw(st.sampled_from([1, 2]))
    L = draw(st.integers(4, 6)) if bsz == 1 else draw(st.integers(6, 7))
    c = st.sampled_from([1.0, 0.5, -0.7, 1.3])
    kind = draw(st.sampled_from(["spin", "named"]))
    if kind == "named":
        name = draw(st.sampled_from(["heis", "XY", "ising"]))
        p = {"heis": {"j": draw(st.one_of(c, st.lists(c, min_size=3, max_size=3))), "bz": draw(st.sampled_from([0.0, 0.3]))},
             "XY": {"j": draw(c), "bz": draw(st.sampled_from([0.0, 0.3]))},
             "ising": {"j": draw(c), "bx": draw(st.sampled_from([0.5, 1.0, 2.0]))}}[name]
        hd = {"kind": "named", "name": name, "params": p, "S2": 1, "L": L, "cyclic": True, "flavor": "named"}
    else:
        two = [["pp", draw(c), "X", "X"], ["pp", draw(c), "Y", "Y"], ["pp", draw(c), "Z", "Z"]]
        one = draw(st.sampled_from([[], [["p", 0.3, "Z"]], [["p", -0.5, "X"]]]))
        var_one = []
        if draw(st.booleans()):
            var_one = [[draw(st.integers(0, L - 1)), [["p", draw(c), "Z"]]]]
        hd = {"kind": "spin", "S2": 1, "L": L, "cyclic": True, "two": two, "one": one, "var_two": [], "var_one": var_one,
              "route": "iadd", "var_route": "iadd", "flavor": "heis-like"}
    opts = draw(st.sampled_from([{"periodic_segment_size": 1.0, "periodic_nullspace_fudge_factor": 1e-6},
                                 {"periodic_segment_size": 1.0}]))
    cfg = {"bsz": bsz, "ctor": draw(st.sampled_from(["DMRG", "DMRG%d" % bsz])), "which": "SA",
           "bond_dims": draw(st.sampled_from([3, 4, 5, [3, 5]])), "cutoffs": draw(st.sampled_from([None, 1e-9, 1e-12])),
           "p0": None, "seed": draw(A.seeds),
           "stages": [{"max_sweeps": draw(st.integers(2, 4)), "tol_rel": 1e-5, "sweep_sequence": draw(st.sampled_from([None, "RL"]))}],
           "opts": opts}
    return {"ham": hd, "dmrg": cfg}


def run_periodic(case):
    from quimb.tensor.tn1d.dmrg import DMRGError

    try:
        r = execute(case)
    except DMRGError as e:
        raise Reject("DMRGError: " + str(e)[:40])
    s = r.scale
    e_lib = lib_energy(r)
    err = max(abs(r.E - r.e_norm), abs(r.E - e_lib)) / s
    if not err <= TOL_PBC:
        raise Violation("energy-state-periodic", err=err, bsz=r.bsz, E=r.E, expect=r.e_norm, norm2=r.n2)
    return {"nt": r.L >= 4, "err": err, "cls": base_classes(r, case) + ["cyclic"]}


# ---------------------------------------------------------------------------
# 7. histories: several calls on ONE DMRG object, every clause after every call
# ---------------------------------------------------------------------------

HSEQ = [None, "R", "L", "RL", "RL", "LR", "LR", "RRL"]  # alternating sequences are where carried-over gauge state matters


@st.composite
def s_case_history(draw, tier):
    quick = tier == "quick"
    hd = draw(s_ham(tier, Lmax=6 if quick else 8, pc=40, Lmin=2, Lmax3=4))
    L = hd["L"]
    d = hd.get("d") or hd["S2"] + 1
    full = d ** (L // 2)
    bsz = draw(st.sampled_from([1, 2]))
    # two thirds of the histories never truncate (cap admits every state, cutoff exactly 0.0): only there monotonicity
    # across calls and "an exact state is not degraded" are claimed
    untrunc = draw(st.sampled_from([True, True, False]))
    caps = [c for c in [2, 3, 4, 6, 8, 12, 16] if c <= max(full, 2)]
    cut_pool = [0.0, 1e-12, 1e-9, 1e-9, 1e-3]
    if untrunc:
        bond_dims = draw(st.sampled_from([full, full, full + 2, [full, full + 1]]))
        cutoffs = draw(st.sampled_from([0.0, 0.0, [0.0, 0.0]])) if bsz == 2 else draw(st.sampled_from(cut_pool))
    else:
        bond_dims = draw(st.one_of(st.sampled_from(caps), st.lists(st.sampled_from(caps), min_size=1, max_size=3).map(sorted),
                                   st.lists(st.sampled_from(caps), min_size=2, max_size=3)))
        cutoffs = draw(st.one_of(st.sampled_from(cut_pool), st.lists(st.sampled_from(cut_pool), min_size=1, max_size=2)))
    first_cap = as_seq(bond_dims)[0]
    p0 = draw(s_p0(d, L, first_cap if (bsz == 1 and (untrunc or not one_in(draw, 4))) else min(8, full)))
    if p0 and p0["kind"] == "rand" and one_in(draw, 4):
        p0["exponent"] = draw(st.sampled_from([0.5, -0.3, 2.0]))
    opts = draw(st.sampled_from([{}, {}, {"local_eig_tol": 1e-10}, {"local_eig_tol": 1e-10}, {"local_eig_ham_dense": True}]))
    calls = []
    for k in range(draw(st.integers(2, 4))):
        if draw(st.sampled_from([True, True, False])):
            # a loose tol with a generous max_sweeps ends by convergence, tol 0.0 / one sweep by exhaustion
            c = {"op": "solve", "tol_rel": draw(st.sampled_from([1e-2, 1e-4, 1e-4, 1e-6, 1e-9, 0.0])),
                 "max_sweeps": 0 if one_in(draw, 12) else draw(st.sampled_from([1, 1, 2, 3, 4, 6, 6])),
                 "sweep_sequence": draw(st.sampled_from(HSEQ))}
            if k > 0 and one_in(draw, 4):
                if untrunc:
                    c["bond_dims"] = draw(st.sampled_from([full + 1, full + 3]))
                else:
                    hi = [x for x in caps if bsz == 2 or one_in(draw, 3) or x >= max(as_seq(bond_dims))] or [max(as_seq(bond_dims))]
                    c["bond_dims"] = draw(st.sampled_from(hi))
            if k > 0 and one_in(draw, 4) and not (untrunc and bsz == 2):
                c["cutoffs"] = draw(st.sampled_from(cut_pool))
        else:
            # canonize False stands for "False wherever the docstring allows it (previous sweep went the other way), else True"
            c = {"op": "sweep", "dir": draw(st.sampled_from(["R", "L"])), "canonize": draw(st.booleans()),
                 "plain": bool(bsz == 2 and not untrunc and one_in(draw, 4))}
        calls.append(c)
    cfg = {"bsz": bsz, "ctor": draw(st.sampled_from(["DMRG", "DMRG%d" % bsz])), "which": draw(st.sampled_from(["SA", "SA", "SA", "LA"])),
           "bond_dims": bond_dims, "cutoffs": cutoffs, "p0": p0, "seed": draw(A.seeds), "opts": opts}
    return {"ham": hd, "dmrg": cfg, "calls": calls}


def run_manual_sweep(r, call, last_dir):
    """sweep_right / sweep_left called directly.  Two-site sweeps are given the compression options solve() would inject
    (`update_opts`, documented pass-through) unless 'plain' (then Tensor.split's own defaults: no cap, cutoff 1e-10)."""
    dm = r.dm
    dirn = call["dir"]
    legal_false = last_dir is not None and last_dir != dirn  # "not needed if doing alternate sweeps"
    canonize = not (legal_false and not call["canonize"])
    kw = {}
    if r.bsz == 2 and not call.get("plain"):
        cap, cut = int(r.bsched.peek()), float(r.csched.peek())
        kw = {"max_bond": cap, "cutoff": cut}
    elif r.bsz == 2:
        cap, cut = 10 ** 9, 1e-10
    else:
        cap, cut = max(r.caps + [r.p0_bond]), 0.0
    try:
        E = (dm.sweep_right if dirn == "R" else dm.sweep_left)(canonize=canonize, **kw)
    except Exception as e:
        if type(e).__name__ != "ArpackNoConvergence":
            raise
        if r.local_eig_tol < 1e-6:
            raise Reject("ArpackNoConvergence at a user-tightened local_eig_tol")
        raise Violation("local-eigensolve-failed", bsz=r.bsz, alt_expand_planned=False, which=r.which, msg=str(e)[:80])
    r.caps.append(cap)
    r.cuts.append(cut)
    r.dirs.append(dirn)
    r.first.append(True)
    r.converged = None
    if len(dm.total_energies) != len(r.caps):
        raise Violation("bookkeeping", what="lengths-after-manual-sweep", total=len(dm.total_energies), want=len(r.caps))
    return E, canonize


def run_history(case):
    r = prepare(case)
    dm = r.dm
    s = r.scale
    full = r.d ** (r.L // 2)
    sign = 1.0 if r.which == "SA" else -1.0
    target = r.evals[0] if r.which == "SA" else r.evals[-1]
    lo, hi = r.evals[0], r.evals[-1]
    prev_E = None          # energy the previous call ended with (validated against the dense expectation)
    prev_conv = False      # the previous call was a solve() that returned True
    exact = False          # the previous call ended in the exact extremal state
    last_dir = None
    nsw = 0
    worst1 = worst3 = 0.0
    nt = False
    cls = []
    for ci, call in enumerate(case["calls"]):
        info = dict(call=ci, op=call["op"], bsz=r.bsz, which=r.which, complex_ham=r.complex_ham)
        if call["op"] == "solve":
            n = run_solve(r, call)
            if n == 0:
                cls.append("solve(max_sweeps=0)")
                prev_conv = False
                continue
            E = dm.energy
            info["canonize"] = True
        else:
            E, can = run_manual_sweep(r, call, last_dir)
            n = 1
            info["canonize"] = can
        new = list(range(nsw, nsw + n))
        first_dir = r.dirs[new[0]]
        if ci > 0:
            resumed = "from-converged" if prev_conv else ("dir-change" if first_dir != last_dir else "same-dir")
            cls.append("resume:" + resumed)
            info["resume"] = resumed
            if prev_conv or first_dir != last_dir:
                nt = True
        measure(r, E=E)
        # (1) reported energy == expectation in the returned state; the reported energy is the last recorded total energy
        worst1 = max(worst1, check_energy_state(r, **{k: v for k, v in info.items() if k not in ("bsz", "which", "complex_ham")}))
        if abs(complex(dm.total_energies[-1][-1]) - r.E) > 1e-12 * s:
            raise Violation("bookkeeping", what="reported-is-last-total", **info)
        # (4) bond cap
        cap = r.caps[-1]
        if r.max_bond > cap:
            raise Violation("bond-cap", got=r.max_bond, cap=cap, shrink_needed=shrink_before(r, len(r.caps) - 1), **info)
        # (2) every energy recorded by this call lies in the spectrum
        for k in new:
            for x in dm.total_energies[k]:
                x = complex(x)
                o = max(lo - x.real, x.real - hi, abs(x.imag), 0.0) / s
                if o > TOL_BOUND:
                    raise Violation("outside-spectrum", where="sweep", excess=o, sweep=k - nsw, trunc_sweep=not untruncated_sweep(r, k), **info)
        # (3) no increase across untruncated local updates, chained from the energy the previous call / sweep ended with
        nmax = min(max(r.caps + [r.p0_bond]), full) ** 2 * r.d ** r.bsz
        lanczos = r.dense_opt is False or nmax ** 2 >= 2000
        tol = max(TOL_MONO, r.local_eig_tol) if lanczos else TOL_MONO
        prev = prev_E
        all_untr = True
        for k in new:
            tots = [complex(x).real for x in dm.total_energies[k]]
            if shrink_before(r, k):
                # a one-site run that honours a smaller cap has to truncate before this sweep: no claim across that point
                prev = None
                all_untr = False
            if untruncated_sweep(r, k):
                seq = tots if prev is None else [prev] + tots
                for j, (a, b) in enumerate(zip(seq, seq[1:])):
                    inc = sign * (b - a) / s
                    worst3 = max(worst3, inc * (TOL_MONO / tol))
                    if inc > tol:
                        raise Violation("energy-increased", inc=inc, tol=tol, sweep=k - nsw, step=j - (0 if prev is None else 1),
                                        across_calls=bool(k == new[0] and prev is not None and j == 0 and ci > 0), **info)
            else:
                all_untr = False
            prev = tots[-1]
        # (5) an exact state survives any further untruncated call
        err_e = abs(r.E - target) / s
        if exact and all_untr and not err_e <= TOL_EXACT:
            raise Violation("exact-degraded", err=err_e, **info)
        exact = bool(err_e <= 1e-9)
        if exact:
            cls.append("exact-after-call")
        prev_E = r.E.real
        prev_conv = bool(call["op"] == "solve" and r.converged)
        last_dir = r.dirs[-1]
        nsw += n
    base = ["bsz=%d" % r.bsz, "which=" + r.which, "L=%d" % r.L, "d=%d" % r.d, "complex" if r.complex_ham else "real",
            "calls=" + ">".join(c["op"] for c in case["calls"]),
            "untruncated-history" if all(untruncated_sweep(r, k) for k in range(nsw)) else "truncating-history"]
    return {"nt": nt, "err": max(worst1, worst3), "cls": base + sorted(set(cls))}


# ---------------------------------------------------------------------------

def _q(fn, **kw):
    return lambda tier: fn(tier, **kw)


SUBCHECKS = [
    SubCheck("ham_reference", run_ham_reference, s_ham_reference, examples=(150, 1500), shards=(1, 2),
             rule="ham.to_dense() == sum of embedded terms from own spin matrices (open + cyclic, overrides replace defaults); "
                  "nt: L>=4 and (complex or site-dependent)"),
    SubCheck("energy_state_dmrg2", run_energy_state, _q(s_case_generic, bsz=2, pc=30, Lmin=2, expo=True), examples=(36, 250), shards=(2, 4),
             rule="two-site DMRG: after every solve() stage energy == <psi|H|psi>/<psi|psi> (dense) == psi.H@ham.apply(psi) within 1e-6||H||; "
                  "half the Hamiltonians genuinely complex; nt as RULE"),
    SubCheck("energy_state_dmrg1", run_energy_state, _q(s_case_generic, bsz=1, pc=30, Lmin=2, expo=True), examples=(36, 250), shards=(2, 4),
             rule="one-site DMRG: same clause; nt as RULE"),
    SubCheck("bounds_and_cap", run_bounds, _q(s_case_generic, shift=True), examples=(36, 250), shards=(2, 4),
             rule="lambda_min-1e-8 <= every reported energy <= lambda_max+1e-8 (energy, energies, total_energies) and max_bond <= cap "
                  "after every stage; spectra shifted off zero so that an unnormalised <H> is visible; nt as RULE"),
    SubCheck("monotone", run_monotone, s_case_monotone, examples=(36, 250), shards=(2, 4),
             rule="total_energies never go up (down for LA) across untruncated updates (DMRG1 always; DMRG2 with cutoff 0.0 and cap >= d^(L/2)) "
                  "beyond 1e-9||H|| (dense local solve) / local_eig_tol (iterative); nt as RULE"),
    SubCheck("exact_limit", run_exact, s_case_exact, examples=(36, 250), shards=(2, 4),
             rule="provably exact configurations (cap >= d^(L/2) in every sweep, cutoff 0.0 + full-bond generic start for two-site, noise-padded "
                  "bonds for one-site, inner tol <= 1e-10), converged at 1e-9: d^L < 45 (all local solves numpy.eigh): |E-lambda|<=1e-6||H|| and "
                  "ground-space weight >= 1-1e-6 (gap above the ground space >= 1e-3||H||); larger (Lanczos): ||H psi - E psi|| <= 1e-6||H||, and "
                  "the full claim unless trapped in an excited eigenstate; nt as RULE and converged and not trapped"),
    SubCheck("history", run_history, s_case_history, examples=(150, 400), shards=(2, 4),
             rule="2-4 calls on ONE DMRG object (solve with tol / max_sweeps / sweep_sequence / bond_dims / cutoffs overrides, manual "
                  "sweep_right / sweep_left with canonize False only after an opposite sweep), DMRG1 and DMRG2, 40% complex; after EVERY call: "
                  "clause 1 (dense + apply), every newly recorded total energy inside the spectrum, cap, no increase across untruncated updates "
                  "chained from the energy the previous call ended with, an exact state is not degraded by further untruncated calls; "
                  "nt: >=2 calls with a later call starting from a converged solve or changing direction"),
    SubCheck("periodic", run_periodic, s_case_periodic, examples=(10, 50), shards=(2, 3),
             rule="cyclic Heisenberg-like chains L 4-6: energy == normalised <psi|H|psi> within 1e-3||H||; nt: all"),
]
