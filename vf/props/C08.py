"""C08 — an MPS's recorded canonical form is always true, and its consumers are correct.

One MPS and one `info` dict are threaded through a generated history of every
operation that accepts or updates the record.  After every step the harness
checks, with its own isometry test on the raw arrays, that the record is sound
(all sites left of the recorded range are left isometries, all sites right of
it right isometries, flagged `left_inds` tensors are isometries), and every
query / gate is compared with the value defined by the dense state.
"""
from __future__ import annotations

import numpy as np
from hypothesis import strategies as st

from .. import arrays as A
from ..core import MachineSpec, dict_strategy, Reject, SubCheck, Violation, rejecting, rel_err
from ..oracle import embed, ptrace

RULE = ("histories (<=14/25 steps) on one open-boundary MPS (L 2-7, bond 1-4, phys dim 2-3, real/complex, normalised or "
        "not) threading one info record through 28 rule kinds: canonicalize/shift/left-right canonicalize/compress/"
        "compress_site, unitary and non-unitary one-site gates, gate_split, gate_with_auto_swap, gate_nonlocal, "
        "gate_with_submpo (direct/dm/zipup/fit.., sweep_reverse), swap_sites_with_compress (absorb forms), swap_site_to, "
        "measure (remove/renorm), and the canonical-form queries; non-trivial = the record was consumed (an operation "
        "received a concrete (lo,hi) record) after >= 2 record-changing steps")
ASSUMPTIONS = [
    "isometry is measured by the harness on raw arrays (||A^dag A - 1||_F <= 1e-8), not by count_canonized",
    "one-site gate_ and gate_split_ take no record: after a non-unitary one-site gate outside the recorded range, or any "
    "gate_split_, the harness drops the record exactly as a user must",
    "dense reference: psi.to_dense() of the state *before* each operation and numpy linear algebra",
]

ISO_TOL = 1e-8
VAL_TOL = 1e-8


def Q():
    import quimb.tensor as qtn

    return qtn


class S:
    pass


def site_defects(psi):
    """(left defect, right defect) per site, from the raw arrays."""
    L = psi.L
    out = []
    for i in range(L):
        t = psi[i]
        lb = [] if i == 0 else list(t.bonds(psi[i - 1]))
        rb = [] if i == L - 1 else list(t.bonds(psi[i + 1]))
        other = [ix for ix in t.inds if ix not in lb + rb]

        def defect(inn, outi):
            # isometry from `outi` into (inn + physical): contracting inn+other with the conjugate gives 1 on outi
            arr = np.asarray(t.data)
            inds = list(t.inds)
            perm = [inds.index(x) for x in inn + other] + [inds.index(x) for x in outi]
            a = np.transpose(arr, perm)
            dr = int(np.prod([a.shape[k] for k in range(len(inn + other), a.ndim)])) if outi else 1
            m = a.reshape(-1, dr)
            g = m.conj().T @ m
            return float(np.linalg.norm(g - np.eye(dr)))

        out.append((defect(lb, rb), defect(rb, lb)))
    return out


def record(info):
    co = info.get("cur_orthog", None)
    if co is None or isinstance(co, str):
        return None
    if isinstance(co, int):
        return (co, co)
    return (int(min(co)), int(max(co)))


def check_record(s, op):
    psi, info = s.psi, s.info
    det = dict(getattr(s, "detail", {}) or {})
    rec = record(info)
    # flagged isometries
    for t in psi:
        if t.left_inds is not None:
            arr = np.asarray(t.data)
            inds = list(t.inds)
            left = list(t.left_inds)
            right = [i for i in inds if i not in left]
            a = np.transpose(arr, [inds.index(x) for x in left + right])
            m = a.reshape(int(np.prod([a.shape[k] for k in range(len(left))])) if left else 1, -1)
            g = m.conj().T @ m
            if np.linalg.norm(g - np.eye(g.shape[0])) > ISO_TOL * 10:
                raise Violation("flagged-not-isometric", op=op)
    if rec is None:
        return
    lo, hi = rec
    if not (0 <= lo <= hi < psi.L):
        raise Violation("record-out-of-range", op=op, rec=[lo, hi], L=psi.L)
    prof = site_defects(psi)
    for i in range(psi.L):
        if i < lo and prof[i][0] > ISO_TOL:
            raise Violation("record-unsound", op=op, side="left", site=i, rec=[lo, hi], defect=prof[i][0], **det)
        if i > hi and prof[i][1] > ISO_TOL:
            raise Violation("record-unsound", op=op, side="right", site=i, rec=[lo, hi], defect=prof[i][1], **det)


def dense(psi):
    return np.asarray(psi.to_dense()).reshape(-1)


def dims(s):
    return [s.d] * s.psi.L


def note_consume(s):
    if record(s.info) is not None and s.changes >= 2:
        s.consumed = True


def changed(s):
    s.changes += 1


def require_state(s, ref, op, tol=VAL_TOL, **info):
    got = dense(s.psi)
    e = rel_err(got, ref, floor=np.linalg.norm(ref))
    s.maxerr = max(s.maxerr, e if np.isfinite(e) else 0.0)
    if not e <= tol:
        raise Violation("state-value", op=op, err=e, **info)


def gate_matrix(seed, k, d, kind, dtype):
    D = d ** k
    if kind == "unitary":
        return A.make_matrix(seed, "unitary", D, D, dtype)
    return A.make_matrix(seed, "gauss", D, D, dtype)


# ---------------------------------------------------------------------------

init_strategy = dict_strategy({
    "L": st.integers(2, 7), "bond": st.integers(1, 4), "d": st.sampled_from([2, 2, 2, 3]),
    "dtype": st.sampled_from(["complex128", "complex128", "float64"]), "seed": st.integers(0, 2**31 - 1),
    "normalize": st.booleans(), "start": st.sampled_from(["none", "calc", "canon"]), "where": st.integers(0, 6),
    "exponent": st.sampled_from([0.0, 0.0, 0.0, 1.0, -0.5]),
})


def start(init):
    qtn = Q()
    s = S()
    L, d = init["L"], init["d"]
    if d == 3:
        L = min(L, 5)
    s.d = d
    s.dtype = init["dtype"]
    psi = qtn.MPS_rand_state(L, init["bond"], phys_dim=d, dtype=init["dtype"], seed=init["seed"] % (2**31),
                             normalize=init["normalize"])
    if not init["normalize"]:
        psi[0].modify(data=psi[0].data * 1.7)
    if init.get("exponent"):
        # a stored exponent is part of the state an MPS denotes (to_dense includes it; 1D compression with
        # equalize_norms=<float> returns such states)
        psi.exponent = float(init["exponent"])
    s.psi = psi
    s.info = {}
    if init["start"] == "calc":
        s.info["cur_orthog"] = "calc"
    elif init["start"] == "canon":
        psi.canonicalize_(init["where"] % L, info=s.info)
    s.changes = 0
    s.consumed = False
    s.maxerr = 0.0
    s.ops = set()
    s.step = 0
    return s


I = st.integers(0, 1000)
B = st.booleans()
SEED = st.integers(0, 2**31 - 1)


def op_canonicalize(s, a):
    i, j, pair, drop = a
    L = s.psi.L
    d0 = dense(s.psi)
    if drop:
        s.info.pop("cur_orthog", None)
    note_consume(s)
    where = (i % L) if not pair else tuple(sorted((i % L, j % L)))
    rec0 = record(s.info)
    if rec0 is not None and rec0[0] == rec0[1] and j % 3 == 0:
        # documented spelling of a record: "a single site" - as a python or a numpy integer (what numpy indexing hands out)
        s.info["cur_orthog"] = [int(rec0[0]), np.int64(rec0[0])][(j // 3) % 2]
    s.psi.canonicalize_(where, info=s.info)
    changed(s)
    rec = record(s.info)
    lo, hi = (where, where) if not pair else where
    if rec is None or rec[0] < lo or rec[1] > hi:
        raise Violation("canonicalize-record-outside-request", rec=list(rec) if rec else None, where=[lo, hi])
    require_state(s, d0, "canonicalize")


def op_shift(s, a):
    (new,) = a
    rec = record(s.info)
    if rec is None or rec[0] != rec[1]:
        raise Reject("needs a single-site record")
    L = s.psi.L
    d0 = dense(s.psi)
    note_consume(s)
    s.psi.shift_orthogonality_center(rec[0], new % L)
    s.info["cur_orthog"] = (new % L, new % L)  # the user-side book-keeping this method documents
    changed(s)
    require_state(s, d0, "shift")


def op_canonize_site(s, a):
    i, left = a
    L = s.psi.L
    if L < 2:
        raise Reject("L<2")
    d0 = dense(s.psi)
    rec = record(s.info)
    if left:
        i = i % (L - 1)
        s.psi.left_canonize_site(i)
        if site_defects(s.psi)[i][0] > ISO_TOL:
            raise Violation("left-canonize-site-not-isometric", site=i)
        # sound user-side update: site i is now left-isometric only if everything left of it was
        if rec is not None and rec[0] == i:
            s.info["cur_orthog"] = (i + 1, max(rec[1], i + 1))
        elif rec is not None and rec[0] <= i + 1 <= rec[1] and rec[0] <= i:
            pass
        else:
            s.info.pop("cur_orthog", None)
    else:
        i = 1 + i % (L - 1)
        s.psi.right_canonize_site(i)
        if site_defects(s.psi)[i][1] > ISO_TOL:
            raise Violation("right-canonize-site-not-isometric", site=i)
        if rec is not None and rec[1] == i:
            s.info["cur_orthog"] = (min(rec[0], i - 1), i - 1)
        elif rec is not None and rec[0] <= i - 1 and i <= rec[1]:
            pass
        else:
            s.info.pop("cur_orthog", None)
    changed(s)
    require_state(s, d0, "canonize_site")


def op_lr_canonicalize(s, a):
    stop, left, normalize = a
    L = s.psi.L
    d0 = dense(s.psi)
    nrm = np.linalg.norm(d0)
    if normalize:
        stop = L - 1 if left else 0  # `normalize` normalises the state only for a full sweep (it rescales the end tensor)
    if left:
        k = stop % L
        s.psi.left_canonicalize_(stop=k, normalize=normalize)
        prof = site_defects(s.psi)
        if any(prof[i][0] > ISO_TOL for i in range(k)):
            raise Violation("left-canonicalize-form", stop=k)
        s.info["cur_orthog"] = (k, L - 1)
    else:
        k = stop % L
        s.psi.right_canonicalize_(stop=k, normalize=normalize)
        prof = site_defects(s.psi)
        if any(prof[i][1] > ISO_TOL for i in range(k + 1, L)):
            raise Violation("right-canonicalize-form", stop=k)
        s.info["cur_orthog"] = (0, k)
    changed(s)
    require_state(s, d0 / nrm if normalize else d0, "lr_canonicalize")


def op_compress(s, a):
    form_i, k = a
    L = s.psi.L
    d0 = dense(s.psi)
    form = ["left", "right", "flat", None, "int"][form_i % 5]
    if form == "int":
        form = k % L
    s.psi.compress(form=form, cutoff=0.0)
    changed(s)
    if form == "left":
        s.info["cur_orthog"] = (L - 1, L - 1)
    elif form in ("right", None):
        s.info["cur_orthog"] = (0, 0)
    elif form == "flat":
        s.info.pop("cur_orthog", None)
    else:
        s.info["cur_orthog"] = (form, form)
    require_state(s, d0, "compress")


def op_compress_site(s, a):
    i, drop = a
    L = s.psi.L
    d0 = dense(s.psi)
    if drop:
        s.info.pop("cur_orthog", None)
    note_consume(s)
    kw = {}
    opt = (i // 7) % 6  # documented options: canonize=False keeps the centre where it is, absorb is forwarded to the splits
    if opt == 1:
        kw["canonize"] = False
    elif opt == 2:
        kw["absorb"] = "both"
    elif opt == 3:
        kw["absorb"] = "left"
    s.detail = {"canonize": kw.get("canonize", True), "absorb": str(kw.get("absorb"))}
    s.psi.compress_site(i % L, info=s.info, cutoff=0.0, **kw)
    changed(s)
    require_state(s, d0, "compress_site")


def op_gate1(s, a):
    i, seed, kind = a
    L = s.psi.L
    i = i % L
    d0 = dense(s.psi)
    G = gate_matrix(seed, 1, s.d, "unitary" if kind else "gauss", "complex128" if s.dtype == "complex128" else "float64")
    s.psi.gate_(G, i, contract=True)
    rec = record(s.info)
    if not kind and rec is not None and not (rec[0] <= i <= rec[1]):
        s.info.pop("cur_orthog", None)  # documented user duty: a non-unitary gate outside the centre invalidates the record
    ref = embed(G, dims(s), [i]) @ d0
    require_state(s, ref, "gate1")


def op_normalize_site(s, a):
    """tensor-level rescaling of one site (Tensor.normalize_): the state is divided by that tensor's norm; it takes no record,
    so the harness drops the record exactly as a user must - but a tensor that stays *flagged* isometric must still be one
    (the canonization shortcut trusts the flag)"""
    (i,) = a
    L = s.psi.L
    i = i % L
    d0 = dense(s.psi)
    nrm = float(np.linalg.norm(np.asarray(s.psi[i].data)))
    if nrm < 1e-12:
        raise Reject("zero tensor")
    s.psi[i].normalize_()
    s.info.pop("cur_orthog", None)
    changed(s)
    require_state(s, d0 / nrm, "normalize_site")


def op_gate_split(s, a):
    i, seed, rev = a
    L = s.psi.L
    if L < 2:
        raise Reject("L<2")
    i = i % (L - 1)
    where = (i + 1, i) if rev else (i, i + 1)
    d0 = dense(s.psi)
    G = gate_matrix(seed, 2, s.d, "gauss", s.dtype)
    s.psi.gate_split_(G, where, cutoff=0.0)
    s.info.pop("cur_orthog", None)
    changed(s)
    require_state(s, embed(G, dims(s), where) @ d0, "gate_split", rev=bool(rev))


def op_auto_swap(s, a):
    i, j, seed, swap_back = a
    L = s.psi.L
    if L < 2:
        raise Reject("L<2")
    i, j = i % L, j % L
    if i == j:
        raise Reject("same site")
    d0 = dense(s.psi)
    G = gate_matrix(seed, 2, s.d, "gauss", s.dtype)
    note_consume(s)
    s.psi.gate_with_auto_swap_(G, (i, j), info=s.info, swap_back=swap_back, cutoff=0.0)
    changed(s)
    ref = (embed(G, dims(s), (i, j)) @ d0).reshape(dims(s))
    if not swap_back and abs(i - j) > 1:
        lo, hi = min(i, j), max(i, j)
        # documented: site hi stays swapped to lo+1 and the sites between shift one place up
        order = list(range(lo + 1)) + [hi] + list(range(lo + 1, hi)) + list(range(hi + 1, L))
        ref = ref.transpose(order)
    require_state(s, ref.reshape(-1), "auto_swap", swap_back=bool(swap_back), order=int(i < j))


def op_nonlocal(s, a):
    sites, seed, method_i, transpose = a
    L = s.psi.L
    where = []
    for x in sites:
        if x % L not in where:
            where.append(x % L)
    where = where[: 3 if s.d == 2 else 2]
    if len(where) < 1:
        raise Reject("no sites")
    d0 = dense(s.psi)
    G = gate_matrix(seed, len(where), s.d, "gauss", s.dtype)
    method = ["direct", "dm", "zipup", "direct"][method_i % 4] if len(where) > 1 else "direct"
    note_consume(s)
    kw = {}
    eq = (seed // 3) % 5  # compression options forwarded by gate_nonlocal: the record must stay sound under them too
    if eq == 1 and len(where) > 1:
        kw["equalize_norms"] = True
    elif eq == 2 and len(where) > 1:
        kw["equalize_norms"] = 1.0
    s.detail = {"method": method, "equalize": repr(kw.get("equalize_norms"))}
    s.psi.gate_nonlocal_(G, where, info=s.info, method=method, transpose=transpose, cutoff=0.0, max_bond=None, **kw)
    changed(s)
    Gm = G.T if transpose else G
    require_state(s, embed(Gm, dims(s), where) @ d0, "nonlocal", method=method, transpose=bool(transpose))


def op_submpo(s, a):
    sites, seed, method_i, rev = a
    qtn = Q()
    L = s.psi.L
    where = sorted({x % L for x in sites})[: 3 if s.d == 2 else 2]
    if not where:
        raise Reject("no sites")
    d0 = dense(s.psi)
    G = gate_matrix(seed, len(where), s.d, "gauss", s.dtype)
    mpo = qtn.MatrixProductOperator.from_dense(G, dims=[s.d] * len(where), sites=where, L=L)
    # the operator applied is the MPO as built: from_dense's default cutoff (1e-10) can truncate an ill-conditioned gate's own
    # decomposition (6e-7 on a 9x9 gauss gate, found by the libFuzzer campaign at seed 2) - that error is the harness's
    G = np.asarray(mpo.to_dense()).reshape(G.shape)
    # (single-site regions crash in every non-direct 1D compressor, and zipup-first needs all site tags: both are
    #  compression-domain observations outside this property; only the documented default is used there)
    method = ["direct", "dm", "zipup", "fit", "src", "direct"][method_i % 6] if len(where) > 1 else "direct"
    kw = dict(cutoff=0.0, max_bond=None)
    tol = VAL_TOL
    if method in ("fit", "zipup-first", "src"):
        kw["max_bond"] = s.d ** L
        tol = 1e-5
    if method == "fit":
        kw["tol"] = 1e-12
        kw["max_iterations"] = 200
    if method in ("src", "fit"):
        kw["seed"] = seed % 1000
    note_consume(s)
    s.detail = {"method": method}
    with rejecting(NotImplementedError, tag="submpo-method:"):
        s.psi.gate_with_submpo_(mpo, where=where, info=s.info, method=method, sweep_reverse=rev, **kw)
    changed(s)
    require_state(s, embed(G, dims(s), where) @ d0, "submpo", tol=tol, method=method, sweep_reverse=bool(rev))


def op_swap(s, a):
    i, j, absorb_i = a
    L = s.psi.L
    if L < 2:
        raise Reject("L<2")
    i, j = i % L, j % L
    if i == j:
        raise Reject("same site")
    d0 = dense(s.psi)
    kw = {"cutoff": 0.0}
    absorb = [None, "left", "right", "both"][absorb_i % 4]
    if absorb:
        kw["absorb"] = absorb
    note_consume(s)
    s.detail = {"absorb": str(absorb)}
    s.psi.swap_sites_with_compress_(i, j, info=s.info, **kw)
    changed(s)
    perm = list(range(L))
    perm[i], perm[j] = perm[j], perm[i]
    ref = d0.reshape(dims(s)).transpose(perm).reshape(-1)
    require_state(s, ref, "swap", absorb=str(absorb), adjacent=abs(i - j) == 1)


def op_swap_to(s, a):
    i, f = a
    L = s.psi.L
    i, f = i % L, f % L
    d0 = dense(s.psi)
    note_consume(s)
    s.psi.swap_site_to_(i, f, info=s.info, cutoff=0.0)
    changed(s)
    order = list(range(L))
    order.pop(i)
    order.insert(f, i)
    ref = d0.reshape(dims(s)).transpose(order).reshape(-1)
    require_state(s, ref, "swap_to")


def op_measure(s, a):
    site, remove, renorm, fix, seed = a
    L = s.psi.L
    if remove and L <= 2:
        raise Reject("keep L>=2")
    site = site % L
    d0 = dense(s.psi)
    T = d0.reshape(dims(s))
    probs = np.sum(np.abs(np.moveaxis(T, site, 0).reshape(s.d, -1)) ** 2, axis=1)
    tot = probs.sum()
    probs = probs / tot
    outcome = None
    if fix:
        outcome = int(np.argmax(probs))
    note_consume(s)
    o, _ = s.psi.measure_(site, remove=remove, outcome=outcome, renorm=renorm, info=s.info, seed=seed)
    changed(s)
    if not (0 <= o < s.d) or probs[o] <= 1e-14:
        raise Violation("measure-impossible-outcome", outcome=int(o), p=float(probs[o]))
    if fix and o != outcome:
        raise Violation("measure-ignored-outcome")
    proj = np.take(T, o, axis=site)
    if renorm:
        proj = proj / np.sqrt(probs[o])
    if remove:
        ref = proj.reshape(-1)
        if s.psi.L != L - 1:
            raise Violation("measure-remove-length", got=s.psi.L)
        rec = record(s.info)
        want = min(site, L - 2)
        if rec is not None and not (0 <= rec[0] <= rec[1] < L - 1):
            raise Violation("record-out-of-range", op="measure", rec=list(rec), L=L - 1, remove=True)
    else:
        full = np.zeros_like(T)
        idx = [slice(None)] * L
        idx[site] = o
        full[tuple(idx)] = proj
        ref = full.reshape(-1)
    require_state(s, ref, "measure", remove=bool(remove), renorm=bool(renorm))


def op_measure_outcome(s, a):
    """get='outcome' with the plain spelling: nothing is projected and no state is returned, so the caller still holds the
    same MPS and the same record - which must still be sound for it (checked by the invariant)."""
    site, fix, seed = a
    L = s.psi.L
    site = site % L
    d0 = dense(s.psi)
    T = d0.reshape(dims(s))
    probs = np.sum(np.abs(np.moveaxis(T, site, 0).reshape(s.d, -1)) ** 2, axis=1)
    probs = probs / probs.sum()
    kw = {"outcome": int(np.argmax(probs))} if fix else {}
    note_consume(s)
    o = s.psi.measure(site, get="outcome", info=s.info, seed=seed, **kw)
    changed(s)
    if not (0 <= o < s.d) or probs[o] <= 1e-14:
        raise Violation("measure-impossible-outcome", outcome=int(o), p=float(probs[o]))
    require_state(s, d0, "measure_outcome")


def op_schmidt(s, a):
    i, what, drop = a
    L = s.psi.L
    if L < 2:
        raise Reject("L<2")
    i = 1 + i % (L - 1)
    d0 = dense(s.psi)
    if drop:
        s.info.pop("cur_orthog", None)
    note_consume(s)
    sv = np.linalg.svd(d0.reshape(s.d ** i, -1), compute_uv=False)
    what = ["singular_values", "schmidt_values", "entropy", "schmidt_gap", "bipartite"][what % 5]
    nrm2 = float(np.sum(sv ** 2))
    if what == "singular_values":
        got = np.sort(np.asarray(s.psi.singular_values(i, info=s.info)))[::-1]
        ref = sv
    elif what == "schmidt_values":
        got = np.sort(np.asarray(s.psi.schmidt_values(i, info=s.info)))[::-1]
        ref = sv ** 2
    elif what == "bipartite":
        kd = np.asarray(s.psi.bipartite_schmidt_state(i, get="ket-dense", info=s.info)).reshape(-1)
        got = np.sort(np.abs(kd[np.abs(kd) > 0]))[::-1]
        ref = sv
    elif what == "entropy":
        if abs(nrm2 - 1) > 1e-9:
            raise Reject("entropy needs a normalised state")
        got = np.array([float(s.psi.entropy(i, info=s.info))])
        p = sv ** 2
        p = p[p > 1e-300]
        ref = np.array([float(-np.sum(p * np.log2(p)))])
    else:
        got = np.array([float(s.psi.schmidt_gap(i, info=s.info))])
        p = np.concatenate([sv ** 2, [0.0]])
        ref = np.array([p[0] - p[1]]) if len(sv) > 1 else np.array([p[0]])
    changed(s)
    if what in ("singular_values", "schmidt_values", "bipartite"):
        k = max(len(got), len(ref))
        g = np.zeros(k)
        r = np.zeros(k)
        g[: len(got)] = got
        r[: len(ref)] = ref
        # values beyond the other's length must be numerically zero
        got, ref = g, r
    if what == "schmidt_gap" and len(sv) > 1 and len(np.atleast_1d(got)) == 1:
        # a bond of size 1 reports S[0]; dense reference has trailing zeros
        pass
    e = rel_err(got, ref, floor=max(nrm2, 1e-300) if what != "singular_values" else np.sqrt(nrm2))
    s.maxerr = max(s.maxerr, e)
    if not e <= 1e-7:
        raise Violation("query-value", op=what, err=e)
    require_state(s, d0, what)


def op_magnetization(s, a):
    i, dirn, drop = a
    import quimb as qu

    L = s.psi.L
    i = i % L
    d0 = dense(s.psi)
    if drop:
        s.info.pop("cur_orthog", None)
    note_consume(s)
    direction = "XYZ"[dirn % 3]
    got = s.psi.magnetization(i, direction, info=s.info)
    changed(s)
    S_ = (s.d - 1) / 2
    # textbook spin matrices (hbar = 1), written out here
    m = np.arange(S_, -S_ - 1, -1)
    Sz = np.diag(m)
    Sp = np.zeros((s.d, s.d))
    for k in range(1, s.d):
        Sp[k - 1, k] = np.sqrt(S_ * (S_ + 1) - m[k] * (m[k] + 1))
    Sx = (Sp + Sp.T) / 2
    Sy = (Sp - Sp.T) / 2j
    O = {"X": Sx, "Y": Sy, "Z": Sz}[direction]
    ref = np.vdot(d0, embed(O, dims(s), [i]) @ d0)
    e = rel_err(np.array(complex(got)), np.array(ref), floor=np.vdot(d0, d0).real)
    s.maxerr = max(s.maxerr, e)
    if not e <= 1e-8:
        raise Violation("query-value", op="magnetization", direction=direction, err=e)
    require_state(s, d0, "magnetization")


def op_local_expectation(s, a):
    sites, seed, normalized, route, drop = a
    L = s.psi.L
    where = []
    for x in sites:
        if x % L not in where:
            where.append(x % L)
    where = tuple(where[:2])
    if not where:
        raise Reject("no sites")
    d0 = dense(s.psi)
    nrm2 = np.vdot(d0, d0).real
    G = A.make_matrix(seed, "gauss", s.d ** len(where), s.d ** len(where), "complex128")
    if drop:
        s.info.pop("cur_orthog", None)
    note_consume(s)
    route = ["local_expectation_canonical", "partial_trace", "compute_local_expectation", "compute_inplace"][route % 4]
    ref = np.vdot(d0, embed(G, dims(s), where) @ d0)
    rho_ref = ptrace(d0, dims(s), list(where))
    if normalized:
        ref = ref / nrm2
        rho_ref = rho_ref / nrm2
    if route == "local_expectation_canonical":
        got = s.psi.local_expectation_canonical(G, where, normalized=normalized, info=s.info)
    elif route == "partial_trace":
        rho = np.asarray(s.psi.partial_trace_to_dense_canonical(where, normalized=normalized, info=s.info))
        e = rel_err(rho, rho_ref, floor=1.0 if normalized else nrm2)
        if not e <= 1e-8:
            raise Violation("query-value", op="partial_trace_to_dense_canonical", err=e, nwhere=len(where),
                            ordered=list(where) == sorted(where))
        got = np.trace(G @ rho)
    elif route == "compute_local_expectation":
        # non-inplace: works on a copy, the caller's record must stay valid for the unchanged state
        got = s.psi.compute_local_expectation({where: G}, normalized=normalized, method="canonical", info=s.info)
    else:
        got = s.psi.compute_local_expectation({where: G}, normalized=normalized, method="canonical", info=s.info, inplace=True)
    changed(s)
    e = rel_err(np.array(complex(got)), np.array(ref), floor=np.linalg.norm(G) * (1.0 if normalized else nrm2))
    s.maxerr = max(s.maxerr, e)
    if not e <= 1e-8:
        raise Violation("query-value", op=route, err=e, nwhere=len(where), ordered=list(where) == sorted(where))
    require_state(s, d0, route)


def op_sample(s, a):
    seed, many, drop = a
    L = s.psi.L
    d0 = dense(s.psi)
    nrm2 = np.vdot(d0, d0).real
    if drop:
        s.info.pop("cur_orthog", None)
    note_consume(s)
    T = d0.reshape(dims(s))
    if many:
        res = list(s.psi.sample(3, seed=seed, info=s.info))
    else:
        res = [s.psi.sample_configuration(seed=seed, info=s.info)]
    changed(s)
    for cfg, omega in res:
        p = abs(T[tuple(int(c) for c in cfg)]) ** 2 / nrm2
        if p <= 1e-14:
            raise Violation("sample-outside-support", op="sample" if many else "sample_configuration")
        if abs(omega - p) > 1e-8:
            raise Violation("query-value", op="sample" if many else "sample_configuration", err=float(abs(omega - p)))
    require_state(s, d0, "sample")


OPS = {
    "canonicalize": (st.tuples(I, I, B, st.integers(0, 5).map(lambda x: x == 0)), op_canonicalize),
    "shift": (st.tuples(I), op_shift),
    "canonize_site": (st.tuples(I, B), op_canonize_site),
    "lr_canonicalize": (st.tuples(I, B, B), op_lr_canonicalize),
    "compress": (st.tuples(I, I), op_compress),
    "compress_site": (st.tuples(I, st.integers(0, 5).map(lambda x: x == 0)), op_compress_site),
    "gate1": (st.tuples(I, SEED, B), op_gate1),
    "normalize_site": (st.tuples(I), op_normalize_site),
    "gate_split": (st.tuples(I, SEED, B), op_gate_split),
    "auto_swap": (st.tuples(I, I, SEED, B), op_auto_swap),
    "nonlocal": (st.tuples(st.lists(I, min_size=1, max_size=3), SEED, I, B), op_nonlocal),
    "submpo": (st.tuples(st.lists(I, min_size=1, max_size=3), SEED, I, B), op_submpo),
    "swap": (st.tuples(I, I, I), op_swap),
    "swap_to": (st.tuples(I, I), op_swap_to),
    "measure": (st.tuples(I, B, B, B, SEED), op_measure),
    "measure_outcome": (st.tuples(I, B, SEED), op_measure_outcome),
    "schmidt": (st.tuples(I, I, st.integers(0, 5).map(lambda x: x == 0)), op_schmidt),
    "magnetization": (st.tuples(I, I, st.integers(0, 5).map(lambda x: x == 0)), op_magnetization),
    "local_expectation": (st.tuples(st.lists(I, min_size=1, max_size=2), SEED, B, I, st.integers(0, 5).map(lambda x: x == 0)),
                          op_local_expectation),
    "sample": (st.tuples(SEED, B, st.integers(0, 5).map(lambda x: x == 0)), op_sample),
}


def wrap(name, fn):
    def f(s, a):
        s.ops.add(name)
        s.cur = name
        s.detail = {}
        fn(s, a)
    return f


OPS = {k: (strat, wrap(k, fn)) for k, (strat, fn) in OPS.items()}


def invariant(s):
    check_record(s, getattr(s, "cur", "init"))


def finish(s):
    return {"nt": s.consumed, "cls": ["op=" + o for o in sorted(s.ops)] + (["record-consumed"] if s.consumed else []) +
            [f"d={s.d}", s.dtype], "err": s.maxerr}


SPEC = MachineSpec(init=init_strategy, start=start, ops=OPS, invariant=invariant, finish=finish, max_steps=(14, 25))

SUBCHECKS = [
    SubCheck("record_history", machine=SPEC, examples=(50, 800), shards=(8, 16), soft_budget=(80.0, 900.0),
             fuzz={"instrument": ["quimb.tensor.tn1d.core:MatrixProductState", "quimb.tensor.tn1d.core:TensorNetwork1DFlat",
                                  "quimb.tensor.tn1d.core:TensorNetwork1D"], "shards": 6, "runs": 20000, "max_seconds": 600},
             rule="rule-based machine threading one info record; invariant: record sound + flagged isometries; every step compared "
                  "with the dense state; nt: record consumed after >=2 record-changing steps"),
]
