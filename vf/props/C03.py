"""C03 - labelled semantics: axis order never matters; non-in-place calls never mutate.

Domain (discovered by reflection at run time): for every class in CLASSES every
public attribute ``name_`` such that ``name`` also exists is a *pair*.  A table
RECIPES[name] builds valid arguments from the receiver.  Per exercised pair:

(1) purity      fingerprint(receiver, arguments) is unchanged by the plain call
                (class, extra properties, exponent, per-tid labels in stored
                order, tags, left_inds, dtype, shape, BYTES of every array);
                skipped when the resolved signature's ``inplace`` default is
                True (then the explicit ``inplace=False`` call is checked).
(1b) isolation  ``f_(copy(x))`` leaves ``x`` (which shares its arrays with the
                copy) unchanged.
(2) spelling    ``f(x)`` and ``f_(copy(x))`` are label-equal, and ``f_`` hands
                back the receiver object itself wherever ``f`` returns a
                network / tensor.
(3) axis order  ``f(x)`` and ``f(perm(x))`` are label-equal, where perm permutes
                the stored axes of every tensor (receiver and tensor-valued
                arguments) and shuffles the insertion order of the tensors
                (pmode 'rebuild'), or changes the layout AFTER construction:
                ``transpose_`` on the network's own tensors ('inplace'), plus
                rename round trips through the network ('reindex'), or both
                ('both') - the network's ind_map order and the tensors' stored
                order then disagree.  Where a method takes the documented
                in/out ``gauges`` dict the compared object is the gauged
                network: tensors AND updated gauges contracted together.

Label-equal = same class, same extra properties, same outer labels, same tag
multiset (tag *set* for rewrites whose grouping is heuristic), same left_inds
sets, same value (numpy einsum over the outer labels x 10**exponent).
"""
from __future__ import annotations

import collections
import functools
import inspect
import warnings

import numpy as np
from hypothesis import strategies as st

from .. import core
from ..core import EXACT64, INV64, Reject, SubCheck, Violation, rel_err
from ..oracle import einsum_value

RULE = ("(class, name) pairs are reflected at run time from 9 classes (every public name_ whose name exists); each case = "
        "pair x receiver (class-specific generator: rank/geometry/size/dtype/exponent from the case) x argument seed x axis "
        "permutation seed; oracles purity / copy isolation / spelling equivalence / axis-order invariance; non-trivial = "
        "receiver has >=2 tensors (rank>=2 for a Tensor), a non-identity stored-axis permutation was applied and the call was "
        "accepted by both spellings")
ASSUMPTIONS = [
    "numpy.einsum over the outer labels x 10**exponent is the trusted denotation of a result",
    "results that are gauge choices (isometrize/unitize with method='qr', randomize, rand_reduce, noise of expand_bond_dimension) "
    "are compared by labels/shape only under axis permutation; the value comparison is kept for the spelling oracle (same seed)",
    "heuristic rewrites (simplify family, boundary/hotrg/ctmrg contraction) may group tensors differently when the insertion "
    "order changes: tag *set* instead of tag multiset is compared there",
    "tensor order inside a network is shuffled by rebuilding the network from its tensors and view_like_() - the documented way "
    "to re-attach structure",
]

CLASS_NAMES = ["Tensor", "TensorNetwork", "TensorNetworkGenVector", "TensorNetworkGenOperator", "MatrixProductState",
               "MatrixProductOperator", "PEPS", "PEPO", "PEPS3D"]
SHORT = {"Tensor": "T", "TensorNetwork": "TN", "TensorNetworkGenVector": "GenVec", "TensorNetworkGenOperator": "GenOp",
         "MatrixProductState": "MPS", "MatrixProductOperator": "MPO", "PEPS": "PEPS", "PEPO": "PEPO", "PEPS3D": "PEPS3D"}
CHUNKS = [("a-c", "abc"), ("d-g", "defg"), ("h-q", "hijklmnopq"), ("r-z", "rstuvwxyz")]


@functools.lru_cache(None)
def Q():
    warnings.simplefilter("ignore")
    import quimb as qu
    import quimb.tensor as qtn
    from quimb.tensor.tnag.core import TensorNetworkGen, TensorNetworkGenOperator, TensorNetworkGenVector

    qtn.TensorNetworkGen = TensorNetworkGen
    qtn.TensorNetworkGenVector = TensorNetworkGenVector
    qtn.TensorNetworkGenOperator = TensorNetworkGenOperator
    qtn.qu = qu
    return qtn


def get_class(cname):
    return getattr(Q(), cname)


@functools.lru_cache(None)
def reflect():
    """{class name: sorted list of names having both spellings} - by reflection."""
    out = {}
    for cname in CLASS_NAMES:
        c = get_class(cname)
        out[cname] = sorted(n[:-1] for n in dir(c)
                            if n.endswith("_") and not n.startswith("_") and len(n) > 1 and hasattr(c, n[:-1])
                            and callable(getattr(c, n)) and callable(getattr(c, n[:-1])))
    return out


def inplace_default(cname, name):
    """Default of the ``inplace`` parameter of the plain spelling (None when the
    signature has no such parameter)."""
    try:
        sig = inspect.signature(getattr(get_class(cname), name))
    except (TypeError, ValueError):
        return None
    p = sig.parameters.get("inplace")
    if p is None or p.default is inspect.Parameter.empty:
        return None
    return p.default


# ---------------------------------------------------------------------------
# fingerprints (purity oracle)
# ---------------------------------------------------------------------------

def fp_array(a):
    a = np.asarray(a)
    return ("arr", str(a.dtype), tuple(a.shape), a.tobytes())


def fingerprint(o):
    qtn = Q()
    if isinstance(o, qtn.Tensor):
        li = o.left_inds
        return ("T", type(o).__name__, tuple(o.inds), tuple(o.tags), None if li is None else tuple(li), fp_array(o.data))
    if isinstance(o, qtn.TensorNetwork):
        props = tuple((p, repr(getattr(o, p, None))) for p in type(o)._EXTRA_PROPS)
        return ("TN", type(o).__name__, props, repr(o.exponent),
                tuple((tid, fingerprint(t)) for tid, t in o.tensor_map.items()))
    if isinstance(o, np.ndarray):
        return fp_array(o)
    if isinstance(o, dict):
        return ("dict", tuple((repr(k), fingerprint(v)) for k, v in o.items()))
    if isinstance(o, (list, tuple)):
        return (type(o).__name__, tuple(fingerprint(v) for v in o))
    return ("obj", repr(o))


def fp_diff(a, b, path=""):
    """Short description of the first difference between two fingerprints."""
    if a == b:
        return None
    if isinstance(a, tuple) and isinstance(b, tuple) and a and b and a[0] == b[0]:
        kind = a[0]
        if kind == "T":
            for nm, x, y in zip(("class", "inds", "tags", "left_inds", "data"), a[1:], b[1:]):
                if x != y:
                    if nm == "data":
                        return path + ("data-bytes" if x[1:3] == y[1:3] else "data-shape/dtype")
                    return path + nm
        if kind == "TN":
            if a[1] != b[1]:
                return path + "class"
            if a[2] != b[2]:
                return path + "props"
            if a[3] != b[3]:
                return path + "exponent"
            if tuple(t for t, _ in a[4]) != tuple(t for t, _ in b[4]):
                return path + "tids"
            for (tid, x), (_, y) in zip(a[4], b[4]):
                d = fp_diff(x, y, path + "tensor.")
                if d:
                    return d
        if kind in ("list", "tuple", "dict") and len(a[1]) == len(b[1]):
            for i, (x, y) in enumerate(zip(a[1], b[1])):
                d = fp_diff(x if kind != "dict" else x[1], y if kind != "dict" else y[1], path + f"arg{i}.")
                if d:
                    return d
        if kind == "arr":
            return path + ("array-bytes" if a[1:3] == b[1:3] else "array-shape/dtype")
    return path + "changed"


# ---------------------------------------------------------------------------
# stored-axis permutation (axis-order oracle)
# ---------------------------------------------------------------------------

def permute_tensor(t, rng, view=False):
    qtn = Q()
    p = [int(i) for i in rng.permutation(t.ndim)] if t.ndim else []
    if len(p) >= 2 and p == sorted(p):
        p = p[1:] + p[:1]  # construct a non-identity permutation rather than hope for one
    data = np.transpose(np.asarray(t.data), p) if p else np.asarray(t.data)
    if not view:
        data = np.ascontiguousarray(data)
    new = qtn.Tensor(data, inds=[t.inds[i] for i in p], tags=t.tags, left_inds=t.left_inds)
    return new, p != sorted(p)


PMODES = ["rebuild", "inplace", "reindex", "both"]


def drift_layout(tn, rng, view=False, reindex=False):
    """Change the stored layout of a network's OWN tensors after construction (history): ``t.transpose_`` on every tensor
    (the network's ind_map keeps the order in which the labels were first seen), optionally followed by a rename round trip
    of some labels through the network (moves their ind_map entries to the end).  Labelled content is unchanged."""
    moved = False
    for t in tn.tensor_map.values():
        if t.ndim < 2:
            continue
        p = [int(i) for i in rng.permutation(t.ndim)]
        if p == sorted(p):
            p = p[1:] + p[:1]
        li = t.left_inds
        t.transpose_(*[t.inds[i] for i in p])
        if not view:
            t.modify(data=np.ascontiguousarray(t.data))
        if li is not None:
            t.modify(left_inds=li)
        moved = True
    if reindex and tn.ind_map:
        labels = sorted(tn.ind_map)
        k = int(rng.integers(1, len(labels) + 1))
        for ix in [labels[int(i)] for i in rng.permutation(len(labels))[:k]]:
            tn.reindex_({ix: "__c03tmp__"})
            tn.reindex_({"__c03tmp__": ix})
            moved = True
    return moved


def permute_obj(o, rng, view=False, mode="rebuild"):
    """(permuted copy, whether something non-trivial was permuted).  mode: 'rebuild' = network rebuilt from pre-permuted
    tensors in shuffled insertion order; 'inplace' = layout of the network's own tensors changed after construction;
    'reindex' = inplace + rename round trips; 'both' = rebuild then reindex."""
    qtn = Q()
    if isinstance(o, qtn.Tensor):
        return permute_tensor(o, rng, view)
    if isinstance(o, qtn.TensorNetwork):
        if mode in ("inplace", "reindex"):
            new = o.copy()
            return new, drift_layout(new, rng, view, reindex=(mode == "reindex"))
        ts, moved = [], False
        for t in o.tensor_map.values():
            nt_, m = permute_tensor(t, rng, view)
            ts.append(nt_)
            moved = moved or m
        order = [int(i) for i in rng.permutation(len(ts))]
        new = qtn.TensorNetwork([ts[i] for i in order], virtual=True)
        new.exponent = o.exponent
        if type(o) is not qtn.TensorNetwork:
            new.view_like_(o)
        if mode == "both":
            drift_layout(new, rng, view, reindex=True)
        return new, moved or order != sorted(order)
    if isinstance(o, (list, tuple)):
        rs = [permute_obj(v, rng, view, mode) for v in o]
        return type(o)(r[0] for r in rs), any(r[1] for r in rs)
    if isinstance(o, dict):
        rs = {k: permute_obj(v, rng, view, mode) for k, v in o.items()}
        return {k: r[0] for k, r in rs.items()}, any(r[1] for r in rs.values())
    return o, False


# ---------------------------------------------------------------------------
# labelled description of a result (spelling / axis-order oracles)
# ---------------------------------------------------------------------------

MAX_DENSE = 2 ** 15


def obj_value(o, gauges=None):
    """(labels, dense value incl. exponent, magnitude floor) of a Tensor / network.  With ``gauges`` (bond label -> vector)
    the denoted object is the gauged network: every gauge vector whose label is present is contracted in as a diagonal
    on that bond (an extra one-label operand of the einsum)."""
    qtn = Q()
    if isinstance(o, qtn.Tensor):
        ts = [(np.asarray(o.data).astype(np.complex128), tuple(o.inds))]
        cnt = collections.Counter(o.inds)
        labels = sorted(cnt)
        expo = 0.0
    else:
        ts = [(np.asarray(t.data).astype(np.complex128), tuple(t.inds)) for t in o.tensor_map.values()]
        cnt = collections.Counter(i for _, inds in ts for i in inds)
        labels = sorted(i for i, c in cnt.items() if c == 1)
        expo = float(o.exponent)
    sizes = {}
    for a, inds in ts:
        for d, i in zip(a.shape, inds):
            sizes[i] = d
    n = 1
    for l in labels:
        n *= sizes[l]
    if n > MAX_DENSE:
        return labels, None, 0.0
    if gauges:
        ts = ts + [(np.asarray(g).astype(np.complex128).ravel(), (ix,)) for ix, g in gauges.items() if ix in cnt]
    mag = 1.0
    for a, _ in ts:
        mag *= max(float(np.linalg.norm(a.ravel())), 1e-300)
    with np.errstate(all="ignore"):
        v = einsum_value(ts, labels) * 10.0 ** expo
        mag = mag * 10.0 ** expo
    return labels, v, mag


def describe(o):
    qtn = Q()
    if isinstance(o, qtn.Tensor):
        labels, v, mag = obj_value(o)
        li = o.left_inds
        return {"k": "T", "cls": type(o).__name__, "labels": sorted(collections.Counter(o.inds).items()),
                "sizes": sorted((i, int(d)) for i, d in zip(o.inds, o.shape)),
                "tags": sorted(o.tags), "left": None if li is None else sorted(li), "v": v, "mag": mag}
    if isinstance(o, qtn.TensorNetwork):
        labels, v, mag = obj_value(o)
        tagc = collections.Counter(t for ten in o.tensor_map.values() for t in ten.tags)
        lefts = sorted(sorted(t.left_inds) for t in o.tensor_map.values() if t.left_inds is not None)
        return {"k": "TN", "cls": type(o).__name__, "labels": labels,
                "sizes": sorted((i, int(o.ind_size(i))) for i in labels),
                "props": [(p, repr(getattr(o, p, None))) for p in type(o)._EXTRA_PROPS],
                "tags": sorted(tagc.items()), "tagset": sorted(tagc), "n": o.num_tensors, "left": lefts, "v": v, "mag": mag}
    if isinstance(o, (list, tuple)):
        return {"k": "seq", "items": [describe(v) for v in o]}
    if isinstance(o, dict):
        return {"k": "dict", "items": {repr(k): describe(v) for k, v in sorted(o.items(), key=lambda kv: repr(kv[0]))}}
    if o is None or isinstance(o, (str, bool)):
        return {"k": "lit", "v": o}
    try:
        a = np.asarray(o)
        if a.dtype.kind in "biufc":
            return {"k": "num", "v": a.astype(np.complex128), "mag": float(np.linalg.norm(a.ravel()))}
    except Exception:
        pass
    return {"k": "lit", "v": repr(o)}


def describe_gauged(o, gauges):
    """Description of (result, updated gauges dict) as ONE denoted object + the multiset of gauge values."""
    qtn = Q()
    if isinstance(o, (list, tuple)):
        return {"k": "seq", "items": [describe_gauged(v, gauges) if isinstance(v, (qtn.Tensor, qtn.TensorNetwork)) else describe(v)
                                      for v in o]}
    d = describe(o)
    if d["k"] in ("T", "TN"):
        _, v, mag = obj_value(o, gauges)
        d["v"], d["mag"] = v, mag
        present = set(o.inds) if d["k"] == "T" else set(o.ind_map)
        d["stale"] = sum(1 for ix in gauges if ix not in present)
    # n.b. the gauge VALUES are not compared on their own: after a finite number of sweeps on a loopy network they depend on
    # the (undocumented, harmless) sweep order - only the gauged network they denote together with the tensors is fixed
    return {"k": "seq", "items": [d, {"k": "lit", "v": len(gauges)}]}


def compare_denotation(a, b, tol, what, info, path):
    def norm(d):
        if d["k"] == "num":
            return [], [], d["v"].reshape(()) if d["v"].size == 1 else d["v"], d["mag"], None
        labels = [l for l, _ in d["labels"]] if d["k"] == "T" else d["labels"]
        return labels, d["sizes"], d["v"], d["mag"], (d["tags"] if d["k"] == "T" else d["tagset"])
    la, sa, va, ma, ta = norm(a)
    lb, sb, vb, mb, tb = norm(b)
    if la != lb:
        raise Violation(what + ":outer-labels", where=path, a=str(la)[:120], b=str(lb)[:120], **info)
    if sa and sb and sa != sb:
        raise Violation(what + ":sizes", where=path, **info)
    if ta is not None and tb is not None and ta != tb:
        raise Violation(what + ":tag-set", where=path, a=str(ta)[:120], b=str(tb)[:120], **info)
    if va is None or vb is None:
        return 0.0
    e = rel_err(np.asarray(va).reshape(-1), np.asarray(vb).reshape(-1), floor=max(ma, mb))
    if not e <= tol:
        raise Violation(what + ":value", where=path, err=e, **info)
    return e


def compare_desc(a, b, tol, what, info, loose=False, values=True, floor=0.0, path="r", cross=False):
    """Raise Violation(what + clause) unless the two descriptions are label-equal. Returns max error."""
    if a["k"] != b["k"]:
        if cross and {a["k"], b["k"]} <= {"T", "TN", "num"}:
            # documented: the in-place spelling keeps the (one tensor / empty) network where the plain one hands back the
            # tensor or scalar -> compare denotations: outer labels, tag set, value
            return compare_denotation(a, b, tol, what, info, path)
        raise Violation(what + ":kind", where=path, a=a["k"], b=b["k"], **info)
    k = a["k"]
    err = 0.0
    if k == "lit":
        if a["v"] != b["v"]:
            raise Violation(what + ":literal", where=path, a=repr(a["v"])[:60], b=repr(b["v"])[:60], **info)
        return 0.0
    if k == "num":
        if values:
            e = rel_err(a["v"], b["v"], floor=max(floor, 0.0))
            if not e <= tol:
                raise Violation(what + ":value", where=path, err=e, **info)
            err = e
        elif a["v"].shape != b["v"].shape:
            raise Violation(what + ":shape", where=path, **info)
        return err
    if k == "seq":
        if len(a["items"]) != len(b["items"]):
            raise Violation(what + ":length", where=path, **info)
        for i, (x, y) in enumerate(zip(a["items"], b["items"])):
            err = max(err, compare_desc(x, y, tol, what, info, loose, values, floor, f"{path}[{i}]", cross))
        return err
    if k == "dict":
        if sorted(a["items"]) != sorted(b["items"]):
            raise Violation(what + ":keys", where=path, **info)
        for kk in a["items"]:
            err = max(err, compare_desc(a["items"][kk], b["items"][kk], tol, what, info, loose, values, floor, f"{path}[{kk}]", cross))
        return err
    # tensors / networks
    if a["cls"] != b["cls"]:
        raise Violation(what + ":class", where=path, a=a["cls"], b=b["cls"], **info)
    if a["labels"] != b["labels"]:
        raise Violation(what + ":outer-labels", where=path, a=str(a["labels"])[:120], b=str(b["labels"])[:120], **info)
    if a["sizes"] != b["sizes"]:
        raise Violation(what + ":sizes", where=path, a=str(a["sizes"])[:120], b=str(b["sizes"])[:120], **info)
    if k == "TN":
        if a["props"] != b["props"]:
            raise Violation(what + ":props", where=path, a=str(a["props"])[:160], b=str(b["props"])[:160], **info)
        if loose:
            if a["tagset"] != b["tagset"]:
                raise Violation(what + ":tag-set", where=path, a=str(a["tagset"])[:120], b=str(b["tagset"])[:120], **info)
        else:
            if a["tags"] != b["tags"]:
                raise Violation(what + ":tag-multiset", where=path, a=str(a["tags"])[:160], b=str(b["tags"])[:160], **info)
            if a["n"] != b["n"]:
                raise Violation(what + ":num-tensors", where=path, a=a["n"], b=b["n"], **info)
    else:
        if a["tags"] != b["tags"]:
            raise Violation(what + ":tags", where=path, a=str(a["tags"])[:120], b=str(b["tags"])[:120], **info)
        if a["left"] != b["left"]:
            raise Violation(what + ":left-inds", where=path, a=str(a["left"]), b=str(b["left"]), **info)
    if a.get("stale", 0) != b.get("stale", 0):
        raise Violation(what + ":stale-gauges", where=path, a=a.get("stale"), b=b.get("stale"), **info)
    if values and a["v"] is not None and b["v"] is not None:
        fl = max(a["mag"], b["mag"])
        e = rel_err(a["v"], b["v"], floor=fl)
        if not e <= tol:
            raise Violation(what + ":value", where=path, err=e, **info)
        err = e
    return err


# ---------------------------------------------------------------------------
# receivers
# ---------------------------------------------------------------------------

def rarr(rng, shape, dtype):
    x = rng.normal(size=tuple(shape))
    if "complex" in str(dtype):
        x = x + 1j * rng.normal(size=tuple(shape))
    return np.asarray(x, dtype=dtype)


def refill(tn, rng, dtype, order, prefix="e"):
    """Overwrite the arrays of a structured network from our own stream (site order) and give its bonds deterministic
    names (the library draws them from a per-process random prefix)."""
    ren = {}
    for key in order:
        for ix in tn[key].inds:
            if ix not in ren and len(tn.ind_map[ix]) > 1:
                ren[ix] = f"{prefix}{len(ren)}"
    tn.reindex_(ren)
    for key in order:
        t = tn[key]
        t.modify(data=rarr(rng, t.shape, dtype))
    return tn


GEOMS = ["chain", "tree", "loop"]


def graph_edges(n, geom, rng):
    if geom == "chain" or n < 3:
        return [(i, i + 1) for i in range(n - 1)]
    if geom == "tree":
        return sorted((int(rng.integers(0, i)), i) for i in range(1, n))
    es = {(i, i + 1) for i in range(n - 1)} | {(0, n - 1)}
    if n >= 4 and rng.integers(0, 2):
        es.add((0, 2))
    return sorted(es)


def build_graph_tensors(case, rng, site_tag, upper, lower=None, group_tags=True):
    qtn = Q()
    n = case["n"]
    edges = graph_edges(n, case["geom"], rng)
    bsz = {e: int(rng.choice([2, 2, 3])) for e in edges}
    ts = []
    for i in range(n):
        inds, shape = [], []
        for e in edges:
            if i in e:
                inds.append(f"e{e[0]}_{e[1]}")
                shape.append(bsz[e])
        inds.append(upper.format(i))
        shape.append(2)
        if lower is not None:
            inds.append(lower.format(i))
            shape.append(2)
        o = [int(j) for j in rng.permutation(len(inds))]
        inds = [inds[j] for j in o]
        shape = [shape[j] for j in o]
        tags = [site_tag.format(i)]
        if group_tags:
            tags.append("A" if i % 2 == 0 else "B")
        ts.append(qtn.Tensor(rarr(rng, shape, case["dtype"]), inds=inds, tags=tags))
    return ts


def build_receiver(case):
    """The receiver as a pure function of the case."""
    qtn = Q()
    cname = case["pair"][0]
    rng = np.random.default_rng(case["seed"])
    dt = case["dtype"]
    if cname == "Tensor":
        r = case["n"]
        r = 1 + (r - 1) % 4
        inds = [["a", "b", "c", "d"][int(i)] for i in rng.permutation(4)[:r]]
        shape = [int(rng.choice([2, 2, 3])) for _ in inds]
        left = None
        if r >= 2 and rng.integers(0, 3) == 0:
            left = sorted(inds)[: int(rng.integers(1, r))]
        return qtn.Tensor(rarr(rng, shape, dt), inds=inds, tags=["T0", "X"] if rng.integers(0, 2) else ["T0"], left_inds=left)
    if cname == "TensorNetwork":
        tn = qtn.TensorNetwork(build_graph_tensors(case, rng, "T{}", "k{}"))
    elif cname == "TensorNetworkGenVector":
        tn = qtn.TensorNetwork(build_graph_tensors(case, rng, "I{}", "k{}"))
        tn = tn.view_as_(qtn.TensorNetworkGenVector, sites=tuple(range(case["n"])), site_tag_id="I{}", site_ind_id="k{}")
    elif cname == "TensorNetworkGenOperator":
        tn = qtn.TensorNetwork(build_graph_tensors(case, rng, "I{}", "k{}", "b{}"))
        tn = tn.view_as_(qtn.TensorNetworkGenOperator, sites=tuple(range(case["n"])), site_tag_id="I{}",
                         upper_ind_id="k{}", lower_ind_id="b{}")
    elif cname == "MatrixProductState":
        L = case["n"]
        tn = qtn.MPS_rand_state(L, int(rng.choice([2, 3])), phys_dim=2, dtype=dt, seed=7)
        refill(tn, rng, dt, list(tn.site_tags))
    elif cname == "MatrixProductOperator":
        L = min(case["n"], 4)
        tn = qtn.MPO_rand(L, 2, phys_dim=2, dtype=dt, seed=7)
        refill(tn, rng, dt, list(tn.site_tags))
    elif cname == "PEPS":
        Lx, Ly = [(2, 2), (2, 3), (3, 2)][case["n"] % 3]
        tn = qtn.PEPS.rand(Lx, Ly, 2, phys_dim=2, dtype=dt, seed=7)
        refill(tn, rng, dt, list(tn.site_tags))
    elif cname == "PEPO":
        Lx, Ly = [(2, 2), (2, 2), (2, 3)][case["n"] % 3]
        tn = qtn.PEPO.rand(Lx, Ly, 2, phys_dim=2, dtype=dt, seed=7)
        refill(tn, rng, dt, list(tn.site_tags))
    elif cname == "PEPS3D":
        Lx, Ly, Lz = [(2, 2, 2), (1, 2, 2), (2, 2, 1)][case["n"] % 3]
        tn = qtn.PEPS3D.rand(Lx, Ly, Lz, 2, phys_dim=2, dtype=dt, seed=7)
        refill(tn, rng, dt, list(tn.site_tags))
    else:
        raise AssertionError(cname)
    if case.get("exp"):
        tn.exponent = float(case["exp"])
    return tn


# ---------------------------------------------------------------------------
# helpers for recipes (everything label based: sorted labels / tags / sites)
# ---------------------------------------------------------------------------

class Call:
    """Arguments for one pair.  x: replaced receiver (None = keep); tol: tolerance class; gauge: value of the result is a
    gauge/random choice under axis permutation (labels only there); loose: heuristic grouping; noperm: objects in args that
    must not be permuted (none so far); skip_args: argument names excluded from purity (documented in/out arguments)."""

    def __init__(self, *args, x=None, tol=EXACT64, gauge=False, loose=False, inout=(), note=None, **kwargs):
        self.args = list(args)
        self.kwargs = dict(kwargs)
        self.x = x
        self.tol = tol
        self.gauge = gauge
        self.loose = loose
        self.inout = tuple(inout)
        self.note = note


def is_tensor(x):
    return isinstance(x, Q().Tensor)


def stags(x):
    return sorted(x.tags)


def site_keys(x):
    """Sorted tags identifying single tensors of a network."""
    if hasattr(x, "site_tags"):
        return [t for t in x.site_tags if t in x.tag_map]
    return sorted(t for t in x.tag_map if t.startswith("T") and len(x.tag_map[t]) == 1)


def outer(x):
    return sorted(x.outer_inds())


def inner(x):
    return sorted(x.inner_inds())


def pick(rng, seq, k=None):
    seq = list(seq)
    if k is None:
        return seq[int(rng.integers(0, len(seq)))]
    idx = rng.permutation(len(seq))[:k]
    return [seq[int(i)] for i in idx]


def neighbours(x):
    """Sorted list of (tagA, tagB, [bonds]) for adjacent single-tensor site keys."""
    keys = site_keys(x)
    out = []
    for i, a in enumerate(keys):
        for b in keys[i + 1:]:
            bs = sorted(set(x[a].inds) & set(x[b].inds))
            if bs:
                out.append((a, b, bs))
    return out


def rand_unitary_like(rng, d, dtype):
    m = rarr(rng, (d, d), dtype)
    q, _ = np.linalg.qr(m)
    return np.ascontiguousarray(q)


def rand_gate(rng, d, dtype, unitary=False):
    if unitary:
        return rand_unitary_like(rng, d, dtype)
    return rarr(rng, (d, d), dtype) + np.eye(d)


def set_data(t, data):
    t.modify(data=np.ascontiguousarray(data))


def plant(x, kind, rng):
    """Copy of network x whose arrays have structure that makes simplification passes fire (label based)."""
    y = x.copy()
    keys = site_keys(y)
    dt = y.dtype
    if kind == "product":
        for k in keys:
            t = y[k]
            vecs = {ix: rarr(rng, (t.ind_size(ix),), dt) for ix in sorted(t.inds)}
            data = np.ones((), dtype=dt)
            arr = functools.reduce(np.multiply.outer, [vecs[ix] for ix in t.inds]) if t.inds else data
            set_data(t, arr)
        return y
    k = pick(rng, keys)
    t = y[k]
    inds = sorted(t.inds)
    if kind in ("diag", "antidiag"):
        pairs = [(a, b) for i, a in enumerate(inds) for b in inds[i + 1:] if t.ind_size(a) == t.ind_size(b)]
        if not pairs:
            return y
        a, b = pick(rng, pairs)
        d = t.ind_size(a)
        eye = np.eye(d)[::-1] if kind == "antidiag" else np.eye(d)
        ax, bx = t.inds.index(a), t.inds.index(b)
        shape = [1] * t.ndim
        shape[ax] = d
        shape[bx] = d
        mask = eye.reshape(shape) if ax < bx else eye.T.reshape(shape)
        set_data(t, np.asarray(t.data) * mask)
    elif kind == "column":
        a = pick(rng, inds)
        ax = t.inds.index(a)
        d = t.ind_size(a)
        shape = [1] * t.ndim
        shape[ax] = d
        m = np.zeros(d)
        m[int(rng.integers(0, d))] = 1.0
        set_data(t, np.asarray(t.data) * m.reshape(shape))
    return y


def shrink_ind(x, ind, size=1):
    """Copy of x where label `ind` is cut to `size` on every tensor carrying it."""
    y = x.copy()
    ts = [y] if is_tensor(y) else [y.tensor_map[tid] for tid in sorted(y.ind_map[ind])]
    for t in ts:
        ax = t.inds.index(ind)
        set_data(t, np.take(np.asarray(t.data), list(range(size)), axis=ax))
    return y


def other_like(x, rng, scale=1.0):
    """A second object with the same structure/labels as x and fresh arrays."""
    y = x.copy()
    if is_tensor(y):
        set_data(y, rarr(rng, y.shape, y.dtype))
        return y
    for k in site_keys(y):
        t = y[k]
        set_data(t, rarr(rng, t.shape, t.dtype) * scale)
    y.exponent = 0.0
    return y


def coo_of(x, tag):
    """site (int / tuple) of a site tag."""
    for s in x.sites:
        if x.site_tag(s) == tag:
            return s
    raise KeyError(tag)


def nn_sites(x):
    return [(coo_of(x, a), coo_of(x, b)) for a, b, _ in neighbours(x)]


def phys_inds_of(x, site):
    """dangling labels of the tensor at `site`, sorted."""
    t = x[x.site_tag(site)]
    o = set(x.outer_inds())
    return sorted(i for i in t.inds if i in o)


NOTRUNC = dict(max_bond=None, cutoff=0.0)

RECIPES = {}


def recipe(*names):
    def deco(fn):
        for n in names:
            RECIPES[n] = fn
        return fn
    return deco


# ---------------------------------------------------------------------------
# RECIPES: name -> fn(receiver, rng) -> Call   (valid arguments built from the receiver)
# ---------------------------------------------------------------------------

@recipe("conj", "negate")
def r_noargs(x, rng):
    return Call()


@recipe("astype")
def r_astype(x, rng):
    return Call("complex128")


@recipe("to")
def r_to(x, rng):
    return Call(dtype="complex128")


@recipe("collapse_repeated")
def r_collapse(x, rng):
    qtn = Q()
    inds = sorted(x.inds)
    pairs = [(a, b) for i, a in enumerate(inds) for b in inds[i + 1:] if x.ind_size(a) == x.ind_size(b)]
    if not pairs:
        return Call()
    a, b = pick(rng, pairs)
    y = qtn.Tensor(x.data, inds=[a if i == b else i for i in x.inds], tags=x.tags)
    return Call(x=y)


@recipe("direct_product")
def r_direct_product(x, rng):
    other = other_like(x, rng)
    other.transpose_(*pick(rng, sorted(x.inds), x.ndim))
    k = int(rng.integers(0, x.ndim + 1))
    return Call(other, sum_inds=tuple(pick(rng, sorted(x.inds), k)))


@recipe("flip")
def r_flip(x, rng):
    if is_tensor(x):
        return Call(pick(rng, sorted(x.inds)))
    if isinstance(x, Q().MatrixProductState):
        return Call()
    inds = sorted(x.ind_map)
    return Call(pick(rng, inds, int(rng.integers(1, 3))))


@recipe("fuse")
def r_fuse(x, rng):
    inds = sorted(x.inds)
    if len(inds) < 2:
        return Call({"f": tuple(inds)})
    k = int(rng.integers(2, len(inds) + 1))
    grp = pick(rng, inds, k)
    fm = {"f": tuple(grp)}
    rest = [i for i in inds if i not in grp]
    if len(rest) >= 2 and rng.integers(0, 2):
        fm["g"] = tuple(pick(rng, rest, 2))
    return Call(fm)


@recipe("unfuse")
def r_unfuse(x, rng):
    qtn = Q()
    inds = sorted(x.inds)
    a = pick(rng, inds)
    shape = [6 if i == a else x.ind_size(i) for i in x.inds]
    y = qtn.Tensor(rarr(rng, shape, x.dtype), inds=x.inds, tags=x.tags, left_inds=x.left_inds)
    sizes = (2, 3) if rng.integers(0, 2) else (3, 2)
    return Call({a: ("u1", "u2")}, {a: sizes}, x=y)


@recipe("isel")
def r_isel(x, rng):
    inds = sorted(x.inds) if is_tensor(x) else sorted(x.ind_map)
    sel = {}
    for ix in pick(rng, inds, int(rng.integers(1, min(2, len(inds)) + 1))):
        d = x.ind_size(ix)
        if d >= 2 and rng.integers(0, 3) == 0:
            sel[ix] = slice(0, d - 1)
        else:
            sel[ix] = int(rng.integers(0, d))
    return Call(sel)


@recipe("moveindex")
def r_moveindex(x, rng):
    return Call(pick(rng, sorted(x.inds)), int(rng.integers(-x.ndim, x.ndim)))


@recipe("multiply_index_diagonal")
def r_mid(x, rng):
    ix = pick(rng, sorted(x.inds))
    return Call(ix, rarr(rng, (x.ind_size(ix),), x.dtype))


@recipe("new_ind_pair_diag")
def r_nipd(x, rng):
    return Call(pick(rng, sorted(x.inds)), "nl", "nr")


@recipe("new_ind_pair_with_identity")
def r_nipi(x, rng):
    return Call("nl", "nr", int(rng.integers(1, 4)))


@recipe("rand_reduce")
def r_rand_reduce(x, rng):
    return Call(pick(rng, sorted(x.inds)), seed=int(rng.integers(0, 2 ** 31)), gauge=True)


@recipe("randomize")
def r_randomize(x, rng):
    return Call(seed=int(rng.integers(0, 2 ** 31)), gauge=True)


@recipe("reindex")
def r_reindex(x, rng):
    inds = sorted(x.inds) if is_tensor(x) else sorted(x.ind_map)
    ch = pick(rng, inds, int(rng.integers(1, min(3, len(inds)) + 1)))
    return Call({ix: f"z{j}" for j, ix in enumerate(ch)})


@recipe("retag")
def r_retag(x, rng):
    tags = stags(x)
    ch = pick(rng, tags, int(rng.integers(1, min(2, len(tags)) + 1)))
    return Call({t: f"N{j}" for j, t in enumerate(ch)})


@recipe("squeeze")
def r_squeeze(x, rng):
    if is_tensor(x):
        ix = pick(rng, sorted(x.inds))
        y = shrink_ind(x, ix)
        if rng.integers(0, 2):
            return Call(x=y)
        return Call(x=y, include=[ix])
    cands = inner(x) or outer(x)
    ix = pick(rng, cands)
    y = shrink_ind(x, ix)
    return Call(x=y, fuse=bool(rng.integers(0, 2)))


@recipe("sum_reduce")
def r_sum_reduce(x, rng):
    return Call(pick(rng, sorted(x.inds) if is_tensor(x) else outer(x)))


@recipe("vector_reduce")
def r_vector_reduce(x, rng):
    ix = pick(rng, sorted(x.inds) if is_tensor(x) else outer(x))
    return Call(ix, rarr(rng, (x.ind_size(ix),), x.dtype))


@recipe("symmetrize")
def r_symmetrize(x, rng):
    qtn = Q()
    y = None
    if x.ndim < 2:
        other = "b" if x.inds[0] != "b" else "a"
        y = x = qtn.Tensor(rarr(rng, (2, 2), x.dtype), inds=(x.inds[0], other), tags=x.tags)
    a, b = pick(rng, sorted(x.inds), 2)
    if x.ind_size(a) != x.ind_size(b):
        # construct (rather than hope for) two labels of equal size
        d = min(x.ind_size(a), x.ind_size(b))
        y = shrink_ind(shrink_ind(x, a, d), b, d)
    return Call(a, b, x=y)


@recipe("transpose")
def r_transpose(x, rng):
    return Call(*pick(rng, sorted(x.inds), x.ndim))


@recipe("transpose_like")
def r_transpose_like(x, rng):
    qtn = Q()
    perm = pick(rng, sorted(x.inds), x.ndim)
    other = qtn.Tensor(np.zeros([x.ind_size(i) for i in perm]), inds=perm, tags="O")
    return Call(other)


@recipe("normalize")
def r_normalize(x, rng):
    if is_tensor(x):
        return Call()
    return Call(tol=INV64, **NOTRUNC)


@recipe("isometrize", "unitize")
def r_isometrize(x, rng):
    method = pick(rng, ["qr", "svd", "mgs"])
    gauge = method != "svd"
    if is_tensor(x):
        inds = sorted(x.inds)
        if len(inds) < 2:
            return Call(inds, method=method, tol=INV64, gauge=gauge)
        left = pick(rng, inds, int(rng.integers(1, len(inds))))
        # isometric w.r.t. left needs dim(left) >= dim(right)
        dl = int(np.prod([x.ind_size(i) for i in left]))
        if dl * dl < x.size:
            left = [i for i in inds if i not in left]
        return Call(left, method=method, tol=INV64, gauge=gauge)
    y = x.copy()
    o = set(y.outer_inds())
    for k in site_keys(y):
        t = y[k]
        left = sorted(t.inds)
        # the larger half as left
        best = None
        for r in range(1, len(left) + 1):
            l = left[:r]
            dl = int(np.prod([t.ind_size(i) for i in l]))
            if dl * dl >= t.size:
                best = l
                break
        t.modify(left_inds=best)
    return Call(x=y, method=method, tol=INV64, gauge=gauge)


@recipe("gate")
def r_gate(x, rng):
    qtn = Q()
    if is_tensor(x):
        ix = pick(rng, sorted(x.inds))
        G = rand_gate(rng, x.ind_size(ix), x.dtype)
        kw = {}
        if rng.integers(0, 2):
            kw["transposed"] = True
        return Call(G, ix, **kw)
    # network with sites
    two = bool(rng.integers(0, 2))
    contract = pick(rng, [False, True, "split", "reduce-split"] if two else [False, True])
    tol = INV64 if contract in ("split", "reduce-split") else EXACT64
    kw = dict(contract=contract)
    if contract in ("split", "reduce-split"):
        kw.update(NOTRUNC)
    if two:
        nn = nn_sites(x)
        a, b = pick(rng, nn)
        if rng.integers(0, 2):
            a, b = b, a
        where = [a, b]
    else:
        where = [pick(rng, list(x.sites))]
    d = 2 ** len(where)
    G = rand_gate(rng, d, x.dtype, unitary=True)
    if isinstance(x, (qtn.MatrixProductState,)):
        if two and contract == "reduce-split":
            kw["contract"] = "swap+split" if abs(where[0] - where[1]) > 1 else "reduce-split"
        where = tuple(where)
    if len(where) == 1 and not isinstance(x, qtn.MatrixProductState):
        where = where[0] if rng.integers(0, 2) else where
    return Call(G, where, tol=tol, **kw)


# ---------------------------------------------------------------------------
# engine
# ---------------------------------------------------------------------------

REJECT_TYPES = (ValueError, NotImplementedError)


def setup(case):
    cname, name = case["pair"]
    x = build_receiver(case)
    rng = np.random.default_rng([int(case["seed"]), 1])
    call = RECIPES[name](x, rng)
    if call.x is not None:
        x = call.x
        if not is_tensor(x) and case.get("exp") and not x.exponent:
            x.exponent = float(case["exp"])
    return x, call


class Raised:
    def __init__(self, exc):
        self.exc = exc
        self.kind = type(exc).__name__
        fr = core.quimb_frames(exc.__traceback__)
        self.inquimb = bool(fr)
        self.where = f"{fr[-1][0]}:{fr[-1][1]}" if fr else ""
        self.msg = str(exc)[:160]


def invoke(obj, meth, call, seed, extra_kw=None):
    """Call obj.meth(*args, **kwargs) in a reset library state; exceptions are returned as Raised."""
    core.reset_quimb_state(seed % (2 ** 31))
    kw = dict(call.kwargs)
    if extra_kw:
        kw.update(extra_kw)
    try:
        with warnings.catch_warnings():
            warnings.simplefilter("ignore")
            return getattr(obj, meth)(*call.args, **kw)
    except (Violation, Reject):
        raise
    except Exception as e:  # noqa
        r = Raised(e)
        if not r.inquimb:
            tb = e.__traceback__
            if isinstance(e, TypeError) and (tb is None or tb.tb_next is None or
                                             all("functools" in (f.filename or "") for f in __import__("traceback").extract_tb(tb)[1:])):
                r.where = "call-boundary"  # the spelling's signature does not accept these arguments
                return r
            raise
        return r


def arg_fp(call):
    kw = {k: v for k, v in call.kwargs.items() if k not in call.inout}
    return fingerprint([call.args, kw])


def inout_value(v):
    """Documented in/out arguments (gauges dict keyed by possibly fresh bond names): the sorted values."""
    if isinstance(v, dict):
        vals = [np.asarray(a, dtype=np.complex128).ravel() for a in v.values()]
        return np.sort_complex(np.concatenate(vals)) if vals else np.zeros(0)
    return v


def tensor_objects(o, acc=None):
    """{id: Tensor} of every Tensor object reachable from o (tensors of networks, containers)."""
    qtn = Q()
    acc = {} if acc is None else acc
    if isinstance(o, qtn.Tensor):
        acc[id(o)] = o
    elif isinstance(o, qtn.TensorNetwork):
        for t in o.tensor_map.values():
            acc[id(t)] = t
    elif isinstance(o, (list, tuple)):
        for v in o:
            tensor_objects(v, acc)
    elif isinstance(o, dict):
        for v in o.values():
            tensor_objects(v, acc)
    return acc


def inplace_edits(o):
    """A battery of (name, thunk) in-place edits of a tensor / network / container of them - everything goes through the
    public in-place API (never writes into an array: arrays are shared between copies by design)."""
    qtn = Q()
    out = []
    if isinstance(o, (list, tuple)):
        for v in o:
            out += inplace_edits(v)
    elif isinstance(o, dict):
        for v in o.values():
            out += inplace_edits(v)
    elif isinstance(o, qtn.TensorNetwork):
        out.append(("multiply_each_", lambda: o.multiply_each_(2.0)))
        out.append(("conj_", lambda: o.conj_()))
        out.append(("reindex_", lambda: o.reindex_({ix: ix + "~" for ix in list(o.ind_map)})))
        out.append(("retag_", lambda: o.retag_({t: t + "~" for t in list(o.tag_map)})))
        out.append(("modify-data", lambda: [t.modify(data=np.asarray(t.data) * 3) for t in o.tensor_map.values()]))
        out.append(("add_tag", lambda: o.add_tag("EDIT~")))
    elif isinstance(o, qtn.Tensor):
        out.append(("modify-apply", lambda: o.modify(apply=lambda d: 2 * d)))
        out.append(("conj_", lambda: o.conj_()))
        out.append(("reindex_", lambda: o.reindex_({ix: ix + "~" for ix in o.inds})))
        out.append(("retag_", lambda: o.retag_({t: t + "~" for t in list(o.tags)})))
        out.append(("add_tag", lambda: o.add_tag("EDIT~")))
    return out


def independence(first, second, what, info):
    """In-place edits of `first` must not change the fingerprint of `second` (objects handed back by a non-in-place call
    and the receiver / arguments of that call are independent objects)."""
    f0 = fingerprint(second)
    for nm, thunk in inplace_edits(first):
        try:
            with warnings.catch_warnings():
                warnings.simplefilter("ignore")
                thunk()
        except Exception:  # the edit itself is not under test (e.g. a tag clash on an odd result)
            continue
        d = fp_diff(f0, fingerprint(second))
        if d:
            raise Violation(what, edit=nm, what_changed=d, **info)


# plain spellings documented to hand back views of the receiver's / an argument's Tensor objects (read from the docstrings):
#   (none of the 113 paired names at HEAD; virtual=True style options are only exercised in `alias.plain`)
DOCUMENTED_VIEW_PAIRS = set()


def warm_caches(x):
    """History dimension: touch the cheap cached-property consumers of a structured network (public API only) so that the
    method under test starts from a receiver whose lazily built caches (site tags / site set / site inds ...) exist."""
    if not hasattr(x, "site_tag_id"):
        return False
    for fn in (lambda: x.site_tags, lambda: x.site_tags_present, lambda: x.filter_valid_site_tags(x.tags),
               lambda: [x.has_site(s) for s in x.sites], lambda: x.maybe_convert_coo(next(iter(x.sites))),
               lambda: x.site_inds, lambda: x.site_inds_present, lambda: x.upper_inds, lambda: x.lower_inds,
               lambda: x.upper_inds_present, lambda: x.lower_inds_present):
        try:
            fn()
        except Exception:
            pass
    return True


def probe(o):
    """Behavioural signature of a structured network: what its site book-keeping answers and how a follow-up gate tags its
    tensor.  Two label-equal results must give the same answers whatever their call history."""
    if not hasattr(o, "site_tag_id"):
        return None
    out = {}

    def safe(k, fn):
        try:
            out[k] = fn()
        except Exception as e:  # noqa
            out[k] = "EXC:" + type(e).__name__

    safe("site_tags", lambda: list(o.site_tags))
    safe("site_tags_present", lambda: list(o.site_tags_present))
    safe("valid_site_tags", lambda: sorted(o.filter_valid_site_tags(o.tags)))
    safe("sites_present", lambda: [repr(s) for s in o.gen_sites_present()])
    safe("has_site", lambda: [bool(o.has_site(s)) for s in o.sites])
    for attr in ("site_inds", "site_inds_present", "upper_inds", "upper_inds_present", "lower_inds", "lower_inds_present"):
        if hasattr(type(o), attr):
            safe(attr, lambda a=attr: list(getattr(o, a)))
    if hasattr(o, "site_ind") and hasattr(o, "gate"):
        def gate_tags():
            for site in o.gen_sites_present():
                ix = o.site_ind(*site) if isinstance(site, tuple) and ndims(o) > 1 else o.site_ind(site)
                if ix in o.ind_map:
                    d = o.ind_size(ix)
                    with warnings.catch_warnings():
                        warnings.simplefilter("ignore")
                        r = o.gate(np.eye(d), site, contract=False, propagate_tags="sites", tags="PROBE~")
                    return sorted(r["PROBE~"].tags)
            return None
        safe("gate_tags", gate_tags)
    return out


def compare_probe(a, b, what, info):
    if a is None or b is None:
        return
    for k in a:
        if k in b and a[k] != b[k]:
            raise Violation(what + ":behaviour", probe=k, a=str(a[k])[:100], b=str(b[k])[:100], **info)


def same_object_rule(plain, inpl, receiver, info, path="r"):
    """Wherever the plain spelling hands back a tensor/network of the receiver's kind, the in-place spelling must hand
    back the receiver object itself."""
    qtn = Q()
    kinds = (qtn.Tensor,) if isinstance(receiver, qtn.Tensor) else (qtn.TensorNetwork,)
    if info["name"] in INPLACE_RETURNS_NEW:
        return
    if isinstance(inpl, kinds):
        if inpl is not receiver:
            raise Violation("inplace-returns-other-object", where=path, **info)
        return
    if isinstance(plain, (list, tuple)) and isinstance(inpl, (list, tuple)) and len(plain) == len(inpl):
        for i, (p, q_) in enumerate(zip(plain, inpl)):
            # align_ hands back its (modified) arguments after the receiver; everywhere else (e.g. measure_ ->
            # (outcome, mps)) any network in the tuple must be the receiver
            if i == 0 or info["name"] not in INPLACE_ARGS_DOCUMENTED:
                same_object_rule(p, q_, receiver, info, f"{path}[{i}]")


def run_pair(case):
    qtn = Q()
    cname, name = case["pair"]
    if name not in RECIPES:
        raise Reject("no recipe")
    if name not in reflect()[cname]:
        raise Reject("pair no longer exists")
    seed = int(case["seed"])
    info = {"cls": cname, "name": name}
    if cname != "Tensor":
        info["exp_nonzero"] = bool(case.get("exp"))
    dflt = inplace_default(cname, name)
    documented_inplace = dflt is True

    # ---- (1) plain call: purity ------------------------------------------------
    x1, c1 = setup(case)
    tol = c1.tol
    fx, fa = fingerprint(x1), arg_fp(c1)
    keep = x1.copy()  # shares arrays with x1
    warm = bool(case.get("warm"))
    if warm:
        info["warm"] = warm_caches(x1)
    r1 = invoke(x1, name, c1, seed)
    if not documented_inplace:
        d = fp_diff(fx, fingerprint(x1))
        if d:
            raise Violation("receiver-mutated", what=d, raised=isinstance(r1, Raised), **info)
    d = fp_diff(fa, arg_fp(c1))
    if d:
        raise Violation("argument-mutated", what=d, **info)
    if not documented_inplace and not isinstance(r1, Raised) and name not in DOCUMENTED_VIEW_PAIRS:
        got = tensor_objects(r1)
        if set(got) & set(tensor_objects(x1)):
            raise Violation("result-aliases-receiver", n=len(set(got) & set(tensor_objects(x1))), **info)
        if set(got) & set(tensor_objects([c1.args, c1.kwargs])):
            raise Violation("result-aliases-argument", **info)

    # ---- (2) in-place spelling on a copy ----------------------------------------
    x2, c2 = setup(case)
    f2, fa2 = fingerprint(x2), arg_fp(c2)
    x2c = x2.copy()
    if warm:
        warm_caches(x2c)  # n.b. a copy starts without caches
    r2 = invoke(x2c, name + "_", c2, seed)
    d = fp_diff(f2, fingerprint(x2))
    if d:
        raise Violation("copy-not-isolated", what=d, **info)
    d = fp_diff(fa2, arg_fp(c2))
    if d and not isinstance(r2, Raised):
        # arguments of the in-place spelling: only documented in/out arguments may change
        if not c2.inout and name not in INPLACE_ARGS_DOCUMENTED:
            raise Violation("argument-mutated-inplace", what=d, **info)

    if isinstance(r1, Raised) or isinstance(r2, Raised):
        if isinstance(r1, Raised) and isinstance(r2, Raised):
            if r1.kind == r2.kind and isinstance(r1.exc, REJECT_TYPES):
                raise Reject(f"{name}: both spellings refuse: {r1.kind}: {r1.msg[:60]}")
            raise Violation("raises-both", exc=r1.kind, exc_inplace=r2.kind, at=r1.where, msg=r1.msg, **info)
        bad, which = (r1, "plain") if isinstance(r1, Raised) else (r2, "inplace")
        raise Violation("raises-one-spelling", which=which, exc=bad.kind, at=bad.where, msg=bad.msg, **info)

    same_object_rule(r1, r2, x2c, info)
    gauged = "gauges" in c1.inout and isinstance(c1.kwargs.get("gauges"), dict)
    if gauged:
        info["gauges"] = True
        d1, d2 = describe_gauged(r1, c1.kwargs["gauges"]), describe_gauged(r2, c2.kwargs["gauges"])
    else:
        d1, d2 = describe(r1), describe(r2)
    err = compare_desc(d1, d2, tol, "spelling", info, cross=True)
    same_kind = isinstance(r1, qtn.TensorNetwork) and isinstance(r2, qtn.TensorNetwork) and type(r1) is type(r2)
    p1 = probe(r1) if isinstance(r1, qtn.TensorNetwork) else None
    if same_kind:
        compare_probe(p1, probe(r2), "spelling", info)

    # ---- (1c) explicit inplace=False on methods whose documented default is in-place ----
    if documented_inplace:
        x4, c4 = setup(case)
        f4 = fingerprint(x4)
        r4 = invoke(x4, name, c4, seed, {"inplace": False})
        if isinstance(r4, Raised):
            raise Violation("raises-one-spelling", which="inplace=False", exc=r4.kind, at=r4.where, msg=r4.msg, **info)
        d = fp_diff(f4, fingerprint(x4))
        if d:
            raise Violation("receiver-mutated", what=d, explicit_inplace_false=True, **info)
        err = max(err, compare_desc(d1, describe(r4), tol, "spelling", dict(info, explicit_inplace_false=True)))

    # ---- (3) axis-order invariance ------------------------------------------------
    x3, c3 = setup(case)
    prng = np.random.default_rng([int(case["pseed"]), 2])
    view = bool(case.get("view"))
    pmode = case.get("pmode", "rebuild")
    x3p, moved = permute_obj(x3, prng, view, pmode)
    c3.args, m1 = permute_obj(c3.args, prng, view, pmode)
    c3.kwargs, m2 = permute_obj(c3.kwargs, prng, view, pmode)
    if warm:
        warm_caches(x3p)
    r3 = invoke(x3p, name, c3, seed)
    if isinstance(r3, Raised):
        raise Violation("axis-order:raises", exc=r3.kind, at=r3.where, msg=r3.msg, pmode=pmode, **info)
    d3 = describe_gauged(r3, c3.kwargs["gauges"]) if gauged else describe(r3)
    err = max(err, compare_desc(d1, d3, tol, "axis-order", dict(info, pmode=pmode), loose=c1.loose, values=not c1.gauge))
    if isinstance(r3, qtn.TensorNetwork) and isinstance(r1, qtn.TensorNetwork) and type(r1) is type(r3) and not c1.loose:
        compare_probe(p1, probe(r3), "axis-order", dict(info, pmode=pmode))

    # ---- (4) result and receiver / arguments of the plain call are independent objects -------------
    if not documented_inplace and name not in DOCUMENTED_VIEW_PAIRS:
        independence(x1, r1, "result-follows-receiver", info)           # edit the receiver, watch the result
        independence(r1, [x1, c1.args, {k: v for k, v in c1.kwargs.items() if k not in c1.inout}],
                     "receiver-follows-result", info)                     # edit the result, watch receiver + arguments

    n_t = 1 if is_tensor(x1) else keep.num_tensors
    nt = bool(moved) and (n_t >= 2 or (is_tensor(x1) and keep.ndim >= 2))
    cls = [f"{SHORT[cname]}.{name}"]
    return {"nt": nt, "cls": cls, "err": err}


# in-place spellings documented to modify their tensor-network arguments as well
INPLACE_ARGS_DOCUMENTED = {"align"}
# in-place spellings documented to consume the receiver and hand back a new network
# (TensorNetworkGenOperator.apply: "with inplace=True the tensors and indices of self are consumed ... into the result")
INPLACE_RETURNS_NEW = {"apply"}


# ---- generic network recipes ------------------------------------------------------

@recipe("balance_bonds")
def r_balance(x, rng):
    return Call(tol=INV64)


@recipe("antidiag_gauge")
def r_antidiag(x, rng):
    return Call(x=plant(x, "antidiag", rng), loose=True)


@recipe("diagonal_reduce")
def r_diag(x, rng):
    return Call(x=plant(x, "diag", rng), loose=True)


@recipe("column_reduce")
def r_column(x, rng):
    return Call(x=plant(x, "column", rng), loose=True)


@recipe("rank_simplify")
def r_rank(x, rng):
    return Call(loose=True)


def closed_ladder(rng, m, dtype, product=True):
    """2 x m ladder without dangling labels (the geometry on which loop_simplify actually fires: its connectivity filter only
    accepts label groups that sit on ONE neighbouring tensor), tags T{i}."""
    qtn = Q()
    ts = []
    for r in range(2):
        for c in range(m):
            inds = [f"v{c}"]
            if c > 0:
                inds.append(f"h{r}_{c - 1}")
            if c < m - 1:
                inds.append(f"h{r}_{c}")
            o = [int(j) for j in rng.permutation(len(inds))]
            inds = [inds[j] for j in o]
            if product:
                data = functools.reduce(np.multiply.outer, [rarr(rng, (2,), dtype) for _ in inds])
            else:
                data = rarr(rng, [2] * len(inds), dtype)
            i = r * m + c
            ts.append(qtn.Tensor(data, inds=inds, tags=[f"T{i}", "A" if i % 2 == 0 else "B"]))
    return qtn.TensorNetwork(ts)


@recipe("loop_simplify")
def r_loop_simplify(x, rng):
    if type(x) is Q().TensorNetwork and rng.integers(0, 2):
        return Call(x=closed_ladder(rng, int(rng.integers(4, 6)), x.dtype), loose=True, tol=INV64)  # >= 3 loops: a later loop sees bonds made by an earlier one
    return r_simplify_planted(x, rng)


@recipe("split_simplify", "pair_simplify")
def r_simplify_planted(x, rng):
    y = plant(x, "product", rng) if rng.integers(0, 3) else x
    return Call(x=y, loose=True, tol=INV64)


@recipe("full_simplify")
def r_full_simplify(x, rng):
    y = plant(x, pick(rng, ["product", "diag", "column", "antidiag"]), rng) if rng.integers(0, 2) else x
    # sequences without 'R' are not drawn: 'SLP' alone never terminates on a tree with a planted diagonal tensor (split and
    # pair passes undo each other while the network grows) - a library hang outside this property
    return Call(pick(rng, ["ADCR", "ADCRSLP", "R", "RSLP"]), x=y, loose=True, tol=INV64)


@recipe("compress_simplify")
def r_compress_simplify(x, rng):
    return Call(loose=True, tol=INV64, atol=1e-12)


@recipe("canonize_around", "gauge_local")
def r_tags_gauge(x, rng):
    return Call([pick(rng, site_keys(x))], tol=INV64)


@recipe("compress_all", "compress_all_1d")
def r_compress_all(x, rng):
    return Call(tol=INV64, **NOTRUNC)


@recipe("compress_all_simple")
def r_compress_all_simple(x, rng):
    y = add_parallel_bond(x, rng) if rng.integers(0, 2) else x
    kw, io = maybe_gauges(y, rng)
    return Call(x=y, tol=INV64, inout=io, **NOTRUNC, **kw)


@recipe("compress_all_tree")
def r_compress_tree(x, rng):
    return Call(tol=INV64, **NOTRUNC)


@recipe("gauge_all")
def r_gauge_all(x, rng):
    return Call(tol=INV64)


@recipe("gauge_all_canonize", "gauge_all_simple")
def r_gauge_all_gauges(x, rng):
    y = add_parallel_bond(x, rng) if rng.integers(0, 2) else x
    kw, io = maybe_gauges(y, rng)
    return Call(x=y, tol=INV64, inout=io, **kw)


@recipe("gauge_all_belief_propagation")
def r_gauge_bp(x, rng):
    return Call(tol=INV64)


@recipe("gauge_all_random")
def r_gauge_random(x, rng):
    return Call(seed=int(rng.integers(0, 2 ** 31)), tol=INV64)


@recipe("contract")
def r_contract(x, rng):
    mode = int(rng.integers(0, 4))
    if mode == 0:
        return Call(all)
    if mode == 1:
        return Call(...)
    if mode == 2:
        a, b, _ = pick(rng, neighbours(x))
        return Call([a, b])
    return Call(pick(rng, stags(x)))


@recipe("contract_tags")
def r_contract_tags(x, rng):
    mode = int(rng.integers(0, 3))
    if mode == 0:
        a, b, _ = pick(rng, neighbours(x))
        return Call([a, b], which="any")
    if mode == 1:
        return Call(all)
    return Call(pick(rng, stags(x)), which="any")


@recipe("contract_around")
def r_contract_around(x, rng):
    kw, io = maybe_gauges(x, rng, 0.4)
    return Call([pick(rng, site_keys(x))], tol=INV64, loose=True, inout=io, **NOTRUNC, **kw)


@recipe("contract_compressed")
def r_contract_compressed(x, rng):
    kw, io = maybe_gauges(x, rng, 0.4)
    return Call("greedy", tol=INV64, loose=True, inout=io, **NOTRUNC, **kw)


@recipe("drape_bond_between")
def r_drape(x, rng):
    keys = site_keys(x)
    a, b, _ = pick(rng, neighbours(x))
    rest = [k for k in keys if k not in (a, b)]
    if not rest:
        raise Reject("needs a third tensor")
    return Call(a, b, pick(rng, rest))


@recipe("equalize_norms")
def r_equalize(x, rng):
    return Call() if rng.integers(0, 2) else Call(1.0)


@recipe("expand_bond_dimension")
def r_expand(x, rng):
    noisy = bool(rng.integers(0, 2))
    if noisy:
        return Call(4, rand_strength=0.1, gauge=True)
    return Call(4)


@recipe("fit")
def r_fit(x, rng):
    tgt = other_like(x, rng)
    # over-parameterised bonds make the local normal equations singular: use the least-squares driver
    return Call(tgt, method="als", steps=2, dense_solve=True, solver_dense="lstsq", tol=INV64, gauge=True)


def add_parallel_bond(x, rng):
    """Copy of x where two adjacent tensors share one more label 'mb' (a multibond), built with numpy."""
    y = x.copy()
    a, b, _ = pick(rng, neighbours(y))
    for k, f in ((a, 0.5), (b, -0.25)):
        t = y[k]
        d = np.asarray(t.data)
        t.modify(data=np.ascontiguousarray(np.stack([d, f * d[..., ::-1] if d.shape[-1] > 1 else f * d], axis=-1)), inds=(*t.inds, "mb"))
    return y


def rand_gauges(x, rng, frac=0.8):
    """Simple-update style bond gauges for x: label -> non-uniform positive vector (so kron(gx, gy) != kron(gy, gx)), on most
    inner labels (labels without an entry are documented to count as the identity gauge)."""
    g = {}
    for ix in inner(x):
        if rng.random() < frac:
            g[ix] = rng.uniform(0.5, 1.5, size=x.ind_size(ix))
    return g


def maybe_gauges(x, rng, p=0.5):
    """kwargs carrying a gauges dict (documented in/out argument) with probability p."""
    if rng.random() < p:
        return dict(gauges=rand_gauges(x, rng)), ("gauges",)
    return {}, ()


@recipe("fuse_multibonds")
def r_fuse_multibonds(x, rng):
    y = add_parallel_bond(x, rng)
    if rng.integers(0, 3) == 0:
        # a triple bond, sizes differ from the double bond's
        a, b = [k for k in site_keys(y) if "mb" in y[k].inds]
        for k, f in ((a, 2.0), (b, 0.5)):
            t = y[k]
            d = np.asarray(t.data)
            t.modify(data=np.ascontiguousarray(np.stack([d, f * d, -f * d], axis=0)), inds=("mc", *t.inds))
    kw, io = maybe_gauges(y, rng, 0.7)
    return Call(x=y, inout=io, **kw)


@recipe("gate_inds")
def r_gate_inds(x, rng):
    o = outer(x)
    two = len(o) >= 2 and bool(rng.integers(0, 2))
    if two:
        a, b, _ = pick(rng, neighbours(x))
        oa = [i for i in x[a].inds if i in o]
        ob = [i for i in x[b].inds if i in o]
        if not oa or not ob:
            two = False
    if two:
        inds = [sorted(oa)[0], sorted(ob)[0]]
        contract = pick(rng, [False, True, "split", "reduce-split"])
    else:
        inds = [pick(rng, o)]
        contract = pick(rng, [False, True])
    d = int(np.prod([x.ind_size(i) for i in inds]))
    G = rand_gate(rng, d, x.dtype, unitary=True)
    kw = dict(contract=contract)
    tol = EXACT64
    if contract in ("split", "reduce-split"):
        kw.update(NOTRUNC)
        tol = INV64
    if rng.integers(0, 3) == 0:
        kw["tags"] = ["GATE"]
    return Call(G, inds, tol=tol, **kw)


@recipe("gate_sandwich_inds")
def r_gate_sandwich_inds(x, rng):
    o = outer(x)
    qtn = Q()
    if hasattr(x, "upper_ind"):
        s = pick(rng, list(x.sites))
        up, lo = x.upper_ind(s), x.lower_ind(s)
    else:
        pairs = [(a, b) for i, a in enumerate(o) for b in o[i + 1:] if x.ind_size(a) == x.ind_size(b)]
        up, lo = pick(rng, pairs)
    d = x.ind_size(up)
    G = rand_gate(rng, d, x.dtype, unitary=True)
    return Call(G, [up], [lo], contract=pick(rng, [False, True]))


@recipe("gate_inds_with_tn")
def r_gate_inds_with_tn(x, rng):
    qtn = Q()
    o = outer(x)
    inds = pick(rng, o, min(len(o), int(rng.integers(1, 3))))
    ts = []
    inner_, outer_ = [], []
    for j, ix in enumerate(inds):
        d = x.ind_size(ix)
        ts.append(qtn.Tensor(rand_gate(rng, d, x.dtype), inds=(f"go{j}", f"gi{j}"), tags=["GT"]))
        inner_.append(f"gi{j}")
        outer_.append(f"go{j}")
    return Call(inds, qtn.TensorNetwork(ts), inner_, outer_)


@recipe("hyperinds_resolve")
def r_hyperinds(x, rng):
    qtn = Q()
    if type(x) is not qtn.TensorNetwork:
        return Call()
    # plant a hyper label: three tensors share 'h'
    y = x.copy()
    keys = site_keys(y)
    for k in keys[:3]:
        t = y[k]
        t.modify(data=np.stack([np.asarray(t.data), 0.5 * np.asarray(t.data)], axis=-1), inds=(*t.inds, "h"))
    if len(keys) < 3:
        return Call()
    return Call(pick(rng, ["dense", "mps", "tree"]), x=y, loose=True)


@recipe("insert_compressor_between_regions")
def r_insert_compressor(x, rng):
    a, b, _ = pick(rng, neighbours(x))
    kw = {}
    if rng.integers(0, 3) == 0:
        # here the gauges only condition the environment of the projectors: a plain (read-only) argument
        kw["gauges"] = rand_gauges(x, rng)
    return Call([a], [b], tol=INV64, **NOTRUNC, **kw)


@recipe("insert_operator")
def r_insert_operator(x, rng):
    cands = [(a, b, bs) for a, b, bs in neighbours(x) if len(bs) == 1]
    a, b, bs = pick(rng, cands)
    d = x.ind_size(bs[0])
    A = rand_gate(rng, d, x.dtype)
    if rng.integers(0, 2):
        a, b = b, a
    return Call(A, a, b, tags=["OP"])


@recipe("multiply")
def r_multiply(x, rng):
    c = pick(rng, [2.5, -0.5, 3.0])
    if rng.integers(0, 2):
        return Call(c, spread_over=pick(rng, [1, "all", 2]))
    return Call(c)


@recipe("multiply_each")
def r_multiply_each(x, rng):
    return Call(pick(rng, [2.0, -0.5]))


@recipe("replace_with_svd")
def r_replace_with_svd(x, rng):
    a, b, _ = pick(rng, neighbours(x))
    sub_outer = sorted(set(i for k in (a, b) for i in x[k].inds) - set(x[a].inds).intersection(x[b].inds))
    left = [i for i in sub_outer if i in x[a].inds] or sub_outer[:1]
    if len(left) == len(sub_outer):
        left = left[:-1]
    if not left:
        raise Reject("no bipartition")
    return Call([a, b], left, 1e-14, method="svd", tol=INV64, loose=True)


@recipe("view_as")
def r_view_as(x, rng):
    qtn = Q()
    if type(x) is qtn.TensorNetwork:
        keys = site_keys(x)
        return Call(qtn.TensorNetworkGen, sites=tuple(range(len(keys))), site_tag_id="T{}")
    if hasattr(x, "Lx") and hasattr(x, "x_tag_id") and not hasattr(x, "Lz") and rng.integers(0, 2):
        # the rows as 'sites' of a generic network (several tensors per site): changes sites and site_tag_id
        return Call(qtn.TensorNetworkGen, sites=tuple(range(x.Lx)), site_tag_id=x.x_tag_id)
    if rng.integers(0, 2) or ndims(x) > 1:
        # (a 2D/3D network viewed as TensorNetworkGen with its own multi-placeholder ids is not usable: the generic class
        #  formats ids with the coordinate tuple as one argument - same limitation as retag_all, see SKIP)
        return Call(qtn.TensorNetwork)
    return Call(qtn.TensorNetworkGen)


@recipe("view_like")
def r_view_like(x, rng):
    qtn = Q()
    if type(x) is qtn.TensorNetwork:
        like = qtn.TensorNetworkGen.new(sites=tuple(range(len(site_keys(x)))), site_tag_id="T{}")
        return Call(like)
    if ndims(x) > 1:
        if hasattr(x, "x_tag_id") and not hasattr(x, "Lz"):
            return Call(qtn.TensorNetworkGen.new(sites=tuple(range(x.Lx)), site_tag_id=x.x_tag_id))
        return Call(qtn.TensorNetwork.new())
    like = qtn.TensorNetworkGen.new(sites=tuple(x.sites), site_tag_id=x.site_tag_id)
    return Call(like)


# ---- arbitrary-geometry / structured recipes ------------------------------------------

def ndims(x):
    return getattr(x, "_NDIMS", 1)


def id_fmt(x, letter):
    return letter + ",".join(["{}"] * ndims(x))


def derived_case(x, case_like, cname, bump=1):
    c = dict(case_like)
    c["pair"] = [cname, "-"]
    c["seed"] = int(case_like["seed"]) + bump
    c["exp"] = 0.0
    return c


def partner(x, rng, kind):
    """An operator ('op') / vector ('vec') network with the same sites as x and fresh arrays."""
    qtn = Q()
    dt = x.dtype
    seed = int(rng.integers(0, 2 ** 31))
    r2 = np.random.default_rng(seed)
    if isinstance(x, (qtn.MatrixProductState, qtn.MatrixProductOperator)):
        L = x.L
        y = qtn.MPO_rand(L, 2, phys_dim=2, dtype=dt, seed=3) if kind == "op" else qtn.MPS_rand_state(L, 2, phys_dim=2, dtype=dt, seed=3)
    elif isinstance(x, (qtn.PEPS, qtn.PEPO)):
        y = (qtn.PEPO if kind == "op" else qtn.PEPS).rand(x.Lx, x.Ly, 2, phys_dim=2, dtype=dt, seed=3)
    elif isinstance(x, qtn.PEPS3D):
        if kind == "op":
            raise Reject("no 3D operator class")
        y = qtn.PEPS3D.rand(x.Lx, x.Ly, x.Lz, 2, phys_dim=2, dtype=dt, seed=3)
    else:
        n = x.nsites
        case = {"n": n, "geom": "chain", "dtype": dt, "seed": seed}
        if kind == "op":
            y = qtn.TensorNetwork(build_graph_tensors(case, r2, "I{}", "k{}", "b{}", group_tags=False))
            y.view_as_(qtn.TensorNetworkGenOperator, sites=tuple(range(n)), site_tag_id="I{}", upper_ind_id="k{}", lower_ind_id="b{}")
        else:
            y = qtn.TensorNetwork(build_graph_tensors(case, r2, "I{}", "k{}", group_tags=False))
            y.view_as_(qtn.TensorNetworkGenVector, sites=tuple(range(n)), site_tag_id="I{}", site_ind_id="k{}")
        return y
    refill(y, r2, dt, list(y.site_tags), prefix="f")
    return y


@recipe("align")
def r_align(x, rng):
    if hasattr(x, "site_ind_id"):
        if isinstance(x, Q().PEPS3D) or rng.integers(0, 3) == 0:
            return Call(partner(x, rng, "vec"))
        return Call(partner(x, rng, "op"))
    if rng.integers(0, 2):
        return Call(partner(x, rng, "vec"))
    other = partner(x, rng, "op")
    other.lower_ind_id = id_fmt(x, "c")  # two operators can only be stacked when their lower ids differ
    return Call(other)


@recipe("flatten")
def r_flatten(x, rng):
    # a second tensor on one or two sites (a lazily applied one-site operator), so that flattening has something to do
    qtn = Q()
    y = x.copy()
    o = set(y.outer_inds())
    sites = pick(rng, list(y.sites), min(2, len(list(y.sites))))
    for j, site in enumerate(sites):
        t = y[y.site_tag(site)]
        phys = sorted(i for i in t.inds if i in o)[0]
        d = t.ind_size(phys)
        tags = list(t.tags)
        t.reindex_({phys: f"fl{j}"})
        y |= qtn.Tensor(rand_gate(rng, d, y.dtype), inds=(phys, f"fl{j}"), tags=tags)
    return Call(x=y)


@recipe("retag_all")
def r_retag_all(x, rng):
    return Call(id_fmt(x, "Q"))


@recipe("reindex_all")
def r_reindex_all(x, rng):
    return Call(id_fmt(x, "q"))


@recipe("reindex_sites", "reindex_upper_sites", "reindex_lower_sites")
def r_reindex_sites(x, rng):
    if rng.integers(0, 2):
        return Call(id_fmt(x, "q"))
    sites = list(x.sites)
    if hasattr(x, "slice2sites"):
        a = int(rng.integers(0, len(sites) - 1))
        return Call(id_fmt(x, "q"), where=slice(a, int(rng.integers(a + 1, len(sites) + 1))))
    where = pick(rng, sites, int(rng.integers(1, len(sites) + 1)))
    return Call(id_fmt(x, "q"), where=where)


@recipe("gate_simple")
def r_gate_simple(x, rng):
    two = bool(rng.integers(0, 2))
    if two:
        a, b = pick(rng, nn_sites(x))
        where = [a, b]
    else:
        where = [pick(rng, list(x.sites))]
    G = rand_gate(rng, 2 ** len(where), x.dtype, unitary=True)
    g = rand_gauges(x, rng) if rng.integers(0, 2) else {}
    return Call(G, where, gauges=g, inout=("gauges",), tol=INV64, **NOTRUNC)


@recipe("gate_with_op_lazy", "gate_upper_with_op_lazy", "gate_lower_with_op_lazy", "gate_sandwich_with_op_lazy")
def r_with_op_lazy(x, rng):
    return Call(partner(x, rng, "op"))


@recipe("gate_upper", "gate_lower", "gate_sandwich")
def r_gate_op(x, rng):
    two = bool(rng.integers(0, 2))
    if two:
        a, b = pick(rng, nn_sites(x))
        where = [a, b]
        contract = pick(rng, [False, True, "split", "reduce-split"])
    else:
        where = [pick(rng, list(x.sites))]
        contract = pick(rng, [False, True])
    G = rand_gate(rng, 2 ** len(where), x.dtype, unitary=True)
    kw = dict(contract=contract)
    tol = EXACT64
    if contract in ("split", "reduce-split"):
        kw.update(NOTRUNC)
        tol = INV64
    return Call(G, where, tol=tol, **kw)


@recipe("partial_transpose")
def r_partial_transpose(x, rng):
    sites = list(x.sites)
    return Call(pick(rng, sites, int(rng.integers(1, len(sites) + 1))))


@recipe("apply")
def r_apply(x, rng):
    qtn = Q()
    kind = "vec" if rng.integers(0, 2) else "op"
    other = partner(x, rng, kind)
    kw = {}
    if isinstance(x, qtn.MatrixProductOperator):
        return Call(other, compress=False, tol=INV64)
    return Call(other, tol=INV64)


# ---- 1D ------------------------------------------------------------------------------

@recipe("add_MPS", "add_MPO", "add_PEPS", "add_PEPO")
def r_add(x, rng):
    return Call(other_like(x, rng))


@recipe("canonicalize")
def r_canonicalize(x, rng):
    L = x.L
    if rng.integers(0, 2):
        return Call(int(rng.integers(0, L)), tol=INV64)
    i = int(rng.integers(0, L - 1))
    return Call((i, int(rng.integers(i, L))), tol=INV64)


@recipe("left_canonicalize", "right_canonicalize")
def r_lr_canonicalize(x, rng):
    if rng.integers(0, 2):
        return Call(tol=INV64)
    return Call(normalize=True, tol=INV64)


@recipe("swap_site_to")
def r_swap_site_to(x, rng):
    i, f = pick(rng, list(range(x.L)), 2)
    return Call(i, f, tol=INV64, **NOTRUNC)


@recipe("swap_sites_with_compress")
def r_swap_sites(x, rng):
    i = int(rng.integers(0, x.L - 1))
    return Call(i, i + 1, tol=INV64, **NOTRUNC)


@recipe("gate_split")
def r_gate_split(x, rng):
    i = int(rng.integers(0, x.L - 1))
    G = rand_gate(rng, 4, x.dtype, unitary=True)
    return Call(G, (i, i + 1), tol=INV64, **NOTRUNC)


@recipe("gate_with_auto_swap", "gate_nonlocal", "gate_sandwich_with_auto_swap")
def r_gate_far(x, rng):
    i, j = pick(rng, list(range(x.L)), 2)
    G = rand_gate(rng, 4, x.dtype, unitary=True)
    return Call(G, (i, j), tol=INV64, **NOTRUNC)


@recipe("gate_with_mpo")
def r_gate_with_mpo(x, rng):
    return Call(partner(x, rng, "op"), tol=INV64, **NOTRUNC)


@recipe("gate_with_submpo")
def r_gate_with_submpo(x, rng):
    qtn = Q()
    i, j = sorted(pick(rng, list(range(x.L)), 2))
    G = rand_gate(rng, 4, x.dtype, unitary=True)
    sub = qtn.MatrixProductOperator.from_dense(G, dims=2, sites=(i, j), L=x.L)
    return Call(sub, tol=INV64, **NOTRUNC)


@recipe("measure")
def r_measure(x, rng):
    site = int(rng.integers(0, x.L))
    kw = dict(seed=int(rng.integers(0, 2 ** 31)))
    if rng.integers(0, 2):
        kw["outcome"] = int(rng.integers(0, 2))
    if rng.integers(0, 3) == 0:
        kw["remove"] = True
    return Call(site, tol=INV64, **kw)


@recipe("fill_empty_sites")
def r_fill_empty(x, rng):
    qtn = Q()
    L = 4
    sites = sorted(pick(rng, list(range(L)), 2))
    G = rand_gate(rng, 4, x.dtype)
    sub = qtn.MatrixProductOperator.from_dense(G, dims=2, sites=tuple(sites), L=L)
    return Call(pick(rng, ["full", "minimal"]), x=sub)


# ---- 2D / 3D --------------------------------------------------------------------------

def lat_dims(x):
    return [getattr(x, a) for a in ("Lx", "Ly", "Lz") if hasattr(x, a)]


@recipe("coarse_grain_hotrg")
def r_cg_hotrg(x, rng):
    dims = lat_dims(x)
    dirs = [d for d, L in zip("xyz", dims) if L >= 2]
    return Call(pick(rng, dirs), tol=INV64, loose=True, **NOTRUNC)


@recipe("contract_hotrg", "contract_ctmrg", "contract_boundary", "contract_mps_sweep")
def r_contract_lattice(x, rng):
    return Call(tol=INV64, loose=True, **NOTRUNC)


@recipe("contract_boundary_from")
def r_cb_from(x, rng):
    dims = lat_dims(x)
    ranges = [(0, L - 1) for L in dims]
    which = pick(rng, [d + m for d, L in zip("xyz", dims) if L >= 2 for m in ("min", "max")])
    return Call(*ranges, which, tol=INV64, loose=True, **NOTRUNC)


def _cb_from_side(side):
    def fn(x, rng):
        L = x.Lx if side[0] == "x" else x.Ly
        if L < 2:
            raise Reject("lattice too small")
        rng_ = (0, 1) if side.endswith("min") else (L - 2, L - 1)
        return Call(rng_, tol=INV64, loose=True, **NOTRUNC)
    return fn


for _s in ("xmin", "xmax", "ymin", "ymax"):
    RECIPES["contract_boundary_from_" + _s] = _cb_from_side(_s)


# (class, name) pairs that are deliberately not exercised, with the reason
SKIP = {
    ("PEPS3D", "gate_with_op_lazy"): "no 3D operator class to build the argument from",
    ("PEPS", "retag_all"): "both spellings raise IndexError for a 2-placeholder id (TensorNetworkGen.retag_sites formats the new id "
                           "with the coordinate tuple as ONE argument) - a defect, but not one of C03",
    ("PEPO", "retag_all"): "as PEPS.retag_all",
    ("PEPS3D", "retag_all"): "as PEPS.retag_all",
}


# ---------------------------------------------------------------------------
# binary operators
# ---------------------------------------------------------------------------

import operator as _op

ARITH = {"+": _op.add, "-": _op.sub, "*": _op.mul, "/": _op.truediv, "**": _op.pow}
T_OPS = ["+", "-", "*", "/", "**", "@", "&", "|", "*=", "/=", "neg"]
TN_OPS = ["&", "|", "&=", "|=", "*", "/", "*=", "/=", "r*", "neg", "@", "^all", "^tags", ">>"]


def dense_on(arr, inds, labels, sizes):
    """array broadcast-ready over `labels` (size-1 axes where the label is absent)."""
    inds = list(inds)
    present = [l for l in labels if l in inds]
    a = np.transpose(arr, [inds.index(l) for l in present])
    shape = [sizes[l] if l in inds else 1 for l in labels]
    return a.reshape(shape)


def loose_fp(o):
    """Fingerprint that ignores the names of inner labels (virtual combination may mangle clashing inner names of the
    viewed operand - documented) but keeps outer labels, tags, exponent and the bytes of every array."""
    qtn = Q()
    if isinstance(o, qtn.TensorNetwork):
        outer_ = set(o.outer_inds())
        return ("TN", type(o).__name__, repr(o.exponent),
                tuple((tid, tuple(i if i in outer_ else "*" for i in t.inds), tuple(t.tags), fp_array(t.data))
                      for tid, t in o.tensor_map.items()))
    return fingerprint(o)


def build_operand_tensor(rng, inds, dtype, positive=False, tags=("B",)):
    qtn = Q()
    shape = [SIZES_OP[i] for i in inds]
    data = rarr(rng, shape, dtype)
    if positive:
        data = (np.abs(data) + 0.5).astype(dtype)
    return qtn.Tensor(data, inds=inds, tags=list(tags))


SIZES_OP = {"a": 2, "b": 3, "c": 2, "d": 3, "x": 2, "y": 3}


def tensor_operands(case):
    rng = np.random.default_rng(case["seed"])
    dt = case["dtype"]
    op = case["op"]
    ra = 1 + case["n"] % 3
    ia = [["a", "b", "c", "d"][int(i)] for i in rng.permutation(4)[:ra]]
    ov = case["overlap"]
    if ov == "same":
        ib = [ia[int(i)] for i in rng.permutation(len(ia))]
    elif ov == "subset":
        ib = [ia[int(i)] for i in rng.permutation(len(ia))][: max(1, len(ia) - 1)]
    elif ov == "mixed":
        ib = [ia[int(i)] for i in rng.permutation(len(ia))][: max(1, len(ia) - 1)] + ["x"]
        ib = [ib[int(i)] for i in rng.permutation(len(ib))]
    else:
        ib = ["x", "y"][: 1 + int(rng.integers(0, 2))]
    pos = op in ("/", "**", "/=")
    A = build_operand_tensor(rng, ia, dt, positive=(op == "**"), tags=("A", "S"))
    if case["rhs"] == "scalar" or op in ("*=", "/=", "neg"):
        B = pick(rng, [2.0, 0.5, 3.0]) if op in ("**",) else pick(rng, [2.5, -0.5, 3.0])
        if "complex" in dt and op != "**" and rng.integers(0, 2):
            B = B * (1 + 0.5j)
    else:
        B = build_operand_tensor(rng, ib, dt, positive=pos, tags=("B", "S"))
        if op == "**":
            set_data(B, np.asarray(np.real(B.data)) if "complex" not in dt else B.data)
    return A, B


def s_tensor_ops(tier):
    from .. import arrays as AR

    return st.fixed_dictionaries({
        "op": st.sampled_from(T_OPS), "rhs": st.sampled_from(["tensor", "tensor", "scalar", "rscalar"]),
        "overlap": st.sampled_from(["same", "subset", "mixed", "disjoint"]), "seed": AR.seeds,
        "pseed": st.integers(0, 10 ** 6), "n": st.integers(1, 6), "dtype": st.sampled_from(["float64", "complex128"]),
        "view": st.booleans()})


def apply_op(op, A, B, rhs):
    if op == "neg":
        return -A
    if op in ARITH:
        if rhs == "rscalar" and not is_tensor(B) and not isinstance(B, Q().TensorNetwork):
            return ARITH[op](B, A)
        return ARITH[op](A, B)
    if op == "r*":
        return B * A
    if op == "@":
        return A @ B
    if op == "&":
        return A & B
    if op == "|":
        return A | B
    if op == "*=":
        A *= B
        return A
    if op == "/=":
        A /= B
        return A
    if op == "&=":
        A &= B
        return A
    if op == "|=":
        A |= B
        return A
    raise AssertionError(op)


def run_tensor_ops(case):
    qtn = Q()
    op, rhs = case["op"], case["rhs"]
    A, B = tensor_operands(case)
    if not is_tensor(B) and op in ("@", "&", "|"):
        raise Reject("operator needs a tensor operand")
    if op in ("*=", "/=", "neg"):
        rhs = "scalar"
    info = {"op": op, "rhs": "tensor" if is_tensor(B) else rhs}
    inplace_op = op in ("*=", "/=")
    fA, fB = fingerprint(A), fingerprint(B)
    keep = A.copy()
    A0 = A.copy() if inplace_op else A
    A0id = A0
    r = apply_op(op, A0, B, rhs)
    # (1) operands untouched (for the in-place spelling: the original that shares its array with the receiver)
    d = fp_diff(fA, fingerprint(A))
    if d:
        raise Violation("operand-mutated", which="lhs", what=d, **info)
    d = fp_diff(fB, fingerprint(B))
    if d:
        raise Violation("operand-mutated", which="rhs", what=d, **info)
    if inplace_op and r is not A0id:
        raise Violation("inplace-returns-other-object", **info)
    # (2) labelled semantics against numpy
    err = 0.0
    sizes = dict(SIZES_OP)
    a = np.asarray(keep.data).astype(np.complex128)
    if op in ARITH or op in ("*=", "/=", "neg"):
        base = {"*=": "*", "/=": "/"}.get(op, op)
        if op == "neg":
            labels = sorted(keep.inds)
            ref = -dense_on(a, keep.inds, labels, sizes)
            want_tags = set(keep.tags)
        elif is_tensor(B):
            labels = sorted(set(keep.inds) | set(B.inds))
            ref = ARITH[base](dense_on(a, keep.inds, labels, sizes),
                              dense_on(np.asarray(B.data).astype(np.complex128), B.inds, labels, sizes))
            ref = np.broadcast_to(ref, [sizes[l] for l in labels])
            want_tags = set(keep.tags) | set(B.tags)
        else:
            labels = sorted(keep.inds)
            x = dense_on(a, keep.inds, labels, sizes)
            ref = ARITH[base](B, x) if (rhs == "rscalar" and op in ARITH) else ARITH[base](x, B)
            want_tags = set(keep.tags)
        if not isinstance(r, qtn.Tensor):
            raise Violation("op-result-kind", got=type(r).__name__, **info)
        if sorted(r.inds) != labels:
            raise Violation("op-labels", got=sorted(r.inds), want=labels, **info)
        if set(r.tags) != want_tags:
            raise Violation("op-tags", got=sorted(r.tags), want=sorted(want_tags), **info)
        got = dense_on(np.asarray(r.data).astype(np.complex128), r.inds, labels, sizes)
        err = rel_err(got, ref, floor=float(np.linalg.norm(ref.ravel())))
        if not err <= EXACT64:
            raise Violation("op-value", err=err, **info)
    elif op == "@":
        free = sorted(set(keep.inds) ^ set(B.inds))
        ref = einsum_value([(a, tuple(keep.inds)), (np.asarray(B.data).astype(np.complex128), tuple(B.inds))], free)
        if free:
            if not isinstance(r, qtn.Tensor) or sorted(r.inds) != free:
                raise Violation("op-labels", got=repr(getattr(r, "inds", None)), want=free, **info)
            got = dense_on(np.asarray(r.data).astype(np.complex128), r.inds, free, sizes)
            if set(r.tags) != set(keep.tags) | set(B.tags):
                raise Violation("op-tags", got=sorted(r.tags), **info)
        else:
            got = np.asarray(r).astype(np.complex128)
        err = rel_err(got, ref, floor=float(np.linalg.norm(a.ravel()) * np.linalg.norm(np.asarray(B.data).ravel())))
        if not err <= EXACT64:
            raise Violation("op-value", err=err, **info)
    else:  # & |
        if not isinstance(r, qtn.TensorNetwork) or r.num_tensors != 2:
            raise Violation("op-result-kind", got=type(r).__name__, **info)
        free = sorted(set(keep.inds) ^ set(B.inds))
        ref = einsum_value([(a, tuple(keep.inds)), (np.asarray(B.data).astype(np.complex128), tuple(B.inds))], free)
        lab, got, mag = obj_value(r)
        if lab != free:
            raise Violation("op-labels", got=lab, want=free, **info)
        err = rel_err(got, ref, floor=mag)
        if not err <= EXACT64:
            raise Violation("op-value", err=err, **info)
        if op == "|":
            # virtual: the network views the operands
            if not any(t is A for t in r) or not any(t is B for t in r):
                raise Violation("virtual-combination-copied", **info)
        else:
            if any(t is A or t is B for t in r):
                raise Violation("copying-combination-views", **info)
    # (3) axis order
    prng = np.random.default_rng([int(case["pseed"]), 2])
    A2, B2 = tensor_operands(case)
    A2, m1 = permute_obj(A2, prng, case["view"])
    B2, m2 = permute_obj(B2, prng, case["view"])
    r2 = apply_op(op, A2, B2, rhs)
    err = max(err, compare_desc(describe(r), describe(r2), EXACT64, "axis-order", info))
    return {"nt": bool(m1 or m2), "cls": ["op=" + op + ("" if is_tensor(B) else ":" + rhs), "overlap=" + case["overlap"]], "err": err}


def network_operands(case):
    qtn = Q()
    rng = np.random.default_rng(case["seed"])
    ca = {"n": 2 + case["n"] % 3, "geom": case["geom"], "dtype": case["dtype"]}
    A = qtn.TensorNetwork(build_graph_tensors(ca, rng, "T{}", "k{}"))
    A.exponent = float(case["exp"])
    kind = case["rhs"]
    if kind == "tensor":
        ix = pick(rng, outer(A), 1) + ["x"]
        B = qtn.Tensor(rarr(rng, [A.ind_size(ix[0]), 2], case["dtype"]), inds=ix, tags=["B"])
    elif kind == "network":
        cb = {"n": 2 + (case["n"] // 3) % 2, "geom": "chain", "dtype": case["dtype"]}
        # same inner names as A (they clash and must be mangled), outer labels partly shared with A
        B = qtn.TensorNetwork(build_graph_tensors(cb, rng, "U{}", "k{}" if case["share"] else "m{}"))
        if case["share"]:
            B.reindex_({"k0": "m0"})
        B.exponent = float(case["exp2"])
    else:
        B = pick(rng, [2.5, -0.5, 3.0])
        if "complex" in case["dtype"] and rng.integers(0, 2):
            B = B * (1 + 0.5j)
    return A, B


def s_network_ops(tier):
    from .. import arrays as AR

    return st.fixed_dictionaries({
        "op": st.sampled_from(TN_OPS), "rhs": st.sampled_from(["network", "network", "tensor", "scalar"]),
        "share": st.booleans(), "seed": AR.seeds, "pseed": st.integers(0, 10 ** 6), "n": st.integers(0, 11),
        "geom": st.sampled_from(GEOMS), "dtype": st.sampled_from(["float64", "complex128"]),
        "exp": st.sampled_from([0.0, 0.0, 1.0, -2.0]), "exp2": st.sampled_from([0.0, 0.5]), "view": st.booleans(),
        "pmode": st.sampled_from(PMODES)})


def run_network_ops(case):
    qtn = Q()
    op = case["op"]
    A, B = network_operands(case)
    scalar_ops = ("*", "/", "*=", "/=", "r*", "neg")
    if op in scalar_ops:
        if isinstance(B, (qtn.Tensor, qtn.TensorNetwork)):
            A, B = network_operands(dict(case, rhs="scalar"))
    elif op in ("^all", "^tags", ">>"):
        B = None
    elif not isinstance(B, (qtn.Tensor, qtn.TensorNetwork)):
        A, B = network_operands(dict(case, rhs="network"))
    if op == "@" and isinstance(B, qtn.Tensor):
        A, B = network_operands(dict(case, rhs="network"))
    info = {"op": op, "rhs": type(B).__name__}
    inplace_op = op in ("&=", "|=", "*=", "/=")
    virtual = op in ("|", "|=")
    fA, fB = fingerprint(A), (loose_fp(B) if virtual else fingerprint(B))
    lA, vA, mA = obj_value(A)
    A0 = A.copy() if inplace_op else A
    rng = np.random.default_rng([case["seed"], 3])
    tagseq = None

    def do(A_, B_):
        if op == "^all":
            return A_ ^ all
        if op == "^tags":
            a, b, _ = pick(np.random.default_rng([case["seed"], 3]), neighbours(A_))
            return A_ ^ [a, b]
        if op == ">>":
            keys = site_keys(A_)
            return A_ >> [[k] for k in keys] if False else A_ >> keys
        return apply_op(op, A_, B_, "scalar")

    r = do(A0, B)
    d = fp_diff(fA, fingerprint(A))
    if d:
        raise Violation("operand-mutated", which="lhs", what=d, **info)
    if B is not None:
        d = fp_diff(fB, loose_fp(B) if virtual else fingerprint(B))
        if d:
            raise Violation("operand-mutated", which="rhs", what=d, **info)
    if inplace_op and r is not A0:
        raise Violation("inplace-returns-other-object", **info)
    # denotation
    err = 0.0
    if op in ("&", "|", "&=", "|=", "@"):
        if isinstance(B, qtn.Tensor):
            lB, vB, mB = obj_value(B)
        else:
            lB, vB, mB = obj_value(B)
        free = sorted(set(lA) ^ set(lB))
        ref = einsum_value([(vA, tuple(lA)), (vB, tuple(lB))], free)
        if op == "@":
            if free:
                raise Reject("@ leaves open labels")
            got = np.asarray(r).astype(np.complex128)
        else:
            if not isinstance(r, qtn.TensorNetwork):
                raise Violation("op-result-kind", got=type(r).__name__, **info)
            lab, got, _ = obj_value(r)
            if lab != free:
                raise Violation("op-labels", got=str(lab)[:100], want=str(free)[:100], **info)
        err = rel_err(got, ref, floor=mA * mB)
        if not err <= EXACT64:
            raise Violation("op-value", err=err, **info)
    elif op in scalar_ops:
        f = {"*": B, "*=": B, "r*": B, "/": 1 / B if B else 1, "/=": 1 / B if B else 1, "neg": -1.0}[op]
        lab, got, _ = obj_value(r)
        if lab != lA:
            raise Violation("op-labels", **info)
        err = rel_err(got, vA * f, floor=mA * abs(f))
        if not err <= EXACT64:
            raise Violation("op-value", err=err, **info)
    else:
        d_ = describe(r)
        if d_["k"] == "num":
            got, lab = d_["v"], []
        else:
            lab = [l for l, _ in d_["labels"]] if d_["k"] == "T" else d_["labels"]
            got = d_["v"]
        if lab != lA:
            raise Violation("op-labels", got=str(lab)[:100], want=str(lA)[:100], **info)
        err = rel_err(np.asarray(got).reshape(np.shape(vA)), vA, floor=mA)
        if not err <= EXACT64:
            raise Violation("op-value", err=err, **info)
    # axis order
    prng = np.random.default_rng([int(case["pseed"]), 2])
    A2, B2 = network_operands(dict(case, rhs={"Tensor": "tensor", "TensorNetwork": "network"}.get(type(B).__name__, "scalar")))
    A2, m1 = permute_obj(A2, prng, case["view"], case.get("pmode", "rebuild"))
    B2, m2 = permute_obj(B2, prng, case["view"], case.get("pmode", "rebuild"))
    r2 = do(A2, B2)
    err = max(err, compare_desc(describe(r), describe(r2), EXACT64, "axis-order", info))
    return {"nt": bool(m1 or m2), "cls": ["op=" + op + ":" + type(B).__name__], "err": err}


# ---------------------------------------------------------------------------
# gauge-carrying methods that have no (f, f_) spelling: axis-order clause on (network, gauges) as ONE denoted object
# ---------------------------------------------------------------------------

GAUGE_CLASSES = ["TensorNetwork", "TensorNetworkGenVector"]
# public methods that hand **opts to a private worker taking ``gauges`` (checked by reflection on the worker)
GAUGE_FORWARDERS = {"compress_between": "_compress_between_tids", "canonize_between": "_canonize_between_tids",
                    "contract_between": "_contract_between_tids"}


@functools.lru_cache(None)
def reflect_gauge_methods():
    """{class name: names of public non-paired methods that accept ``gauges``} - by reflection on signatures."""
    out = {}
    for cname in GAUGE_CLASSES:
        c = get_class(cname)
        paired = set(reflect()[cname])
        names = []
        for n in dir(c):
            if n.startswith("_") or n in paired or (n.endswith("_") and n[:-1] in paired):
                continue
            f = getattr(c, n)
            if not callable(f):
                continue
            target = getattr(c, GAUGE_FORWARDERS[n], None) if n in GAUGE_FORWARDERS else f
            try:
                if target is not None and "gauges" in inspect.signature(target).parameters:
                    names.append(n)
            except (TypeError, ValueError):
                pass
        if cname != "TensorNetwork":
            names = [n for n in names if n not in out["TensorNetwork"]]
        out[cname] = sorted(names)
    return out


GAUGE_RECIPES = {}


def grecipe(*names):
    def deco(fn):
        for n in names:
            GAUGE_RECIPES[n] = fn
        return fn
    return deco


# a gauge recipe: fn(x, rng) -> (receiver, run) with run(tn, G) -> list of results described AFTER the call; the method acts in
# place on ``tn`` and on the dict ``G``.  Results are (object, gauged?) pairs.

@grecipe("compress_between", "canonize_between", "contract_between")
def g_between(name):
    def build(x, rng):
        y = add_parallel_bond(x, rng) if rng.integers(0, 2) else x
        cands = neighbours(y)
        mb = [c for c in cands if len(c[2]) > 1]
        a, b, _ = pick(rng, mb) if (mb and rng.integers(0, 2)) else pick(rng, cands)
        if rng.integers(0, 2):
            a, b = b, a
        kw = dict(NOTRUNC) if name == "compress_between" else {}

        def run(tn, G):
            getattr(tn, name)(a, b, gauges=G, **kw)
            return [(tn, True)]
        return y, run
    return build


@grecipe("gauge_simple_insert", "gauge_insert")
def g_insert(name):
    def build(x, rng):
        y = add_parallel_bond(x, rng) if rng.integers(0, 2) else x

        def run(tn, G):
            rec = getattr(tn, name)(G, **({"return_gauges": "raw"} if name == "gauge_insert" else {}))
            out = [(tn.copy(), False)]
            if rec is not None:
                tn.gauge_simple_remove(*rec)
                out.append((tn, False))
            return out
        return y, run
    return build


@grecipe("gauge_simple_temp")
def g_temp(name):
    def build(x, rng):
        kw = pick(rng, [{}, {"ungauge_outer": False}, {"ungauge_inner": False}])

        def run(tn, G):
            with tn.gauge_simple_temp(G, **kw):
                inside = tn.copy()
            return [(inside, False), (tn, False)]
        return x, run
    return build


@grecipe("normalize_simple")
def g_normalize_simple(name):
    def build(x, rng):
        def run(tn, G):
            nf = tn.normalize_simple(G)
            return [(nf, False), (tn, True)]
        return x, run
    return build


@grecipe("local_expectation_simple", "local_expectation_cluster", "partial_trace_cluster", "get_cluster",
         "compute_local_expectation_simple", "compute_local_expectation_cluster")
def g_cluster(name):
    def build(x, rng):
        two = bool(rng.integers(0, 2))
        where = list(pick(rng, nn_sites(x))) if two else [pick(rng, list(x.sites))]
        d = 2 ** len(where)
        m = rarr(rng, (d, d), x.dtype)
        Gop = m + m.conj().T
        dist = int(rng.integers(0, 3))

        def run(tn, G):
            if name.startswith("local_expectation"):
                r = getattr(tn, name)(Gop, tuple(where) if two else where[0], gauges=G, max_distance=dist)
            elif name.startswith("compute_local"):
                r = getattr(tn, name)({tuple(where) if two else where[0]: Gop}, gauges=G, max_distance=dist)
            elif name == "partial_trace_cluster":
                r = tn.partial_trace_cluster(tuple(where), gauges=G, max_distance=dist, get="tensor")
            else:
                r = tn.get_cluster(tuple(where), gauges=G, max_distance=dist)
            return [(r, False)]
        return x, run
    return build


def s_gauge_methods(tier):
    from .. import arrays as AR

    pairs = [[c, n] for c, ns in reflect_gauge_methods().items() for n in ns if n in GAUGE_RECIPES]

    def finish(d):
        d = dict(d)
        i = pairs.index(d["pair"])
        d["pair"] = pairs[(i + d["seed"] + d["pseed"]) % len(pairs)]
        return d

    return st.fixed_dictionaries({
        "seed": AR.seeds, "pseed": st.integers(0, 10 ** 6), "n": st.integers(3, 5), "geom": st.sampled_from(GEOMS),
        "dtype": st.sampled_from(["float64", "complex128"]), "exp": st.sampled_from([0.0, 0.0, 1.0, -2.0]),
        "view": st.booleans(), "pmode": st.sampled_from(PMODES), "frac": st.sampled_from([1.0, 0.8, 0.5]),
        "pair": st.sampled_from(pairs)}).map(finish)


def run_gauge_methods(case):
    qtn = Q()
    cname, name = case["pair"]
    if name not in reflect_gauge_methods().get(cname, ()):
        raise Reject("method no longer accepts gauges")
    info = {"cls": cname, "name": name, "pmode": case["pmode"]}

    def setup_g():
        x = build_receiver(dict(case, pair=[cname if cname != "TensorNetwork" or case["seed"] % 2 else "TensorNetworkGenVector", "-"]))
        rng = np.random.default_rng([int(case["seed"]), 5])
        y, run = GAUGE_RECIPES[name](name)(x, rng)
        G = rand_gauges(y, rng, case["frac"])
        return y, run, G

    def execute(tn, run, G):
        core.reset_quimb_state(int(case["seed"]) % (2 ** 31))
        with warnings.catch_warnings():
            warnings.simplefilter("ignore")
            res = run(tn, G)
        return {"k": "seq", "items": [describe_gauged(o, G)["items"][0] if (g and isinstance(o, (qtn.Tensor, qtn.TensorNetwork)))
                                      else describe(o) for o, g in res]}

    # layout as built
    x0, run0, G0 = setup_g()
    f0 = fingerprint(x0)
    d0 = execute(x0.copy(), run0, G0)
    d = fp_diff(f0, fingerprint(x0))
    if d:
        raise Violation("copy-not-isolated", what=d, **info)
    # drifted / rebuilt layout, same labelled content, same gauges
    x1, run1, G1 = setup_g()
    prng = np.random.default_rng([int(case["pseed"]), 2])
    x1p, moved = permute_obj(x1, prng, bool(case["view"]), case["pmode"])
    d1 = execute(x1p, run1, G1)
    err = compare_desc(d0, d1, INV64, "axis-order", info, loose=True)
    un = [f"{c}.{n}" for c, ns in reflect_gauge_methods().items() for n in ns if n not in GAUGE_RECIPES]
    return {"nt": bool(moved) and bool(G0), "cls": [f"{SHORT[cname]}.{name}", "pmode=" + case["pmode"]] +
            (["unexercised=" + ",".join(n.split(".")[1] for n in un)] if un else []), "err": err}


# ---------------------------------------------------------------------------
# plain (non-paired) methods that hand back networks / tensors: non-mutation clause incl. object independence
# ---------------------------------------------------------------------------

# name -> fn(x, rng) -> (callable(x) -> result, documented_view: bool, arguments for the purity check)
# documented views (docstrings): select / select_local default ``virtual=True`` ("returns a view of the tensors not a copy"),
# ``copy(virtual=True)``, ``as_network(virtual=True)`` (default), ``subgraphs(virtual=True)``, ``a | b``.  Everything else in
# this table promises independent objects.
PLAIN_RECIPES = {}


def precipe(*names):
    def deco(fn):
        for n in names:
            PLAIN_RECIPES[n] = fn
        return fn
    return deco


def _tagsel(x, rng):
    keys = site_keys(x)
    return pick(rng, keys, int(rng.integers(1, max(2, len(keys)))))


@precipe("partition")
def p_partition(x, rng):
    tags = _tagsel(x, rng)
    return (lambda tn: tn.partition(tags, which="any")), False, [tags]


@precipe("partition_tensors")
def p_partition_tensors(x, rng):
    tags = _tagsel(x, rng)
    return (lambda tn: tn.partition_tensors(tags)), False, [tags]


@precipe("select")
def p_select(x, rng):
    tags = _tagsel(x, rng)
    view = bool(rng.integers(0, 2))
    we = bool(rng.integers(0, 2))
    return (lambda tn: tn.select(tags, which="any", virtual=view, with_exponent=we)), view, [tags]


@precipe("select_local")
def p_select_local(x, rng):
    tag = pick(rng, site_keys(x))
    view = bool(rng.integers(0, 2))
    return (lambda tn: tn.select_local(tag, max_distance=1, virtual=view)), view, [tag]


@precipe("copy")
def p_copy(x, rng):
    mode = int(rng.integers(0, 3))
    if mode == 0:
        return (lambda tn: tn.copy()), False, []
    if mode == 1:
        return (lambda tn: tn.copy(deep=True)), False, []
    if is_tensor(x):
        return (lambda tn: tn.copy()), False, []
    return (lambda tn: tn.copy(virtual=True)), True, []


@precipe("H")
def p_H(x, rng):
    return (lambda tn: tn.H), False, []


@precipe("subgraphs")
def p_subgraphs(x, rng):
    view = bool(rng.integers(0, 2))
    return (lambda tn: tn.subgraphs(virtual=view)), view, []


@precipe("as_network")
def p_as_network(x, rng):
    view = bool(rng.integers(0, 2))
    return (lambda tn: tn.as_network(virtual=view)), view, []


@precipe("combine")
def p_combine(x, rng):
    other = other_like(x, rng)
    view = bool(rng.integers(0, 2))
    if is_tensor(x):
        return (lambda tn: (tn | other) if view else (tn & other)), view, [other]
    return (lambda tn: tn.combine(other, virtual=view)), view, [other]


@precipe("make_norm")
def p_make_norm(x, rng):
    return (lambda tn: tn.make_norm()), False, []


@precipe("replace_section_with_svd")
def p_replace_section(x, rng):
    i = int(rng.integers(1, x.L - 1))
    return (lambda tn: tn.replace_section_with_svd(i, i + 1 if x.L - i < 2 else i + 2, 1e-14, method="svd")), False, []


@precipe("partial_trace_to_mpo")
def p_ptr_mpo(x, rng):
    keep = sorted(pick(rng, list(range(x.L)), 2))
    return (lambda tn: tn.partial_trace_to_mpo(keep)), False, []


@precipe("get_cluster")
def p_get_cluster(x, rng):
    where = (pick(rng, list(x.sites)),)
    return (lambda tn: tn.get_cluster(where, max_distance=int(rng.integers(0, 2)))), False, []


@precipe("split")
def p_split(x, rng):
    inds = sorted(x.inds)
    if len(inds) < 2:
        raise Reject("rank 1")
    left = pick(rng, inds, int(rng.integers(1, len(inds))))
    get = pick(rng, [None, "tensors"])
    return (lambda t: t.split(left, cutoff=0.0, get=get)), False, []


@precipe("contract_with")
def p_contract_with(x, rng):
    other = other_like(x, rng)
    other.reindex_({sorted(x.inds)[0]: "zz"})
    return (lambda t: t.contract(other, preserve_tensor=True)), False, [other]


PLAIN_CLASSES = {"Tensor": ["copy", "H", "as_network", "combine", "split", "contract_with"],
                 "TensorNetwork": ["partition", "partition_tensors", "select", "select_local", "copy", "H", "subgraphs", "as_network",
                                   "combine", "make_norm"],
                 "TensorNetworkGenVector": ["partition", "select", "copy", "combine", "make_norm", "get_cluster"],
                 "MatrixProductState": ["partition", "partition_tensors", "select", "copy", "H", "combine", "make_norm",
                                        "replace_section_with_svd", "partial_trace_to_mpo"],
                 "PEPS": ["partition", "select", "select_local", "copy", "combine", "make_norm"]}


def plain_pairs():
    out = []
    for cname, names in PLAIN_CLASSES.items():
        c = get_class(cname)
        for n in names:
            attr = {"contract_with": "contract", "combine": "__and__"}.get(n, n)
            if hasattr(c, attr):  # reflected: dropped when the method disappears
                out.append([cname, n])
    return out


def s_alias_plain(tier):
    from .. import arrays as AR

    pairs = plain_pairs()

    def finish(d):
        d = dict(d)
        d["pair"] = pairs[(pairs.index(d["pair"]) + d["seed"] + d["pseed"]) % len(pairs)]
        return d

    return st.fixed_dictionaries({
        "seed": AR.seeds, "pseed": st.integers(0, 10 ** 6), "n": st.integers(3, 5), "geom": st.sampled_from(GEOMS),
        "dtype": st.sampled_from(["float64", "complex128"]), "exp": st.sampled_from([0.0, 0.0, 1.0, -2.0]),
        "direction": st.sampled_from(["edit-result", "edit-receiver"]), "pair": st.sampled_from(pairs)}).map(finish)


def run_alias_plain(case):
    cname, name = case["pair"]
    info = {"cls": cname, "name": name}
    x = build_receiver(dict(case, n=(2 + case["n"] % 3) if cname == "Tensor" else case["n"]))
    rng = np.random.default_rng([int(case["seed"]), 7])
    fn, view, args = PLAIN_RECIPES[name](x, rng)
    info["view"] = view
    # a documented virtual combination may mangle clashing INNER names of the viewed operand (see ops.network)
    afp = (lambda a: [loose_fp(v) for v in a]) if view else fingerprint
    fx, fa = fingerprint(x), afp(args)
    core.reset_quimb_state(int(case["seed"]) % (2 ** 31))
    with warnings.catch_warnings():
        warnings.simplefilter("ignore")
        r = fn(x)
    d = fp_diff(fx, fingerprint(x))
    if d:
        raise Violation("receiver-mutated", what=d, **info)
    if fa != afp(args):
        raise Violation("argument-mutated", what=fp_diff(fa, afp(args)) if not view else "changed", **info)
    got = tensor_objects(r)
    shared_x = set(got) & set(tensor_objects(x))
    shared_a = set(got) & set(tensor_objects(args))
    if not view:
        if shared_x:
            raise Violation("result-aliases-receiver", n=len(shared_x), **info)
        if shared_a:
            raise Violation("result-aliases-argument", n=len(shared_a), **info)
        if case["direction"] == "edit-result":
            independence(r, [x, args], "receiver-follows-result", info)
        else:
            independence(x, r, "result-follows-receiver", info)
    return {"nt": bool(got), "cls": [f"{SHORT[cname]}.{name}" + (":view" if view else ""), case["direction"]], "err": 0.0}


# ---------------------------------------------------------------------------
# sub-checks: one per (class, alphabetical chunk) so that the class histogram shows per-pair counts
# ---------------------------------------------------------------------------

def chunk_names(cname, letters):
    names = [n for n in reflect()[cname] if n[0] in letters]
    ex = [n for n in names if n in RECIPES and (cname, n) not in SKIP]
    un = [n for n in names if n not in ex]
    return ex, un


def make_strategy(cname, letters):
    def strat(tier):
        from .. import arrays as AR

        ex, _ = chunk_names(cname, letters)
        lo, hi = (1, 4) if cname == "Tensor" else (3, 5)
        # the pair is drawn LAST: Hypothesis' generator likes to keep a prefix of an earlier example and redraw the rest,
        # which (with the pair first) concentrated the budget on a few pairs and left others unvisited
        def finish(d):
            # Hypothesis over-represents the first element of sampled_from and re-uses earlier draws; rotating the sampled
            # pair by the (near uniform) seeds flattens the per-pair histogram.  Still a pure function of the draws.
            d = dict(d)
            i = ex.index(d["pair"][1])
            d["pair"] = [cname, ex[(i + d["seed"] + d["pseed"]) % len(ex)]]
            return d

        return st.fixed_dictionaries({
            "seed": AR.seeds, "pseed": st.integers(0, 10 ** 6),
            "n": (st.sampled_from([3, 2, 4, 3, 1, 4]) if cname == "Tensor" else st.integers(lo, hi)), "geom": st.sampled_from(GEOMS), "dtype": st.sampled_from(["float64", "complex128"]),
            "exp": st.sampled_from([0.0, 0.0, 1.0, -2.0]), "view": st.booleans(),
            "pmode": st.sampled_from(PMODES if cname != "Tensor" else ["rebuild"]),
            "warm": st.booleans() if cname not in ("Tensor", "TensorNetwork") else st.just(False),
            "pair": st.sampled_from(ex).map(lambda n: [cname, n])}).map(finish)
    return strat


def make_run(cname, letters):
    def run(case):
        out = run_pair(case)
        _, un = chunk_names(cname, letters)
        if un:
            out["cls"] = out["cls"] + ["unexercised=" + ",".join(un)]
        return out
    return run


def _static_pair_count(cname, letters):
    # only used to size the budgets; falls back when quimb cannot be imported in the parent
    try:
        return max(1, len(chunk_names(cname, letters)[0]))
    except Exception:
        return 20


SUBCHECKS = []
for _c in CLASS_NAMES:
    for _label, _letters in CHUNKS:
        _n = _static_pair_count(_c, _letters)
        SUBCHECKS.append(SubCheck(
            f"{SHORT[_c]}.{_label}", make_run(_c, _letters), make_strategy(_c, _letters),
            examples=(20 * _n, 20 * _n * 13), shards=(1, 4), min_accept=0.5,
            rule=f"{_c} pairs with names starting {_label} ({_n} exercised): purity, copy isolation, spelling equivalence, "
                 "axis-order invariance; nt: >=2 tensors (rank>=2) and a non-identity permutation"))
SUBCHECKS.append(SubCheck("alias.plain", run_alias_plain, s_alias_plain, examples=(500, 8000), shards=(1, 4),
                          rule="plain non-paired methods handing back networks/tensors (partition, select, copy, H, subgraphs, combine, "
                               "make_norm, split, ...): receiver/arguments bit-identical after the call, no Tensor OBJECT shared with "
                               "the result unless the docstring promises a view (virtual=True), and in-place edits of the result "
                               "(resp. receiver) leave the receiver+arguments (resp. result) unchanged; nt: result holds tensors"))
SUBCHECKS.append(SubCheck("gauges.methods", run_gauge_methods, s_gauge_methods, examples=(400, 6000), shards=(1, 4),
                          rule="public non-paired methods that accept gauges= (reflected from signatures): the result (network + updated "
                               "gauges as ONE denoted object, or the returned value) is the same for the layout as built and for a "
                               "layout drifted after construction (transpose_ on own tensors, rename round trips) or rebuilt; "
                               "nt: layout changed and >=1 gauge"))
SUBCHECKS.append(SubCheck("ops.tensor", run_tensor_ops, s_tensor_ops, examples=(400, 8000), shards=(1, 4),
                          rule="Tensor operators + - * / ** @ & | *= /= unary-: operands untouched, numpy broadcasting-by-label "
                               "oracle, axis-order invariance; nt: a non-identity permutation of an operand"))
SUBCHECKS.append(SubCheck("ops.network", run_network_ops, s_network_ops, examples=(400, 8000), shards=(1, 4),
                          rule="TensorNetwork operators & | &= |= * / *= /= unary- @ ^ >>: operands untouched (inner names of a "
                               "viewed operand may be mangled), denotation oracle, axis-order invariance"))
