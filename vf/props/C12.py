"""C12 — approximate contraction is exact when untruncated and obeys its bond cap.

Three oracle clauses, each on its own family of sub-checks:

(a) exactness: with ``cutoff=0.0`` and ``max_bond`` at least the exact bond size
    (computed from the lattice sizes, see ``chi_exact``) every compressed
    contraction scheme returns ``vf.oracle.einsum_value`` of the whole network
    (relative 1e-6, floor = product of tensor norms).  ``(mantissa, exponent)``
    pairs are recombined, returned networks are re-evaluated by einsum.
(b) bond cap: with a *binding* cap the scheme is run in place / without the
    final contraction / with a callback and every bond it has compressed is
    <= cap when it returns or hands over the boundary.
(c) environments: every stored environment combined with the part of the
    lattice it excludes contracts to the value of the whole (untruncated).
"""
from __future__ import annotations

import itertools

import numpy as np
from hypothesis import strategies as st

from .. import arrays as A
from ..core import INV64, Reject, SubCheck, Violation, rejecting, rel_err
from ..oracle import einsum_value, tn_tensors

RULE = ("cases are 2D lattices 2x2..4x4 (open / cyclic in x and/or y, bond 1-3, real/complex, flat or bra-ket layered "
        "PEPS norms/overlaps, optional stored exponent), 3D lattices 2x2x2..2x2x3 (thorough to 3x3x3), and connected graphs "
        "of 2-9 tensors (loops, dangling legs, size-1 bonds, 1-2 tensors per site) with a drawn contraction path, x every "
        "boundary mode / sequence of directions / option set the code path accepts, all seeds explicit; oracle numpy.einsum "
        "of the whole network; non-trivial = bond >= 2 and at least one inward step happens and (lattice >= 3x3 or layered "
        "or >= 2 directions); graphs: >= 1 compression happened; cap clause: the cap is binding and >= 1 compressed bond "
        "is seen")
ASSUMPTIONS = [
    "numpy.einsum (integer sublist form, own greedy pairwise order; numpy.tensordot pairwise reduction beyond 50 labels) "
    "is the trusted denotation of a network",
    "'untruncated' = cutoff=0.0 and max_bond >= the number of original edges crossing any cut the scheme compresses: 2D "
    "D_layer**(c*(max(L)-1)) (c=2 when a direction is cyclic), one-sided sweeps D_layer**(c*rows), HOTRG "
    "D_layer**(c*max(L)), 3D D**(c*a*b) with a, b the two largest sides",
    "every boundary handed to a compressor keeps an open index and >= 2 sites: max_separation >= 1, a one-sided patch "
    "is never the whole lattice, start borders leave >= 2 rows and columns (no caller or test does otherwise; the 1D "
    "compressors refuse one-site networks, BP-type modes are documented inexact without dangling indices)",
    "options are only drawn for the modes whose code path accepts them; accepted refusals: NotImplementedError "
    "('full-bond' + equalize_norms), numba TypingError of 'dm' on a boundary site without open index, LinAlgError of "
    "the ALS solve of 'local-fit'",
    "randomised / fitted boundary modes (src*, srcmps*, fit*) are exact with probability one when the sketch / bond is "
    ">= the exact rank; they are always given an explicit seed",
    "paths that divide by simple-update / BP bond weights on a loopy boundary (canonize=True of HOTRG with its "
    "smudge=1e-12, projector/su/l2bp on 3D planes or periodic rows) are exact only up to the spread of those weights: "
    "they are given generic gaussian tensors (conditioning by construction, tolerance unchanged)",
    "contract_compressed with max_bond=None is run 'untruncated' with cutoff=1e-15 (cutoff=0.0 switches compression off)",
    "plaquette environments and the truncating branch of 'full-bond' only on open lattices; CTMRG only in its default "
    "'projector' mode; bra/ket layered lattices periodic in both directions or none (PEPS constructor)",
]

TOL = INV64


def Q():
    import quimb.tensor as qtn

    return qtn


# ---------------------------------------------------------------------------
# lattices: JSON description -> network (pure function of the description)
# ---------------------------------------------------------------------------

KINDS = ("shifted", "shifted", "gauss")


def fill_fn(seed, kind, dtype):
    """Sequential filler: one generator per lattice, called once per site."""
    rng = np.random.default_rng(int(seed))

    def f(shape):
        shape = tuple(int(s) for s in shape)
        x = rng.normal(size=shape)
        if "complex" in dtype:
            x = x + 1j * rng.normal(size=shape)
        if kind == "shifted":
            # well conditioned: value of the network is comparable with the product of norms
            x = 1.0 + 0.5 * x
        return np.asarray(x, dtype=dtype)

    return f


def dlayer(lat):
    return int(lat["D"]) ** int(lat.get("layers", 1))


def chi_exact(lat):
    """Number of original edges crossing any compressed cut, as a bond size.

    2D: two neighbouring blocks of merged sites share at most max(L)-1 edges while opposite boundaries stay >= 1 apart
    (max_separation >= 1), twice that across a periodic direction.  3D: a cut plane is crossed by at most a*b edges
    (a, b the two largest sides); no 3D mode allocates by max_bond, so the generous bound costs nothing."""
    c = 2 if any(lat.get(k) for k in ("cx", "cy", "cz")) else 1
    if lat.get("Lz"):
        a, b = sorted([lat["Lx"], lat["Ly"], lat["Lz"]])[1:]
        return max(1, dlayer(lat) ** (c * a * b))
    L = max(lat["Lx"], lat["Ly"])
    return max(1, dlayer(lat) ** (c * (L - 1)))


def chi_rows(lat, n):
    """Exact bond of a boundary made of n merged rows (a one-sided sweep may merge all L rows)."""
    c = 2 if any(lat.get(k) for k in ("cx", "cy", "cz")) else 1
    return max(1, dlayer(lat) ** (c * int(n)))


def lattice_candidates(tier, max_chi, allow_cyclic=True, allow_layers=True, min_L=2, max_L=None, square_only=False, min_D=1):
    """All (Lx, Ly, D, cx, cy, layers) whose exact bond is <= max_chi, weighted towards >= 3x3."""
    if max_L is None:
        max_L = 3 if tier == "quick" else 4
    out = []
    for Lx, Ly in itertools.product(range(min_L, 5), repeat=2):
        if square_only and Lx != Ly:
            continue
        for D in (1, 2, 3):
            if D < min_D:
                continue
            for cx, cy in itertools.product((False, True), repeat=2):
                if (cx or cy) and not allow_cyclic:
                    continue
                if (cx and Lx < 3) or (cy and Ly < 3):
                    continue  # a cyclic direction of length 2 would repeat a label on one tensor
                for layers in (1, 2):
                    if layers == 2 and not allow_layers:
                        continue
                    if layers == 2 and (cx != cy or (cx and D < 2)):
                        # the PEPS constructor infers periodicity from the array shapes and only recognises
                        # lattices periodic in both directions (or none) with non-trivial dimensions
                        continue
                    if layers == 2 and D == 3 and max(Lx, Ly) >= 3:
                        continue  # bra-ket bonds of size 9: a single boundary step already costs minutes in some modes
                    lat = {"Lx": Lx, "Ly": Ly, "D": D, "cx": cx, "cy": cy, "layers": layers}
                    if chi_exact(lat) > max_chi:
                        continue
                    big = max(Lx, Ly) > max_L
                    if big and (tier == "quick") and not (max(Lx, Ly) == 4 and min(Lx, Ly) <= 3 and D <= 2 and layers == 1):
                        continue
                    if max(Lx, Ly) > max(max_L, 4):
                        continue
                    w = 2
                    if min(Lx, Ly) >= 3:
                        w += 4
                    if max(Lx, Ly) == 2:
                        w = 1  # nothing to sweep with max_separation >= 1: only the final exact contraction
                    if D >= 2 and (cx or cy or layers == 2):
                        w += 2
                    out += [lat] * w
    return out


@st.composite
def s_lattice2d(draw, tier, max_chi=256, min_D=1, **kw):
    cands = lattice_candidates(tier, max_chi, min_D=min_D, **kw)
    # bond dimension first (D=1 lattices are cheap and numerous but nearly trivial), then a geometry that fits the budget
    # (Hypothesis favours the head of a sampled_from list: the interesting values come first)
    D = draw(st.sampled_from([d for d in (2, 3, 2, 2, 3, 2, 2, 3, 2, 1) if d >= min_D]))
    pool = [c for c in cands if c["D"] == D] or [c for c in cands if c["D"] == 2] or cands
    pool = sorted(pool, key=lambda c: (min(c["Lx"], c["Ly"]) < 3, max(c["Lx"], c["Ly"]) < 3, c["Lx"] + c["Ly"], c["Lx"],
                                       not (c["cx"] or c["cy"]), c["layers"]))
    lat = dict(draw(st.sampled_from(pool)))
    lat["seed"] = draw(A.seeds)
    lat["kind"] = draw(st.sampled_from(KINDS))
    lat["dtype"] = draw(st.sampled_from(A.DTYPES64))
    lat["exponent"] = draw(st.sampled_from([0.0, 0.0, 0.0, 0.0, 1.5, -2.0]))
    if lat["layers"] == 2:
        lat["phys"] = draw(st.sampled_from([2, 2, 3] if lat["cx"] else [1, 2, 2, 3]))
        # bra from the same state (norm) or from another one (overlap)
        lat["bra_seed"] = 7 if draw(st.booleans()) else None
    return lat


def build2d(lat):
    """TensorNetwork2D of the description: flat lattice, or a bra/ket double layer tagged 'KET' / 'BRA'."""
    qtn = Q()
    cyc = (bool(lat.get("cx")), bool(lat.get("cy")))
    Lx, Ly, D = int(lat["Lx"]), int(lat["Ly"]), int(lat["D"])
    if int(lat.get("layers", 1)) == 1:
        tn = qtn.TN2D_from_fill_fn(fill_fn(lat["seed"], lat["kind"], lat["dtype"]), Lx, Ly, D, cyclic=cyc)
    else:
        ket = qtn.PEPS.from_fill_fn(fill_fn(lat["seed"], lat["kind"], lat["dtype"]), Lx, Ly, D,
                                    phys_dim=int(lat.get("phys", 2)), cyclic=cyc)
        if lat.get("bra_seed") is None:
            tn = ket.make_norm()
        else:
            bra = qtn.PEPS.from_fill_fn(fill_fn(int(lat["seed"]) + int(lat["bra_seed"]), lat["kind"], lat["dtype"]),
                                        Lx, Ly, D, phys_dim=int(lat.get("phys", 2)), cyclic=cyc)
            tn = ket.make_overlap(bra)
        if not isinstance(tn, qtn.TensorNetwork2D):
            raise Violation("layered-not-2d", got=type(tn).__name__)
    if lat.get("exponent"):
        tn.exponent = float(lat["exponent"])
    return tn


class LabelMismatch(Exception):
    """The pieces handed to net_value do not fit together (a summed label that is not on exactly two tensors)."""


def net_value(arrs, output=()):
    """Denotation of [(array, labels)] over `output`.  vf.oracle.einsum_value whenever numpy.einsum can take it (its
    integer-sublist form allows 52 distinct labels); larger networks (lazy projector networks) are reduced pairwise with
    numpy.tensordot in an own greedy smallest-result order.  Those networks are ordinary: every summed label sits on
    exactly two tensors (checked)."""
    labels = {l for _, ls in arrs for l in ls}
    if len(labels) <= 50:
        return einsum_value(arrs, tuple(output))
    count = {}
    for _, ls in arrs:
        for l in ls:
            count[l] = count.get(l, 0) + 1
    for l, c in count.items():
        if c > 2 or (c == 2 and l in output) or (c == 1 and l not in output):
            raise LabelMismatch("label %r is not an ordinary bond / output" % (l,))
    ops = [(np.asarray(a), list(ls)) for a, ls in arrs]
    while len(ops) > 1:
        best = None
        n = len(ops)
        for i in range(n):
            si = set(ops[i][1])
            for j in range(i + 1, n):
                shared = si.intersection(ops[j][1])
                if not shared and best is not None and best[0][0] == 0:
                    continue
                size = 1
                for a, ls in (ops[i], ops[j]):
                    for d, l in zip(a.shape, ls):
                        if l not in shared:
                            size *= d
                key = (0 if shared else 1, size)
                if best is None or key < best[0]:
                    best = (key, i, j, shared)
        _, i, j, shared = best
        (a, la), (b, lb) = ops[i], ops[j]
        sh = sorted(shared)
        c = np.tensordot(a, b, axes=([la.index(l) for l in sh], [lb.index(l) for l in sh]))
        lc = [l for l in la if l not in shared] + [l for l in lb if l not in shared]
        ops = [o for k, o in enumerate(ops) if k not in (i, j)] + [(c, lc)]
    a, la = ops[0]
    return np.transpose(a, [la.index(l) for l in output]) if output else a


def reference(tn, output=()):
    """(value incl. the stored exponent, a-priori magnitude) by numpy.einsum."""
    arrs = [(np.asarray(a, dtype=np.complex128), i) for a, i in tn_tensors(tn)]
    v = net_value(arrs, tuple(output))
    mag = 1.0
    for a, _ in arrs:
        mag *= max(float(np.linalg.norm(a.ravel())), 1e-300)
    s = 10.0 ** float(np.real(tn.exponent))
    return np.asarray(v) * s, mag * s


def denote(res, output=()):
    """Value of whatever a scheme returned: scalar, (mantissa, exponent), Tensor or TensorNetwork."""
    qtn = Q()
    expo = 0.0
    if isinstance(res, tuple):
        if len(res) != 2:
            raise Violation("strip-exponent-shape", got=repr(type(res)))
        res, expo = res
        expo = float(np.real(expo))
    if isinstance(res, qtn.TensorNetwork):
        v = net_value([(np.asarray(a, dtype=np.complex128), i) for a, i in tn_tensors(res)], tuple(output))
        return np.asarray(v) * 10.0 ** (float(np.real(res.exponent)) + expo)
    if isinstance(res, qtn.Tensor):
        if set(res.inds) != set(output):
            raise Violation("output-labels", got=list(res.inds), want=list(output))
        return np.asarray(res.transpose(*output).data if output else res.data) * 10.0 ** expo
    if res is None:
        raise Violation("returned-none")
    return np.asarray(res) * 10.0 ** expo


def check_value(got, ref, mag, **info):
    e = rel_err(np.asarray(got, dtype=np.complex128), np.asarray(ref, dtype=np.complex128), floor=mag)
    if not (e <= TOL):
        raise Violation("value", err=e, **info)
    return e


def lat_classes(lat):
    c = [f"{lat['Lx']}x{lat['Ly']}" + (f"x{lat['Lz']}" if lat.get("Lz") else ""), f"D={lat['D']}", lat["dtype"], lat["kind"]]
    if lat.get("cx") or lat.get("cy") or lat.get("cz"):
        c.append("cyclic=" + "".join(d for d in "xyz" if lat.get("c" + d)))
    if lat.get("layers", 1) == 2:
        c.append("layered" + ("-overlap" if lat.get("bra_seed") is not None else "-norm"))
    if lat.get("exponent"):
        c.append("exp0!=0")
    return c


def lat_nontrivial(lat, ndirs=1):
    if lat["D"] < 2:
        return False
    return min(lat["Lx"], lat["Ly"]) >= 3 or lat.get("layers", 1) == 2 or ndirs >= 2


def will_sweep(lat, dirs, opts, default=None):
    """Classification only: does at least one inward step happen (some requested side is further than
    max_separation from its opposite side)?  `dirs` None = the default of the code."""
    ms = int(opts.get("max_separation", 1))
    L = {"x": lat["Lx"], "y": lat["Ly"], "z": lat.get("Lz", 1)}
    sep = {d: int(opts.get(d + "max", L[d] - 1)) - int(opts.get(d + "min", 0)) for d in "xyz"}
    if dirs is None:
        dirs = default if default is not None else (["xmin", "xmax"] if lat["Lx"] >= lat["Ly"] else ["ymin", "ymax"])
    return any(sep[d[0]] > ms for d in dirs)


# ---------------------------------------------------------------------------
# (a) 2D boundary contraction: exactness, one sub-check per boundary mode
# ---------------------------------------------------------------------------

DIRS2 = ["xmin", "xmax", "ymin", "ymax"]
SHORT2 = {"xmin": "b", "xmax": "t", "ymin": "l", "ymax": "r"}

# modes of contract_boundary (read from contract_boundary_from / tensor_network_1d_compress / tensor_network_ag_compress)
MODES_1D = ["direct", "dm", "zipup", "zipup-first", "zipup-oversample", "sdc", "sdc-oversample", "src", "src-first",
            "src-oversample", "srcmps", "srcmps-first", "srcmps-oversample", "fit", "fit-zipup", "fit-projector",
            "fit-oversample"]
MODES_AG = ["local-early", "local-late", "projector", "su", "superorthogonal", "l2bp"]
MODES_2D = ["mps", "full-bond", "projector2d"]
CTMRG_MODES = ["projector"]
# belief-propagation / simple-update flavoured modes are exact only while every boundary tensor keeps a dangling
# index (DESIGN S note): a sweep that swallows the last plane leaves a closed, loopy 2D network.  On a loopy boundary
# (3D planes, periodic 2D rows) they divide by bond weights whose spread sets the round-off (1e-10 seen with the nearly
# rank-one 'shifted' tensors, 1e-15 with gaussian ones): such cases get gaussian tensors.
BP_MODES = ("l2bp3d", "l2bp", "su", "superorthogonal")


def condition_for(mode, lat):
    if mode in BP_MODES and (lat.get("cx") or lat.get("cy")):
        lat["kind"] = "gauss"
    if mode in BP_MODES + ("projector",) and lat.get("layers", 1) == 2 and lat.get("phys") == 1:
        # a bra/ket pair joined by size-1 physical indices is a product of two independent networks: merged boundary
        # bonds are then *exactly* rank deficient (singular values 0.0, not 1e-17), and the simple-update gauging these
        # modes do with their default smudge=0.0 divides by them (inf -> LinAlgError 'Array must not contain infs or
        # NaNs').  `smudge` is the documented remedy; the degenerate product structure is kept out of these modes.
        lat["phys"] = 2
    return lat
SEEDED = {"src", "src-first", "src-oversample", "srcmps", "srcmps-first", "srcmps-oversample", "fit", "fit-zipup",
          "fit-projector", "fit-oversample"}
# modes that allocate sketches / guesses of size max_bond: keep the exact bond small
HEAVY = SEEDED | {"full-bond", "sdc", "sdc-oversample", "dm"}  # ('dm' works with squared bonds)

# sub-check name -> mode names drawn inside it (aliases share one sub-check)
B2D_GROUPS = {
    "mps": ["mps"], "full-bond": ["full-bond"], "projector2d": ["projector2d"],
    "direct": ["direct"], "dm": ["dm"], "zipup": ["zipup"], "zipup-oversample": ["zipup-first", "zipup-oversample"],
    "sdc": ["sdc"], "sdc-oversample": ["sdc-oversample"], "src": ["src"], "src-oversample": ["src-first", "src-oversample"],
    "srcmps": ["srcmps"], "srcmps-oversample": ["srcmps-first", "srcmps-oversample"],
    "fit": ["fit"], "fit-guess": ["fit-zipup", "fit-projector"], "fit-oversample": ["fit-oversample"],
    "local-early": ["local-early"], "local-late": ["local-late"], "projector": ["projector"],
    "superorthogonal": ["su", "superorthogonal"], "l2bp": ["l2bp"],
}


@st.composite
def s_sequence2d(draw, allow_none=True):
    k = draw(st.integers(0 if allow_none else 1, 4))
    if k == 0:
        return None
    seq = draw(st.permutations(DIRS2))[:k]
    form = draw(st.integers(0, 5))
    if form == 0:
        return "".join(SHORT2[d] for d in seq)  # documented short codes 'b','t','l','r'
    if form == 1 and k == 1:
        return seq[0]  # a bare direction name
    return list(seq)


def seq_dirs(seq, lat=None):
    """The directions a sequence argument stands for (None -> the default of the code, one or two sides)."""
    if seq is None:
        return None
    if isinstance(seq, str):
        if seq in DIRS2:
            return [seq]
        inv = {v: k for k, v in SHORT2.items()}
        return [inv[c] for c in seq]
    return list(seq)


def make_it_sweep(lat, seq, opts, default=None):
    """Generator repair (construct, don't filter): if the drawn combination would not perform a single inward step,
    drop what prevents it -- first the start borders and max_separation, then the drawn sequence (the default sequence
    sweeps along the longest side).  Returns the (possibly replaced) sequence."""
    dirs = seq_dirs(seq)
    if will_sweep(lat, dirs, opts, default):
        return seq
    for k in ("xmin", "xmax", "ymin", "ymax", "zmin", "zmax", "max_separation"):
        opts.pop(k, None)
    if will_sweep(lat, dirs, opts, default):
        return seq
    return None


@st.composite
def s_boundary_opts(draw, mode, lat):
    """Option set accepted by `mode` (every name below is a parameter of the code path that mode takes)."""
    o = {}
    if draw(st.booleans()):
        o["canonize"] = draw(st.booleans())
    if mode == "projector" and draw(st.integers(0, 2)) == 0:
        # the arbitrary-geometry projector compressor also takes 'bp' and, for genuinely layered networks, 'layered'
        o["canonize"] = "layered" if lat.get("layers", 1) == 2 and draw(st.booleans()) else "bp"
    if mode == "full-bond":
        # equalize_norms (also implied by strip_exponent) is refused by this mode: keep ~1/10 of the accepted rejection
        k = draw(st.sampled_from(["plain"] * 12 + ["eq_false"] * 4 + ["strip", "eq_true"]))  # (head of the list is favoured)
        if k == "strip":
            o["strip_exponent"] = True
        elif k == "eq_true":
            o["equalize_norms"] = draw(st.sampled_from([True, 1.0]))
        elif k == "eq_false":
            o["equalize_norms"] = False
    else:
        en = draw(st.sampled_from(["auto", "auto", False, True, 1.0]))
        if en != "auto":
            o["equalize_norms"] = en
        if draw(st.integers(0, 2)) == 0:
            o["strip_exponent"] = True
    if mode == "mps":
        if draw(st.booleans()):
            o["compress_late"] = draw(st.booleans())
        if draw(st.integers(0, 2)) == 0:
            o["compress_opts"] = draw(st.sampled_from([{"absorb": "both"}, {"absorb": "left"}, {"absorb": "right"}]))
    if mode in ("mps",) or mode in MODES_1D:
        if draw(st.integers(0, 2)) == 0:
            o["sweep_reverse"] = True
    if lat.get("layers", 1) == 2 and mode not in ("full-bond", "projector2d") and draw(st.booleans()):
        o["layer_tags"] = draw(st.sampled_from([["KET", "BRA"], ["BRA", "KET"]]))
    if mode == "projector2d" and draw(st.integers(0, 3)) == 0:
        o["lazy"] = True
    if mode == "full-bond" and draw(st.integers(0, 2)) == 0:
        o["method"] = draw(st.sampled_from(["eigh", "eig", "svd", "biorthog"]))
    ms = draw(st.sampled_from([1, 1, 1, 2, 3]))
    if ms != 1:
        o["max_separation"] = ms
    mu = draw(st.sampled_from([1, 1, 1, 0, 2]))
    if mu != 1:
        o["max_unfinished"] = mu
    if draw(st.integers(0, 5)) == 0:
        # explicit starting borders (rows/columns outside are left for the final exact contraction)
        which = draw(st.sampled_from(["xmin", "ymin", "xmax", "ymax"]))
        L = lat["Lx"] if which[0] == "x" else lat["Ly"]
        # keep >= 2 rows and columns inside the borders: a one-site boundary has no bond to compress and the 1D
        # compressors (all but 'direct') do not accept a single-site network
        off = draw(st.integers(0, 1)) if L >= 3 else 0
        o[which] = off if which.endswith("min") else L - 1 - off
    return o


def s_b2d(group):
    modes = B2D_GROUPS[group]

    @st.composite
    def strat(draw, tier):
        mode = draw(st.sampled_from(modes))
        heavy = mode in HEAVY
        max_chi = (64 if tier == "quick" else 256) if heavy else (256 if tier == "quick" else 729)
        lat = condition_for(mode, draw(s_lattice2d(tier, max_chi=max_chi, allow_cyclic=True)))
        case = {"lat": lat, "mode": mode, "sequence": draw(s_sequence2d()), "opts": draw(s_boundary_opts(mode, lat)),
                "final_contract": draw(st.sampled_from([True, True, False])), "inplace": draw(st.sampled_from([False, False, True])),
                "chi_extra": draw(st.sampled_from([0, 0, 1, 5])), "max_bond_none": False}
        case["sequence"] = make_it_sweep(lat, case["sequence"], case["opts"])
        if mode in SEEDED:
            case["seed"] = draw(st.integers(0, 2**31 - 1))
        if mode in ("mps", "projector2d") and draw(st.integers(0, 4)) == 0:
            case["max_bond_none"] = True  # documented default: None leaves truncation to the cutoff alone
        return case

    return lambda tier: strat(tier)


def accepted_refusals(mode):
    """Exception types a boundary call may raise before returning anything without breaking the property:
    NotImplementedError ('full-bond' + equalize_norms, 'peps' on periodic 3D lattices) and, for the density-matrix
    compressor only, numba's TypingError: 'dm' cannot start its sweep on a boundary site that has no open index (a corner
    of a patch whose rows are all merged) -- np.trace of a 0-d array inside a jitted kernel (DESIGN 2.5 lists both)."""
    types = [NotImplementedError]
    if mode == "dm":
        from numba.core.errors import TypingError

        types.append(TypingError)
    return tuple(types)


def boundary_kwargs(case):
    kw = dict(case["opts"])
    if kw.get("layer_tags") is not None:
        kw["layer_tags"] = tuple(kw["layer_tags"])
    if "seed" in case:
        kw["seed"] = int(case["seed"])
    return kw


def run_b2d(case):
    lat, mode = case["lat"], case["mode"]
    tn = build2d(lat)
    ref, mag = reference(tn)
    chi = None if case.get("max_bond_none") else chi_exact(lat) + int(case["chi_extra"])
    kw = boundary_kwargs(case)
    with rejecting(*accepted_refusals(mode), tag="unsupported:"):
        res = tn.contract_boundary(max_bond=chi, cutoff=0.0, mode=mode, sequence=case["sequence"],
                                   final_contract=case["final_contract"], inplace=case["inplace"], **kw)
    got = denote(res)
    dirs = seq_dirs(case["sequence"])
    nd = 2 if dirs is None else len(dirs)
    info = dict(mode=mode, cyclic=bool(lat.get("cx") or lat.get("cy")), layered=lat.get("layers", 1) == 2,
                strip=bool(kw.get("strip_exponent")), equalize=repr(kw.get("equalize_norms", "auto")),
                final=bool(case["final_contract"]))
    e = check_value(got, ref, mag, **info)
    if case["inplace"] and not case["final_contract"] and res is not tn:
        raise Violation("inplace-new-object", mode=mode)
    cls = lat_classes(lat) + ["mode=" + mode, "ndirs=%d" % nd] + ["opt:" + k for k in sorted(kw) if k != "seed"]
    cls.append("final" if case["final_contract"] else "network")
    if chi is None:
        cls.append("max_bond=None")
    swept = will_sweep(lat, dirs, kw)
    cls.append("swept" if swept else "no-step")
    return {"nt": lat_nontrivial(lat, nd) and swept, "cls": cls, "err": e}



# ---------------------------------------------------------------------------
# geometry of a partially contracted lattice, read from the site tags only
# ---------------------------------------------------------------------------

def site_coords(t, ndim=2):
    """Coordinates of the original sites merged into tensor `t` (contractions keep the union of the tags)."""
    out = set()
    for tag in t.tags:
        if tag.startswith("I") and "," in tag:
            try:
                c = tuple(int(x) for x in tag[1:].split(","))
            except ValueError:
                continue
            if len(c) == ndim:
                out.add(c)
    return out


def bond_size(ta, tb):
    n = 1
    for ix in ta.inds:
        if ix in tb.inds:
            n *= ta.ind_size(ix)
    return n


def shares_bond(ta, tb):
    return any(ix in tb.inds for ix in ta.inds)


def boundary_line_bonds(tn, ndim=2, wrap_dims=None):
    """Bonds that lie *along* a boundary: pairs of adjacent tensors that both hold >= 2 original sites in the direction
    perpendicular to the bond and exactly the same extent in every other direction (so they were produced by the same
    inward sweeps).  Returns [(size, coordsA, coordsB, wrapped)].  Bonds between a boundary and the bulk / the opposite
    boundary (never compressed) are not listed.  `wrap_dims` = {axis: L} for periodic directions: the bond closing the
    ring of a periodic boundary is listed too (wrapped=True)."""
    ts = [(t, site_coords(t, ndim)) for t in tn]
    ts = [(t, c) for t, c in ts if c]
    out = []
    for a in range(len(ts)):
        ta, ca = ts[a]
        if len(ca) < 2:
            continue
        for b in range(a + 1, len(ts)):
            tb, cb = ts[b]
            if len(cb) < 2 or not shares_bond(ta, tb):
                continue
            exts_a = [sorted({c[d] for c in ca}) for d in range(ndim)]
            exts_b = [sorted({c[d] for c in cb}) for d in range(ndim)]
            diff = [d for d in range(ndim) if exts_a[d] != exts_b[d]]
            if len(diff) != 1:
                continue
            d = diff[0]
            # adjacent along d (directly, or across the periodic seam), identical elsewhere, and thick (>= 2 merged
            # sites) in some other direction
            direct = exts_a[d][-1] + 1 == exts_b[d][0] or exts_b[d][-1] + 1 == exts_a[d][0]
            wrapped = False
            if not direct and wrap_dims and d in wrap_dims:
                L = wrap_dims[d]
                wrapped = (exts_a[d][-1] == L - 1 and exts_b[d][0] == 0) or (exts_b[d][-1] == L - 1 and exts_a[d][0] == 0)
            if not (direct or wrapped):
                continue
            if max(len(exts_a[k]) for k in range(ndim) if k != d) < 2:
                continue
            out.append((bond_size(ta, tb), sorted(ca), sorted(cb), wrapped))
    return out


def check_cap(tn, chi, ndim=2, wrap_dims=None, **info):
    bonds = boundary_line_bonds(tn, ndim, wrap_dims)
    worst = 0
    # (direct neighbours first, so that a violation on the seam is reported as such only when everything else holds)
    for size, ca, cb, wrapped in sorted(bonds, key=lambda b: b[3]):
        worst = max(worst, size)
        if size > chi:
            raise Violation("bond-cap", size=int(size), cap=int(chi), **(dict(info, wrap=True) if wrap_dims is not None and wrapped
                                                                        else dict(info, wrap=False) if wrap_dims is not None else info))
    return len(bonds), worst


# ---------------------------------------------------------------------------
# single-side sweeps over a rectangular patch: contract_boundary_from[_xmin|_xmax|_ymin|_ymax]
# ---------------------------------------------------------------------------

ALL_GROUP_MODES = [m for ms in B2D_GROUPS.values() for m in ms]
LIGHT_MODES = [m for m in ALL_GROUP_MODES if m not in HEAVY]
# pool for the sub-checks that are about an entry point rather than a mode: the three native 2D modes (the default
# 'mps' above all) are weighted up, every other mode name appears once
MODE_POOL = ["mps"] * 6 + ["full-bond"] * 2 + ["projector2d"] * 2 + [m for m in ALL_GROUP_MODES if m not in MODES_2D]
CAP_GROUPS = {"mps": ["mps"], "full-bond": ["full-bond"], "projector2d": ["projector2d"], "via1d": MODES_1D, "viaag": MODES_AG}


@st.composite
def s_mode_lat(draw, tier, modes=None, binding=False, **latkw):
    mode = draw(st.sampled_from(modes or MODE_POOL))
    heavy = mode in HEAVY
    max_chi = (64 if tier == "quick" else 256) if heavy else (256 if tier == "quick" else 729)
    lat = condition_for(mode, draw(s_lattice2d(tier, max_chi=max_chi, **latkw)))
    return mode, lat


@st.composite
def s_side_opts(draw, mode, lat):
    o = {}
    if draw(st.booleans()):
        o["canonize"] = draw(st.booleans())
    if mode != "full-bond" and draw(st.integers(0, 2)) == 0:
        o["equalize_norms"] = draw(st.sampled_from([True, 1.0, False]))
    if mode == "mps" and draw(st.booleans()):
        o["compress_late"] = draw(st.booleans())
    if (mode == "mps" or mode in MODES_1D) and draw(st.integers(0, 2)) == 0:
        o["sweep_reverse"] = True
    if lat.get("layers", 1) == 2 and mode not in ("full-bond", "projector2d") and draw(st.booleans()):
        o["layer_tags"] = draw(st.sampled_from([["KET", "BRA"], ["BRA", "KET"]]))
    return o


@st.composite
def s_patch(draw, lat, from_which):
    """(xrange, yrange): >= 2 rows along the sweep and >= 2 sites across it; None = everything.  The patch never is the
    whole lattice: swallowing the last row of everything leaves a boundary without any open index (see ASSUMPTIONS)."""
    Lx, Ly = lat["Lx"], lat["Ly"]

    def rng(L, allow_none, strict=False):
        if allow_none and not strict and draw(st.booleans()):
            return None
        a = draw(st.integers(0, L - 2))
        b = draw(st.integers(a + 1, L - 1))
        if strict and (a, b) == (0, L - 1):
            a, b = (a + 1, b) if draw(st.booleans()) else (a, b - 1)
        return [a, b]

    Ls, Lo = (Lx, Ly) if from_which[0] == "x" else (Ly, Lx)
    if Ls >= 3:
        along, across = rng(Ls, False, strict=True), rng(Lo, True)
    elif Lo >= 3:
        along, across = [0, 1], rng(Lo, True, strict=True)
    else:
        along, across = [0, 1], None  # 2x2: the whole lattice (rejected by the runs)
    return (along, across) if from_which[0] == "x" else (across, along)


def whole_lattice(case, lat):
    xr = case["xrange"] if case.get("xrange") is not None else [0, lat["Lx"] - 1]
    yr = case["yrange"] if case.get("yrange") is not None else [0, lat["Ly"] - 1]
    return abs(xr[1] - xr[0]) + 1 == lat["Lx"] and abs(yr[1] - yr[0]) + 1 == lat["Ly"]


@st.composite
def s_flip(draw, rng):
    """Ranges are accepted in either order (Rotator2D / gen_pairs sort them): hand over a descending one now and then."""
    if rng is not None and draw(st.integers(0, 3)) == 0:
        return [rng[1], rng[0]]
    return rng


def descending(case):
    return any(r is not None and r[0] > r[1] for r in (case.get("xrange"), case.get("yrange"), case.get("zrange")))


@st.composite
def s_from_side(draw, tier):
    mode, lat = draw(s_mode_lat(tier))
    fw = draw(st.sampled_from(DIRS2))
    xr, yr = draw(s_patch(lat, fw))
    xr, yr = draw(s_flip(xr)), draw(s_flip(yr))
    case = {"lat": lat, "mode": mode, "from_which": fw, "xrange": xr, "yrange": yr, "opts": draw(s_side_opts(mode, lat)),
            "spelling": draw(st.sampled_from(["named", "named", "named_", "generic", "generic_"])),
            "chi_extra": draw(st.sampled_from([0, 0, 3]))}
    if mode in SEEDED:
        case["seed"] = draw(st.integers(0, 2**31 - 1))
    return case


def call_from_side(tn, case, max_bond, cutoff):
    kw = boundary_kwargs(case)
    fw = case["from_which"]
    xr = tuple(case["xrange"]) if case["xrange"] is not None else None
    yr = tuple(case["yrange"]) if case["yrange"] is not None else None
    sp = case["spelling"]
    if sp.startswith("generic"):
        fn = tn.contract_boundary_from_ if sp.endswith("_") else tn.contract_boundary_from
        return fn(xrange=xr, yrange=yr, from_which=fw, max_bond=max_bond, cutoff=cutoff, mode=case["mode"], **kw)
    fn = getattr(tn, "contract_boundary_from_" + fw + ("_" if sp.endswith("_") else ""))
    if fw[0] == "x":
        return fn(xr, yrange=yr, max_bond=max_bond, cutoff=cutoff, mode=case["mode"], **kw)
    return fn(yr, xrange=xr, max_bond=max_bond, cutoff=cutoff, mode=case["mode"], **kw)


def check_handover(res, case, lat, **info):
    """After a one-sided sweep (not lazy) the rows of the patch are merged: exactly one tensor per column of the patch,
    holding that column's sites of every swept row (the pictures of the docstrings)."""
    fw = case["from_which"]
    Lx, Ly = lat["Lx"], lat["Ly"]
    xr = case["xrange"] if case["xrange"] is not None else [0, Lx - 1]
    yr = case["yrange"] if case["yrange"] is not None else [0, Ly - 1]
    rows = range(min(xr), max(xr) + 1)
    cols = range(min(yr), max(yr) + 1)
    lines = [[(i, j) for i in rows] for j in cols] if fw[0] == "x" else [[(i, j) for j in cols] for i in rows]
    blobs = [site_coords(t) for t in res]
    for line in lines:
        want = set(line)
        hits = [b for b in blobs if b & want]
        if len(hits) != 1 or hits[0] != want:
            raise Violation("handover-structure", pieces=len(hits), **info)


def swept_rows(case, lat):
    r = case["xrange"] if case["from_which"][0] == "x" else case["yrange"]
    return abs(r[1] - r[0]) + 1


def run_from_side(case):
    lat, mode = case["lat"], case["mode"]
    if whole_lattice(case, lat):
        raise Reject("patch is the whole lattice (closed boundary)")
    tn = build2d(lat)
    ref, mag = reference(tn)
    chi = max(chi_exact(lat), chi_rows(lat, swept_rows(case, lat))) + int(case["chi_extra"])
    with rejecting(*accepted_refusals(mode), tag="unsupported:"):
        res = call_from_side(tn, case, chi, 0.0)
    if not isinstance(res, Q().TensorNetwork):
        raise Violation("returned-none" if res is None else "not-a-network", mode=mode, spelling=case["spelling"])
    if case["spelling"].endswith("_") and res is not tn:
        raise Violation("inplace-new-object", mode=mode)
    e = check_value(denote(res), ref, mag, mode=mode, entry="from_side", from_which=case["from_which"],
                    equalize=repr(case["opts"].get("equalize_norms", False)), layered=lat.get("layers", 1) == 2)
    # the swept rows are now one tensor per column of the patch
    check_handover(res, case, lat, mode=mode, entry="from_side", from_which=case["from_which"], layered=lat.get("layers", 1) == 2)
    n = swept_rows(case, lat)
    cls = lat_classes(lat) + ["mode=" + mode, "from=" + case["from_which"], "rows=%d" % n, "spell=" + case["spelling"]]
    cls += ["opt:" + k for k in sorted(case["opts"])]
    cls.append("patch" if (case["xrange"] is not None and case["yrange"] is not None) else "full-width")
    return {"nt": lat["D"] >= 2 and (n >= 3 or lat.get("layers", 1) == 2 or min(lat["Lx"], lat["Ly"]) >= 3), "cls": cls, "err": e}


# ---------------------------------------------------------------------------
# contract_mps_sweep
# ---------------------------------------------------------------------------

@st.composite
def s_mps_sweep(draw, tier):
    mode, lat = draw(s_mode_lat(tier, modes=["mps", "mps", "mps"] + LIGHT_MODES))
    o = draw(s_side_opts(mode, lat))
    if draw(st.integers(0, 2)) == 0 and mode != "full-bond":
        o["strip_exponent"] = True
    case = {"lat": lat, "mode": mode, "direction": draw(st.sampled_from([None] + DIRS2)), "opts": o,
            "spelling": draw(st.sampled_from(["plain", "plain", "inplace"]))}
    if mode in SEEDED:
        case["seed"] = draw(st.integers(0, 2**31 - 1))
    return case


def run_mps_sweep(case):
    lat, mode = case["lat"], case["mode"]
    tn = build2d(lat)
    ref, mag = reference(tn)
    kw = boundary_kwargs(case)
    fn = tn.contract_mps_sweep_ if case["spelling"] == "inplace" else tn.contract_mps_sweep
    with rejecting(*accepted_refusals(mode), tag="unsupported:"):
        res = fn(chi_exact(lat), cutoff=0.0, direction=case["direction"], mode=mode, **kw)
    e = check_value(denote(res), ref, mag, mode=mode, entry="mps_sweep", strip=bool(kw.get("strip_exponent")),
                    equalize=repr(kw.get("equalize_norms", "auto")))
    return {"nt": lat_nontrivial(lat, 1), "cls": lat_classes(lat) + ["mode=" + mode, "dir=%s" % case["direction"]] +
            ["opt:" + k for k in sorted(case["opts"])], "err": e}


# ---------------------------------------------------------------------------
# contraction around a region (contract_boundary / contract_ctmrg with around=...)
# ---------------------------------------------------------------------------

@st.composite
def s_around(draw, tier):
    entry = draw(st.sampled_from(["boundary", "boundary", "ctmrg"]))
    modes = MODE_POOL if entry == "boundary" else CTMRG_MODES
    mode = draw(st.sampled_from(modes))
    heavy = mode in HEAVY
    lat = condition_for(mode, draw(s_lattice2d(tier, max_chi=(64 if heavy else 256) if tier == "quick" else (256 if heavy else 729),
                                               min_L=3, allow_cyclic=False)))
    k = draw(st.integers(1, 2))
    around = [[draw(st.integers(0, lat["Lx"] - 1)), draw(st.integers(0, lat["Ly"] - 1))] for _ in range(k)]
    o = {}
    if draw(st.booleans()):
        o["canonize"] = draw(st.booleans())
    if mode != "full-bond" and draw(st.integers(0, 2)) == 0:
        o["equalize_norms"] = draw(st.sampled_from([True, 1.0, False]))
    if lat.get("layers", 1) == 2 and entry == "boundary" and mode not in ("full-bond", "projector2d") and draw(st.booleans()):
        o["layer_tags"] = ["KET", "BRA"]
    seq = draw(st.sampled_from([None, None, "perm"]))
    if seq == "perm":
        seq = list(draw(st.permutations(DIRS2)))
    case = {"lat": lat, "mode": mode, "entry": entry, "around": around, "sequence": seq, "opts": o,
            "inplace": draw(st.booleans()), "binding": draw(st.booleans()), "chi_frac": draw(st.floats(0.0, 1.0))}
    if mode in SEEDED:
        case["seed"] = draw(st.integers(0, 2**31 - 1))
    return case


def run_around(case):
    lat, mode = case["lat"], case["mode"]
    qtn = Q()
    tn = build2d(lat)
    ref, mag = reference(tn)
    kw = boundary_kwargs(case)
    around = [tuple(c) for c in case["around"]]
    exact = chi_exact(lat)
    binding = bool(case["binding"]) and dlayer(lat) >= 2 and not kw.get("lazy")
    chi = max(1, min(exact - 1, int(1 + case["chi_frac"] * (exact - 1)))) if binding else exact
    cutoff = 1e-10 if binding else 0.0
    seq = case["sequence"]
    with rejecting(*accepted_refusals(mode), tag="unsupported:"):
        if case["entry"] == "boundary":
            res = tn.contract_boundary(max_bond=chi, cutoff=cutoff, mode=mode, around=around, sequence=seq,
                                       inplace=case["inplace"], **kw)
        else:
            res = tn.contract_ctmrg(max_bond=chi, cutoff=cutoff, mode=mode, around=around, sequence=seq,
                                    inplace=case["inplace"], **kw)
    if not isinstance(res, qtn.TensorNetwork):
        raise Violation("not-a-network", entry=case["entry"], mode=mode)
    # documented: the square of sites bounding `around` is not contracted
    i0, i1 = min(c[0] for c in around), max(c[0] for c in around)
    j0, j1 = min(c[1] for c in around), max(c[1] for c in around)
    nl = lat.get("layers", 1)
    for i in range(i0, i1 + 1):
        for j in range(j0, j1 + 1):
            ts = res.select_tensors(res.site_tag(i, j))
            if len(ts) != nl or any(len(site_coords(t)) != 1 for t in ts):
                raise Violation("around-region-touched", site=[i, j], entry=case["entry"], mode=mode)
    e = 0.0
    nb = 0
    if binding:
        nb, worst = check_cap(res, chi, entry="around:" + case["entry"], mode=mode)
    else:
        e = check_value(denote(res), ref, mag, mode=mode, entry="around:" + case["entry"],
                        equalize=repr(kw.get("equalize_norms", False)))
    cls = lat_classes(lat) + ["mode=" + mode, "entry=" + case["entry"], "binding" if binding else "exact",
                              "seq=" + ("default" if seq is None else "perm")] + ["opt:" + k for k in sorted(case["opts"])]
    if binding:
        cls.append("capbonds=%d" % min(nb, 9))
    return {"nt": lat["D"] >= 2 and (not binding or nb > 0), "cls": cls, "err": e}


# ---------------------------------------------------------------------------
# (b) bond cap on the lattice schemes
# ---------------------------------------------------------------------------

def binding_chi(frac, exact):
    """A cap strictly below the exact bond `exact` (>= 2)."""
    return max(1, min(exact - 1, int(1 + frac * (exact - 1))))


@st.composite
def s_cap_side(draw, tier, modes=None):
    # (the bond-environment code of 'full-bond' cuts exactly one bond between neighbouring boundary sites: once it really
    # truncates it does not support a periodic boundary -> open lattices for that mode)
    mode, lat = draw(s_mode_lat(tier, modes=modes, allow_cyclic=modes != ["full-bond"], min_D=2))
    if mode == "full-bond" and (lat.get("cx") or lat.get("cy")):
        lat["cx"] = lat["cy"] = False
    fw = draw(st.sampled_from(DIRS2))
    xr, yr = draw(s_patch(lat, fw))
    xr, yr = draw(s_flip(xr)), draw(s_flip(yr))
    o = draw(s_side_opts(mode, lat))
    case = {"lat": lat, "mode": mode, "from_which": fw, "xrange": xr, "yrange": yr, "opts": o,
            "spelling": draw(st.sampled_from(["named", "named_", "generic_"])), "chi_frac": draw(st.floats(0.0, 1.0)),
            "cutoff": draw(st.sampled_from([0.0, 1e-10, 1e-3]))}
    if mode in SEEDED:
        case["seed"] = draw(st.integers(0, 2**31 - 1))
    return case


def run_cap_side(case):
    lat, mode = case["lat"], case["mode"]
    if whole_lattice(case, lat):
        raise Reject("patch is the whole lattice (closed boundary)")
    tn = build2d(lat)
    n = swept_rows(case, lat)
    exact = dlayer(lat) ** n  # bond between neighbouring columns of the merged rows
    chi = binding_chi(case["chi_frac"], exact)
    with rejecting(*accepted_refusals(mode), tag="unsupported:"):
        res = call_from_side(tn, case, chi, float(case["cutoff"]))
    if not isinstance(res, Q().TensorNetwork):
        raise Violation("returned-none" if res is None else "not-a-network", mode=mode, spelling=case["spelling"])
    # the handed-over boundary: the line of merged tensors at the far end of the sweep, inside the patch
    wrap_dims = {d: L for d, L, c in ((0, lat["Lx"], lat.get("cx")), (1, lat["Ly"], lat.get("cy"))) if c}
    nb, worst = check_cap(res, chi, wrap_dims=wrap_dims, entry="from_side", mode=mode, from_which=case["from_which"],
                          layered=lat.get("layers", 1) == 2, cyclic=bool(lat.get("cx") or lat.get("cy")),
                          descending=descending(case))
    if nb == 0:
        raise Violation("no-boundary-found", mode=mode)  # the sweep must have merged the rows of the patch
    check_handover(res, case, lat, mode=mode, entry="from_side", from_which=case["from_which"], layered=lat.get("layers", 1) == 2)
    cls = lat_classes(lat) + ["mode=" + mode, "from=" + case["from_which"], "rows=%d" % n, "chi/exact=%.1f" % (round(4 * chi / exact) / 4),
                              "cutoff=%g" % case["cutoff"], "saturated" if worst == chi else "below"]
    cls += ["opt:" + k for k in sorted(case["opts"])] + (["descending-range"] if descending(case) else [])
    return {"nt": True, "cls": cls, "err": 0.0}


@st.composite
def s_cap_boundary(draw, tier, modes=None):
    mode, lat = draw(s_mode_lat(tier, modes=modes, allow_cyclic=False, min_D=2))
    o = draw(s_boundary_opts(mode, lat))
    for k in ("strip_exponent", "lazy"):
        o.pop(k, None)
    case = {"lat": lat, "mode": mode, "sequence": draw(s_sequence2d()), "opts": o, "inplace": draw(st.booleans()),
            "chi_frac": draw(st.floats(0.0, 1.0)), "cutoff": draw(st.sampled_from([0.0, 1e-10, 1e-3])),
            "entry": "ctmrg" if mode in CTMRG_MODES and draw(st.booleans()) else "boundary"}
    if mode in SEEDED:
        case["seed"] = draw(st.integers(0, 2**31 - 1))
    case["sequence"] = make_it_sweep(lat, case["sequence"], case["opts"], default=DIRS2 if case["entry"] == "ctmrg" else None)
    return case


def s_cap2d(group):
    modes = CAP_GROUPS[group]

    @st.composite
    def strat(draw, tier):
        if draw(st.booleans()):
            return {"kind": "side", "case": draw(s_cap_side(tier, modes=modes))}
        return {"kind": "boundary", "case": draw(s_cap_boundary(tier, modes=modes))}

    return lambda tier: strat(tier)


def run_cap2d(case):
    out = run_cap_side(case["case"]) if case["kind"] == "side" else run_cap_boundary(case["case"])
    out["cls"] = ["kind=" + case["kind"]] + list(out["cls"])
    return out


def run_cap_boundary(case):
    lat, mode = case["lat"], case["mode"]
    tn = build2d(lat)
    kw = boundary_kwargs(case)
    if case["entry"] == "ctmrg":
        for k in ("compress_late", "sweep_reverse", "layer_tags", "max_unfinished", "compress_opts"):
            kw.pop(k, None)
    exact = dlayer(lat) ** 2
    chi = binding_chi(case["chi_frac"], exact)
    fn = tn.contract_boundary if case["entry"] == "boundary" else tn.contract_ctmrg
    with rejecting(*accepted_refusals(mode), tag="unsupported:"):
        res = fn(max_bond=chi, cutoff=float(case["cutoff"]), mode=mode, sequence=case["sequence"], final_contract=False,
                 inplace=case["inplace"], **kw)
    if not isinstance(res, Q().TensorNetwork):
        raise Violation("not-a-network", mode=mode)
    nb, worst = check_cap(res, chi, entry=case["entry"], mode=mode, layered=lat.get("layers", 1) == 2,
                          early=kw.get("compress_late") is False)
    dirs = seq_dirs(case["sequence"])
    cls = lat_classes(lat) + ["mode=" + mode, "entry=" + case["entry"], "ndirs=%d" % (2 if dirs is None else len(dirs)),
                              "capbonds=%d" % min(nb, 9), "saturated" if worst == chi else "below", "cutoff=%g" % case["cutoff"]]
    cls += ["opt:" + k for k in sorted(kw) if k != "seed"]
    return {"nt": nb > 0, "cls": cls, "err": 0.0}



# ---------------------------------------------------------------------------
# (c) environments
# ---------------------------------------------------------------------------

ENV_MODES = ["mps", "mps", "mps", "full-bond", "projector2d", "direct", "dm", "zipup", "fit", "src", "local-early",
             "local-late", "projector", "su", "l2bp"]


def complement_of(tn0, env, ndim=2):
    """The part of the lattice an environment excludes: every original tensor whose site is not among the sites merged
    into `env` (read from the site tags the environment tensors carry)."""
    absorbed = set()
    for t in env:
        absorbed |= site_coords(t, ndim)
    return [t for t in tn0 if not (site_coords(t, ndim) & absorbed)], absorbed


def env_value(tn0, parts, exponent0):
    """einsum of environment network(s) + the listed original tensors; exponents of the environments add, and -- as
    the docstring of compute_environments says -- the exponent the lattice had before is not in them."""
    arrs = []
    expo = float(exponent0)
    for p in parts:
        if hasattr(p, "tensor_map"):
            arrs += [(np.asarray(a, dtype=np.complex128), i) for a, i in tn_tensors(p)]
            expo += float(np.real(p.exponent))
        else:
            arrs.append((np.asarray(p.data, dtype=np.complex128), tuple(p.inds)))
    try:
        return np.asarray(net_value(arrs, ())) * 10.0 ** expo
    except LabelMismatch:
        # an environment whose labels no longer match the lattice: reported as a (maximally) wrong value
        return np.asarray(float("nan"))


@st.composite
def s_env_opts(draw, mode, lat):
    o = {}
    if draw(st.booleans()):
        o["canonize"] = draw(st.booleans())
    if mode != "full-bond" and draw(st.integers(0, 2)) == 0:
        o["equalize_norms"] = draw(st.sampled_from([True, 1.0, False]))
    if lat.get("layers", 1) == 2 and mode not in ("full-bond", "projector2d") and draw(st.booleans()):
        o["layer_tags"] = draw(st.sampled_from([["KET", "BRA"], ["BRA", "KET"]]))
    if draw(st.integers(0, 4)) == 0:
        o["dense"] = True
    if mode == "mps" and draw(st.integers(0, 3)) == 0:
        o["compress_late"] = False
    return o


@st.composite
def s_env_rowcol(draw, tier):
    mode, lat = draw(s_mode_lat(tier, modes=ENV_MODES))
    entry = draw(st.sampled_from(["x", "y", "xmin", "xmax", "ymin", "ymax"]))
    case = {"lat": lat, "mode": mode, "entry": entry, "opts": draw(s_env_opts(mode, lat)),
            "binding": draw(st.integers(0, 2)) == 0, "chi_frac": draw(st.floats(0.0, 1.0)), "given_dict": draw(st.booleans())}
    if len(entry) > 1 and draw(st.integers(0, 2)) == 0:
        # one-sided environments over a sub-range of rows / a strip of columns (as the plaquette code calls them)
        xr, yr = draw(s_patch(lat, entry))
        case["xrange"], case["yrange"] = xr, yr
    if mode in SEEDED:
        case["seed"] = draw(st.integers(0, 2**31 - 1))
    return case


def run_env_rowcol(case):
    lat, mode, entry = case["lat"], case["mode"], case["entry"]
    qtn = Q()
    tn = build2d(lat)
    ref, mag = reference(tn)
    e0 = float(np.real(tn.exponent))
    kw = boundary_kwargs(case)
    exact = chi_exact(lat)
    binding = bool(case["binding"]) and dlayer(lat) >= 2 and not kw.get("dense")
    chi = binding_chi(case["chi_frac"], dlayer(lat) ** 2) if binding else exact
    cutoff = 1e-10 if binding else 0.0
    store = {} if case["given_dict"] else None
    with rejecting(*accepted_refusals(mode), tag="unsupported:"):
        if entry == "x":
            envs = tn.compute_x_environments(max_bond=chi, cutoff=cutoff, mode=mode, envs=store, **kw)
        elif entry == "y":
            envs = tn.compute_y_environments(max_bond=chi, cutoff=cutoff, mode=mode, envs=store, **kw)
        else:
            xr = tuple(case["xrange"]) if case.get("xrange") is not None else None
            yr = tuple(case["yrange"]) if case.get("yrange") is not None else None
            spell = getattr(tn, "compute_%s_environments" % entry) if case["given_dict"] else None
            if spell is not None:
                envs = spell(xrange=xr, yrange=yr, max_bond=chi, cutoff=cutoff, mode=mode, envs=store, **kw)
            else:
                envs = tn.compute_environments(entry, xrange=xr, yrange=yr, max_bond=chi, cutoff=cutoff, mode=mode, **kw)
    if store is not None and envs is not store:
        raise Violation("envs-dict-not-used", entry=entry)
    sides = {"x": ["xmin", "xmax"], "y": ["ymin", "ymax"]}.get(entry, [entry])
    # expected keys: one per row (column) of the swept range
    errs = [0.0]
    nb_total = 0
    for side in sides:
        ax = 0 if side[0] == "x" else 1
        rng = case.get("xrange") if ax == 0 else case.get("yrange")
        lo, hi = (min(rng), max(rng)) if rng is not None else (0, (lat["Lx"], lat["Ly"])[ax] - 1)
        want = {(side, i) for i in range(lo, hi + 1)}
        got = {k for k in envs if k[0] == side}
        if got != want:
            raise Violation("env-keys", side=side, got=sorted(map(list, got)), want=sorted(map(list, want)), mode=mode)
        for (_, i) in sorted(want):
            env = envs[side, i]
            if not isinstance(env, qtn.TensorNetwork):
                raise Violation("env-not-network", key=[side, i])
            rest, absorbed = complement_of(tn, env)
            # an environment of row i holds nothing of row i or beyond (in sweep direction)
            beyond = [c for c in absorbed if (c[ax] >= i if side.endswith("min") else c[ax] <= i)]
            if beyond:
                raise Violation("env-holds-own-row", key=[side, i], mode=mode)
            # ... and all of what lies before it: the whole first row (it is selected by its row tag) and, of the
            # further rows up to i, the columns inside the swept range
            first = lo if side.endswith("min") else hi
            before = range(lo, i) if side.endswith("min") else range(i + 1, hi + 1)
            orng = case.get("yrange") if ax == 0 else case.get("xrange")
            olo, ohi = (min(orng), max(orng)) if orng is not None else (0, (lat["Ly"], lat["Lx"])[ax] - 1)
            expect = set()
            for r in before:
                for c in range((lat["Ly"], lat["Lx"])[ax]):
                    # (dense=True contracts whole rows by their row tags, whatever the range across)
                    if r == first or olo <= c <= ohi or kw.get("dense"):
                        expect.add((r, c) if ax == 0 else (c, r))
            if absorbed != expect:
                raise Violation("env-rows", key=[side, i], got=len(absorbed), want=len(expect), mode=mode)
            if binding:
                nb, _ = check_cap(env, chi, entry="env:" + side, mode=mode, layered=lat.get("layers", 1) == 2)
                nb_total += nb
            else:
                v = env_value(tn, [env] + rest, e0)
                errs.append(check_value(v, ref, mag, entry="env:" + side, mode=mode, key_offset=abs(i - (lo if side.endswith("min") else hi)),
                                        eq=bool(kw.get("equalize_norms")), dense=bool(kw.get("dense")),
                                        layered=lat.get("layers", 1) == 2))
    if not binding and entry in ("x", "y"):
        # the two-sided statement of the docstring: envs[min, i] | row i | envs[max, i]
        ax = 0 if entry == "x" else 1
        for i in range((lat["Lx"], lat["Ly"])[ax]):
            a, b = envs[sides[0], i], envs[sides[1], i]
            row = [t for t in tn if any(c[ax] == i for c in site_coords(t))]
            v = env_value(tn, [a, b] + row, e0)
            errs.append(check_value(v, ref, mag, entry="env-sandwich:" + entry, mode=mode, row=i,
                                    eq=bool(kw.get("equalize_norms")), dense=bool(kw.get("dense")),
                                    layered=lat.get("layers", 1) == 2))
    cls = lat_classes(lat) + ["mode=" + mode, "entry=" + entry, "binding" if binding else "exact"]
    cls += ["opt:" + k for k in sorted(case["opts"])] + (["subrange"] if case.get("xrange") or case.get("yrange") else [])
    if binding:
        cls.append("capbonds=%d" % min(nb_total, 9))
    return {"nt": lat_nontrivial(lat, len(sides)) and (not binding or nb_total > 0), "cls": cls, "err": max(errs)}


@st.composite
def s_env_plaq(draw, tier):
    # open lattices only: the plaquette code picks the bordering tensors with valid_coo() (no wrap-around), i.e. periodic
    # directions are not supported there
    mode, lat = draw(s_mode_lat(tier, modes=ENV_MODES, allow_cyclic=False))
    xb = draw(st.integers(1, min(2 if tier == "quick" else 3, lat["Lx"])))
    yb = draw(st.integers(1, min(2 if tier == "quick" else 3, lat["Ly"])))
    o = {}
    if draw(st.booleans()):
        o["canonize"] = draw(st.booleans())
    if mode != "full-bond" and draw(st.integers(0, 2)) == 0:
        o["equalize_norms"] = draw(st.sampled_from([True, 1.0, False]))
    if lat.get("layers", 1) == 2 and mode not in ("full-bond", "projector2d") and draw(st.booleans()):
        o["layer_tags"] = ["KET", "BRA"]
    fc = draw(st.sampled_from([None, None, "x", "y"]))
    if fc is not None:
        o["first_contract"] = fc
    sd = draw(st.sampled_from([None, None, True, False]))
    if sd is not None:
        o["second_dense"] = sd
    case = {"lat": lat, "mode": mode, "x_bsz": xb, "y_bsz": yb, "opts": o}
    if mode in SEEDED:
        case["seed"] = draw(st.integers(0, 2**31 - 1))
    return case


def run_env_plaq(case):
    lat, mode = case["lat"], case["mode"]
    qtn = Q()
    tn = build2d(lat)
    ref, mag = reference(tn)
    e0 = float(np.real(tn.exponent))
    kw = boundary_kwargs(case)
    xb, yb = int(case["x_bsz"]), int(case["y_bsz"])
    with rejecting(*accepted_refusals(mode), tag="unsupported:"):
        penvs = tn.compute_plaquette_environments(x_bsz=xb, y_bsz=yb, max_bond=chi_exact(lat), cutoff=0.0, mode=mode, **kw)
    want = {((i, j), (xb, yb)) for i in range(lat["Lx"] - xb + 1) for j in range(lat["Ly"] - yb + 1)}
    if lat.get("cx") or lat.get("cy"):
        got = set(penvs)
        if not want <= got:
            raise Violation("plaquette-keys", missing=len(want - got), mode=mode)
    elif set(penvs) != want:
        raise Violation("plaquette-keys", got=len(penvs), want=len(want), mode=mode)
    errs = [0.0]
    for ((i0, j0), _) in sorted(want):
        env = penvs[(i0, j0), (xb, yb)]
        inside = {(i0 + a, j0 + b) for a in range(xb) for b in range(yb)}
        plq = [t for t in tn if site_coords(t) & inside]
        _, absorbed = complement_of(tn, env)
        if absorbed & inside:
            raise Violation("plaquette-env-holds-plaquette", key=[i0, j0], mode=mode)
        v = env_value(tn, [env] + plq, e0)
        errs.append(check_value(v, ref, mag, entry="env:plaquette", mode=mode, bsz=[xb, yb],
                                eq=bool(kw.get("equalize_norms")), layered=lat.get("layers", 1) == 2,
                                first=kw.get("first_contract"),
                                second_dense=kw.get("second_dense")))
    cls = lat_classes(lat) + ["mode=" + mode, "bsz=%dx%d" % (xb, yb), "nplaq=%d" % min(len(want), 9)]
    cls += ["opt:%s=%s" % (k, kw[k]) if k in ("first_contract", "second_dense") else "opt:" + k for k in sorted(case["opts"])]
    return {"nt": lat_nontrivial(lat, 2), "cls": cls, "err": max(errs)}



# ---------------------------------------------------------------------------
# coarse graining (HOTRG) and corner-transfer (CTMRG) schemes in 2D
# ---------------------------------------------------------------------------

def chi_full(lat):
    """Safe exact bond for schemes that may merge a whole side: every edge crossing a full cut of the lattice."""
    if lat.get("Lz"):
        return chi_exact(lat)
    c = 2 if any(lat.get(k) for k in ("cx", "cy")) else 1
    return max(1, dlayer(lat) ** (c * max(lat["Lx"], lat["Ly"])))


@st.composite
def s_hotrg2d(draw, tier):
    lat = draw(s_lattice2d(tier, max_chi=16 if tier == "quick" else 81))
    # chi_exact <= 16 keeps D_layer**L small; the candidates filter by chi_exact, the scheme needs chi_full
    o = {}
    if draw(st.integers(0, 2)) == 0:
        o["canonize"] = True
        if draw(st.booleans()):
            o["gauge_power"] = draw(st.sampled_from([1.0, 0.5]))
        # canonize=True gauges with gauge_all_simple, whose default smudge=1e-12 regularises the inverse gauges: the
        # result is exact only up to smudge / (relative size of the smallest bond weight).  Generic gaussian tensors
        # keep that ratio ~1e-11; the nearly rank-one 'shifted' tensors do not (errors to 1e-4 observed), so the
        # conditioning is fixed by construction here rather than by loosening the tolerance.
        lat["kind"] = "gauss"
    seq = draw(st.sampled_from([None, ["x", "y"], ["y", "x"], ["x"], ["y"]]))
    if seq is not None:
        o["sequence"] = seq
    en = draw(st.sampled_from(["auto", "auto", False, True, 1.0]))
    if en != "auto":
        o["equalize_norms"] = en
    if draw(st.integers(0, 2)) == 0:
        o["strip_exponent"] = True
    ms = draw(st.sampled_from([1, 1, 1, 2]))
    if ms != 1:
        o["max_separation"] = ms
    mu = draw(st.sampled_from([1, 1, 0, 2]))
    if mu != 1:
        o["max_unfinished"] = mu
    if draw(st.integers(0, 4)) == 0:
        o["lazy"] = True
    return {"lat": lat, "opts": o, "entry": draw(st.sampled_from(["contract", "contract", "contract_", "coarse", "coarse_"])),
            "direction": draw(st.sampled_from(["x", "y"])), "final_contract": draw(st.sampled_from([True, True, False])),
            "binding": draw(st.integers(0, 2)) == 0, "chi_frac": draw(st.floats(0.0, 1.0))}


def coarse_pairs(res, direction, ndim=2):
    """Bonds between neighbouring coarse sites *across* the coarse-grained direction, for sites that merged two fine
    sites: [(size, tagA, tagB)] (these are the bonds the inserted projectors truncate)."""
    out = []
    ts = list(res)
    ax = "xyz".index(direction)
    for a in range(len(ts)):
        ca = site_coords(ts[a], ndim)
        if len(ca) != 1:
            continue
        for b in range(a + 1, len(ts)):
            cb = site_coords(ts[b], ndim)
            if len(cb) != 1 or not shares_bond(ts[a], ts[b]):
                continue
            (pa,), (pb,) = ca, cb
            if pa[ax] == pb[ax] and sum(abs(x - y) for x, y in zip(pa, pb)) == 1:
                out.append((bond_size(ts[a], ts[b]), pa, pb))
    return out


def run_hotrg2d(case):
    lat = case["lat"]
    qtn = Q()
    tn = build2d(lat)
    ref, mag = reference(tn)
    o = dict(case["opts"])
    entry = case["entry"]
    binding = bool(case["binding"]) and dlayer(lat) >= 2 and not o.get("lazy") and entry.startswith("coarse")
    exact = chi_full(lat)
    chi = binding_chi(case["chi_frac"], dlayer(lat) ** 2) if binding else exact
    cutoff = 1e-10 if binding else 0.0
    if entry.startswith("coarse"):
        d = case["direction"]
        for k in ("sequence", "max_separation", "max_unfinished"):
            o.pop(k, None)
        fn = tn.coarse_grain_hotrg_ if entry.endswith("_") else tn.coarse_grain_hotrg
        L0 = {"x": lat["Lx"], "y": lat["Ly"]}[d]
        res = fn(d, max_bond=chi, cutoff=cutoff, **o)
        if not isinstance(res, qtn.TensorNetwork2D):
            raise Violation("coarse-not-2d", got=type(res).__name__)
        L1 = {"x": res.Lx, "y": res.Ly}[d]
        if L1 != (L0 + 1) // 2:
            raise Violation("coarse-size", got=L1, want=(L0 + 1) // 2, direction=d)
        if not o.get("lazy"):
            nsite = res.Lx * res.Ly
            if res.num_tensors != nsite:
                raise Violation("coarse-tensor-count", got=res.num_tensors, want=nsite)
        nb = 0
        if binding:
            for size, pa, pb in coarse_pairs(res, d):
                ax = "xy".index(d)
                # both coarse sites are made of two fine rows unless they are the odd row left over
                if 2 * pa[ax] + 1 <= L0 - 1:
                    nb += 1
                    if size > chi:
                        raise Violation("bond-cap", size=int(size), cap=int(chi), entry="coarse_grain_hotrg", direction=d,
                                        cyclic=bool(lat.get("cx") or lat.get("cy")), canonize=bool(o.get("canonize")))
            e = 0.0
        else:
            e = check_value(denote(res), ref, mag, entry="coarse_grain_hotrg", direction=d, canonize=bool(o.get("canonize")),
                            equalize=repr(o.get("equalize_norms", "auto")), lazy=bool(o.get("lazy")),
                            cyclic=bool(lat.get("cx") or lat.get("cy")))
        cls = ["direction=" + d] + (["capbonds=%d" % min(nb, 9)] if binding else [])
        nt = lat_nontrivial(lat, 1) and (not binding or nb > 0)
    else:
        fn = tn.contract_hotrg_ if entry.endswith("_") else tn.contract_hotrg
        res = fn(max_bond=chi, cutoff=cutoff, final_contract=case["final_contract"], **o)
        e = check_value(denote(res), ref, mag, entry="contract_hotrg", canonize=bool(o.get("canonize")),
                        equalize=repr(o.get("equalize_norms", "auto")), strip=bool(o.get("strip_exponent")),
                        lazy=bool(o.get("lazy")), cyclic=bool(lat.get("cx") or lat.get("cy")), final=bool(case["final_contract"]))
        cls = ["final" if case["final_contract"] and not o.get("lazy") else "network"]
        nt = lat_nontrivial(lat, 2)
    cls = lat_classes(lat) + ["entry=" + entry, "binding" if binding else "exact"] + cls + ["opt:" + k for k in sorted(o)]
    return {"nt": nt, "cls": cls, "err": e}


@st.composite
def s_ctmrg2d(draw, tier):
    # contract_ctmrg forwards lazy / canonize_opts / contract_opts / reduce_opts to the boundary routine: only the
    # 'projector' mode (its default) takes all of them (others raise TypeError, or absorb them in **kwargs until a
    # truncation hands them to the SVD)
    mode = draw(st.sampled_from(CTMRG_MODES))
    lat = condition_for(mode, draw(s_lattice2d(tier, max_chi=256 if tier == "quick" else 729)))
    o = {}
    if draw(st.integers(0, 2)) == 0:
        o["canonize"] = True
    en = draw(st.sampled_from(["auto", "auto", False, True, 1.0]))
    if en != "auto":
        o["equalize_norms"] = en
    if draw(st.integers(0, 2)) == 0:
        o["strip_exponent"] = True
    ms = draw(st.sampled_from([1, 1, 1, 2]))
    if ms != 1:
        o["max_separation"] = ms
    if mode == "projector" and draw(st.integers(0, 4)) == 0:
        o["lazy"] = True
    return {"lat": lat, "mode": mode, "opts": o, "sequence": make_it_sweep(lat, draw(s_sequence2d()), o, default=DIRS2),
            "final_contract": draw(st.sampled_from([True, True, False])), "inplace": draw(st.sampled_from([False, False, True]))}


def run_ctmrg2d(case):
    lat, mode = case["lat"], case["mode"]
    tn = build2d(lat)
    ref, mag = reference(tn)
    o = dict(case["opts"])
    res = tn.contract_ctmrg(max_bond=chi_exact(lat), cutoff=0.0, mode=mode, sequence=case["sequence"],
                            final_contract=case["final_contract"], inplace=case["inplace"], **o)
    e = check_value(denote(res), ref, mag, entry="contract_ctmrg", mode=mode, canonize=bool(o.get("canonize")),
                    equalize=repr(o.get("equalize_norms", "auto")), strip=bool(o.get("strip_exponent")), lazy=bool(o.get("lazy")),
                    cyclic=bool(lat.get("cx") or lat.get("cy")), final=bool(case["final_contract"]))
    dirs = seq_dirs(case["sequence"])
    nd = 4 if dirs is None else len(dirs)
    cls = lat_classes(lat) + ["mode=" + mode, "ndirs=%d" % nd, "final" if case["final_contract"] and not o.get("lazy") else "network"]
    cls += ["opt:" + k for k in sorted(o)]
    swept = will_sweep(lat, dirs, o, default=DIRS2)
    cls.append("swept" if swept else "no-step")
    return {"nt": lat_nontrivial(lat, nd) and swept, "cls": cls, "err": e}



# ---------------------------------------------------------------------------
# 3D lattices
# ---------------------------------------------------------------------------

DIRS3 = ["xmin", "xmax", "ymin", "ymax", "zmin", "zmax"]
MODES_3D = ["peps", "projector3d", "l2bp3d"]
MODES_3D_AG = ["local-early", "local-late", "projector", "su", "l2bp"]
B3D_GROUPS = {"peps": ["peps"], "projector3d": ["projector3d"], "l2bp3d": ["l2bp3d"],
              "ag": MODES_3D_AG}


@st.composite
def s_lattice3d(draw, tier, min_D=1, allow_cyclic=True):
    shapes = [(2, 2, 3), (2, 3, 2), (3, 2, 2), (2, 2, 3), (2, 3, 2), (3, 2, 2), (2, 2, 2)]
    if tier != "quick":
        shapes += [(2, 3, 3), (3, 2, 3), (3, 3, 2), (2, 2, 4), (3, 3, 3)]
    Lx, Ly, Lz = draw(st.sampled_from(shapes))
    D = draw(st.sampled_from([d for d in (2, 2, 3, 2, 2, 1) if d >= min_D]))
    if D == 3 and Lx * Ly * Lz > 8:
        D = 2
    lat = {"Lx": Lx, "Ly": Ly, "Lz": Lz, "D": D, "cx": False, "cy": False, "cz": False, "layers": 1}
    if allow_cyclic and D <= 2 and Lx * Ly * Lz <= 18 and draw(st.integers(0, 3)) == 0:
        # periodic only along a direction of length >= 3 (length 2 would repeat a label on one tensor)
        for d, L in zip("xyz", (Lx, Ly, Lz)):
            if L >= 3:
                lat["c" + d] = True
    lat["seed"] = draw(A.seeds)
    lat["kind"] = draw(st.sampled_from(KINDS))
    lat["dtype"] = draw(st.sampled_from(A.DTYPES64))
    lat["exponent"] = draw(st.sampled_from([0.0, 0.0, 0.0, 1.5, -2.0]))
    return lat


def build3d(lat):
    qtn = Q()
    tn = qtn.TN3D_from_fill_fn(fill_fn(lat["seed"], lat["kind"], lat["dtype"]), int(lat["Lx"]), int(lat["Ly"]), int(lat["Lz"]),
                               int(lat["D"]), cyclic=(bool(lat.get("cx")), bool(lat.get("cy")), bool(lat.get("cz"))))
    if lat.get("exponent"):
        tn.exponent = float(lat["exponent"])
    return tn


def cyc3(lat):
    return bool(lat.get("cx") or lat.get("cy") or lat.get("cz"))


def gauged3d(mode, o):
    """Modes that divide by simple-update / BP bond weights of a 2D (loopy) boundary: their round-off grows with the
    spread of those weights (see s_hotrg2d), so they get generic gaussian tensors rather than the nearly rank-one ones."""
    if mode in ("projector", "su", "superorthogonal", "l2bp", "l2bp3d"):
        return o.get("canonize", True) is not False or mode in ("l2bp", "l2bp3d", "su", "superorthogonal")
    return mode == "projector3d" and bool(o.get("canonize"))


@st.composite
def s_sequence3d(draw):
    k = draw(st.integers(0, 6))
    if k == 0:
        return None
    return list(draw(st.permutations(DIRS3))[:k])


@st.composite
def s_opts3d(draw, mode, full=True):
    o = {}
    if draw(st.booleans()):
        o["canonize"] = draw(st.booleans())
    if mode == "peps":
        if draw(st.integers(0, 2)) == 0:
            o["canonize_interleave"] = False
        if draw(st.integers(0, 2)) == 0:
            o["compress_late"] = False
    if mode in ("projector3d", "l2bp3d") and draw(st.integers(0, 4)) == 0:
        o["lazy"] = True
    en = draw(st.sampled_from(["auto", "auto", False, True, 1.0]))
    if en != "auto":
        o["equalize_norms"] = en
    if full:
        if draw(st.integers(0, 2)) == 0:
            o["strip_exponent"] = True
        ms = draw(st.sampled_from([1, 1, 1, 2]))
        if ms != 1:
            o["max_separation"] = ms
        mu = draw(st.sampled_from([1, 1, 0, 2]))
        if mu != 1:
            o["max_unfinished"] = mu
    return o


def s_b3d(group):
    modes = B3D_GROUPS[group]

    @st.composite
    def strat(draw, tier):
        mode = draw(st.sampled_from(modes))
        lat = draw(s_lattice3d(tier, allow_cyclic=(mode != "peps")))
        o = draw(s_opts3d(mode))
        if gauged3d(mode, o):
            lat["kind"] = "gauss"
        return {"lat": lat, "mode": mode, "sequence": make_it_sweep(lat, draw(s_sequence3d()), o, default=DIRS3), "opts": o,
                "final_contract": draw(st.sampled_from([True, True, False])), "inplace": draw(st.sampled_from([False, False, True])),
                "binding": draw(st.integers(0, 2)) == 0, "chi_frac": draw(st.floats(0.0, 1.0))}

    return lambda tier: strat(tier)


def run_b3d(case):
    lat, mode = case["lat"], case["mode"]
    qtn = Q()
    tn = build3d(lat)
    ref, mag = reference(tn)
    o = dict(case["opts"])
    binding = bool(case["binding"]) and lat["D"] >= 2 and not o.get("lazy") and not cyc3(lat)
    chi = binding_chi(case["chi_frac"], lat["D"] ** 2) if binding else chi_exact(lat)
    cutoff = 1e-10 if binding else 0.0
    final = case["final_contract"] and not binding
    if binding:
        o.pop("strip_exponent", None)
    with rejecting(*accepted_refusals(mode), tag="unsupported:"):
        res = tn.contract_boundary(max_bond=chi, cutoff=cutoff, mode=mode, sequence=case["sequence"], final_contract=final,
                                   inplace=case["inplace"], **o)
    nd = 6 if case["sequence"] is None else len(case["sequence"])
    e, nb = 0.0, 0
    if binding:
        if not isinstance(res, qtn.TensorNetwork):
            raise Violation("not-a-network", mode=mode)
        nb, _ = check_cap(res, chi, ndim=3, entry="boundary3d", mode=mode, early=o.get("compress_late") is False)
    else:
        e = check_value(denote(res), ref, mag, entry="boundary3d", mode=mode, cyclic=cyc3(lat), strip=bool(o.get("strip_exponent")),
                        equalize=repr(o.get("equalize_norms", "auto")), final=bool(final), lazy=bool(o.get("lazy")),
                        canonize=o.get("canonize", True))
    cls = lat_classes(lat) + ["mode=" + mode, "ndirs=%d" % nd, "binding" if binding else "exact", "final" if final else "network"]
    cls += ["opt:" + k for k in sorted(o)] + (["capbonds=%d" % min(nb, 9)] if binding else [])
    swept = will_sweep(lat, case["sequence"], o, default=DIRS3)
    cls.append("swept" if swept else "no-step")
    return {"nt": lat["D"] >= 2 and swept and (not binding or nb > 0), "cls": cls, "err": e}


@st.composite
def s_side3d(draw, tier):
    mode = draw(st.sampled_from(MODES_3D + MODES_3D + MODES_3D_AG))
    lat = draw(s_lattice3d(tier, allow_cyclic=False))
    entry = draw(st.sampled_from(["from", "from", "plane_envs", "peps_sweep"]))
    L = {"x": lat["Lx"], "y": lat["Ly"], "z": lat["Lz"]}
    dirs = DIRS3
    if mode in BP_MODES:
        dirs = [d for d in DIRS3 if L[d[0]] >= 3]
        if not dirs or entry == "peps_sweep":
            mode, dirs = "peps", DIRS3
    fw = draw(st.sampled_from(dirs))
    # number of planes swept: all of them, or (always for the BP modes) all but the last
    full = draw(st.booleans()) and mode not in BP_MODES
    o = draw(s_opts3d(mode, full=False))
    o.pop("lazy", None)
    if entry == "plane_envs":
        o.pop("equalize_norms", None)  # private helper: says nothing about where the stripped exponent goes (it is dropped)
    if gauged3d(mode, o):
        lat["kind"] = "gauss"
    return {"lat": lat, "mode": mode, "from_which": fw, "opts": o, "spelling": draw(st.sampled_from(["plain", "inplace", "inplace"])),
            "entry": entry, "nplanes": L[fw[0]] if (full or L[fw[0]] == 2) and mode not in BP_MODES else L[fw[0]] - 1,
            "binding": draw(st.integers(0, 2)) == 0, "chi_frac": draw(st.floats(0.0, 1.0)),
            "auto_side": draw(st.integers(0, 3)) == 0,
            # ranges across the sweep handed over in descending order (accepted: Rotator3D / gen_pairs sort them)
            "flip": [draw(st.integers(0, 3)) == 0 for _ in range(3)]}


def run_side3d(case):
    lat, mode, fw = case["lat"], case["mode"], case["from_which"]
    qtn = Q()
    tn = build3d(lat)
    ref, mag = reference(tn)
    e0 = float(np.real(tn.exponent))
    o = dict(case["opts"])
    L = {"x": lat["Lx"], "y": lat["Ly"], "z": lat["Lz"]}
    rng = {d: (0, L[d] - 1) for d in "xyz"}
    entry = case["entry"]
    n = int(case["nplanes"])
    desc = False
    if entry == "from":
        rng[fw[0]] = (0, n - 1) if fw.endswith("min") else (L[fw[0]] - n, L[fw[0]] - 1)
        for d, f in zip("xyz", case.get("flip") or [False] * 3):
            if f and d != fw[0] and L[d] >= 2:
                rng[d] = (rng[d][1], rng[d][0])
                desc = True
    binding = bool(case["binding"]) and lat["D"] >= 2 and entry == "from"
    chi = binding_chi(case["chi_frac"], lat["D"] ** n) if binding else chi_exact(lat)
    cutoff = 1e-10 if binding else 0.0
    e, nb = 0.0, 0
    info = dict(entry="3d:" + entry, mode=mode, from_which=fw, eq=bool(o.get("equalize_norms")), descending=desc)
    if entry == "from":
        fn = tn.contract_boundary_from_ if case["spelling"] == "inplace" else tn.contract_boundary_from
        res = fn(rng["x"], rng["y"], rng["z"], fw, max_bond=chi, cutoff=cutoff, mode=mode, **o)
        if case["spelling"] == "inplace" and res is None:
            res = tn  # nothing promises a return value for the in-place spelling: the receiver holds the result
        if not isinstance(res, qtn.TensorNetwork):
            raise Violation("returned-none" if res is None else "not-a-network", mode=mode, spelling=case["spelling"], entry="3d:from")
        if case["spelling"] == "inplace" and res is not tn:
            raise Violation("inplace-new-object", mode=mode, entry="3d:from")
        if binding:
            nb, _ = check_cap(res, chi, ndim=3, **info)
            if nb == 0:
                raise Violation("no-boundary-found", **info)
        else:
            e = check_value(denote(res), ref, mag, **info)
    elif entry == "plane_envs":
        envs = tn._compute_plane_envs(rng["x"], rng["y"], rng["z"], fw, max_bond=chi, cutoff=0.0, mode=mode, **o)
        ax = "xyz".index(fw[0])
        sweep = list(range(L[fw[0]])) if fw.endswith("min") else list(range(L[fw[0]] - 1, -1, -1))
        if set(envs) != set(sweep[1:]):
            raise Violation("env-keys", got=sorted(envs), want=sorted(sweep[1:]), **info)
        for i in sweep[1:]:
            env = envs[i]
            rest, absorbed = complement_of(tn, env, 3)
            if any((c[ax] >= i if fw.endswith("min") else c[ax] <= i) for c in absorbed):
                raise Violation("env-holds-own-row", key=i, **info)
            v = env_value(tn, [env] + rest, e0)
            e = max(e, check_value(v, ref, mag, key=i, **info))
    else:
        o.pop("compress_late", None)
        if mode != "peps":
            o.pop("canonize_interleave", None)
        # from_which=None lets the code pick the side with the smallest plane
        res = tn.contract_peps_sweep(chi, cutoff=0.0, from_which=None if case.get("auto_side") else fw, mode=mode,
                                     inplace=case["spelling"] == "inplace", **o)
        e = check_value(denote(res), ref, mag, **info)
    cls = lat_classes(lat) + ["mode=" + mode, "entry=" + entry, "from=" + fw, "binding" if binding else "exact", "spell=" + case["spelling"]]
    cls += ["opt:" + k for k in sorted(o)] + (["planes=%d/%d" % (n, L[fw[0]])] if entry == "from" else [])
    return {"nt": lat["D"] >= 2, "cls": cls, "err": e}


@st.composite
def s_rg3d(draw, tier):
    lat = draw(s_lattice3d(tier))
    entry = draw(st.sampled_from(["hotrg", "hotrg", "coarse", "ctmrg", "ctmrg", "simple_sweep"]))
    o = {}
    if entry != "simple_sweep":
        if draw(st.integers(0, 2)) == 0:
            o["canonize"] = True
            lat["kind"] = "gauss"  # regularised gauging, see s_hotrg2d
        en = draw(st.sampled_from(["auto", "auto", False, True, 1.0]))
        if en != "auto":
            o["equalize_norms"] = en
        if draw(st.integers(0, 2)) == 0:
            o["strip_exponent"] = True
        if draw(st.integers(0, 4)) == 0:
            o["lazy"] = True
    else:
        lat["kind"] = "gauss"
        lat["cx"] = lat["cy"] = lat["cz"] = False
        if draw(st.booleans()):
            o["equalize_norms"] = draw(st.sampled_from([True, 1.0]))
    if entry == "hotrg":
        seq = draw(st.sampled_from([None, None, "perm", "sub"]))
        if seq == "perm":
            o["sequence"] = list(draw(st.permutations(["x", "y", "z"])))
        elif seq == "sub":
            o["sequence"] = list(draw(st.permutations(["x", "y", "z"]))[:draw(st.integers(1, 2))])
    if entry == "ctmrg":
        sq = draw(s_sequence3d())
        if sq is not None:
            o["sequence"] = sq
    if entry in ("hotrg", "ctmrg"):
        ms = draw(st.sampled_from([1, 1, 1, 2]))
        if ms != 1:
            o["max_separation"] = ms
    return {"lat": lat, "entry": entry, "opts": o, "direction": draw(st.sampled_from(["x", "y", "z"])),
            "final_contract": draw(st.sampled_from([True, True, False])), "inplace": draw(st.sampled_from([False, False, True])),
            "binding": draw(st.integers(0, 2)) == 0, "chi_frac": draw(st.floats(0.0, 1.0))}


def run_rg3d(case):
    lat, entry = case["lat"], case["entry"]
    qtn = Q()
    tn = build3d(lat)
    ref, mag = reference(tn)
    o = dict(case["opts"])
    exact = chi_full(lat)
    info = dict(entry="3d:" + entry, cyclic=cyc3(lat), canonize=bool(o.get("canonize")), equalize=repr(o.get("equalize_norms", "auto")),
                strip=bool(o.get("strip_exponent")), lazy=bool(o.get("lazy")))
    e, nb = 0.0, 0
    binding = False
    if entry == "hotrg":
        fn = tn.contract_hotrg_ if case["inplace"] else tn.contract_hotrg
        res = fn(max_bond=exact, cutoff=0.0, final_contract=case["final_contract"], **o)
        e = check_value(denote(res), ref, mag, final=bool(case["final_contract"]), **info)
    elif entry == "ctmrg":
        res = tn.contract_ctmrg(max_bond=exact, cutoff=0.0, final_contract=case["final_contract"], inplace=case["inplace"], **o)
        e = check_value(denote(res), ref, mag, final=bool(case["final_contract"]), **info)
    elif entry == "simple_sweep":
        # the compressions of this scheme take their cutoff (default 1e-10) only through peps_opts / mps_opts
        res = tn.contract_simple_sweep(exact, inplace=case["inplace"], peps_opts={"cutoff": 0.0}, mps_opts={"cutoff": 0.0}, **o)
        e = check_value(denote(res), ref, mag, **info)
    else:
        d = case["direction"]
        o.pop("strip_exponent", None) if False else None
        binding = bool(case["binding"]) and lat["D"] >= 2 and not o.get("lazy")
        chi = binding_chi(case["chi_frac"], lat["D"] ** 2) if binding else exact
        fn = tn.coarse_grain_hotrg_ if case["inplace"] else tn.coarse_grain_hotrg
        L0 = {"x": lat["Lx"], "y": lat["Ly"], "z": lat["Lz"]}[d]
        res = fn(d, max_bond=chi, cutoff=1e-10 if binding else 0.0, **o)
        if not isinstance(res, qtn.TensorNetwork3D):
            raise Violation("coarse-not-3d", got=type(res).__name__)
        L1 = {"x": res.Lx, "y": res.Ly, "z": res.Lz}[d]
        if L1 != (L0 + 1) // 2:
            raise Violation("coarse-size", got=L1, want=(L0 + 1) // 2, direction=d, entry="3d:coarse")
        if binding:
            ax = "xyz".index(d)
            for size, pa, pb in coarse_pairs(res, d, 3):
                if 2 * pa[ax] + 1 <= L0 - 1:
                    nb += 1
                    if size > chi:
                        raise Violation("bond-cap", size=int(size), cap=int(chi), direction=d, **info)
        else:
            e = check_value(denote(res), ref, mag, direction=d, **info)
    cls = lat_classes(lat) + ["entry=" + entry, "binding" if binding else "exact"] + ["opt:" + k for k in sorted(o)]
    if entry == "coarse":
        cls.append("direction=" + case["direction"])
    return {"nt": lat["D"] >= 2 and (not binding or nb > 0), "cls": cls, "err": e}



# ---------------------------------------------------------------------------
# arbitrary geometry: contract_compressed / contract_around / compress_between / tensor_network_ag_compress
# ---------------------------------------------------------------------------

@st.composite
def s_graph(draw, tier, min_n=3, max_n=None, phys="some", layered=False, dims=(1, 2, 2, 2, 3), extra=3, forest=False):
    """Connected graph (random-parent tree + extra distinct edges) with a bond size per edge, optional dangling
    indices and -- for the site-grouping compressors -- optionally two tensors ('layers') per site."""
    if max_n is None:
        max_n = 7 if tier == "quick" else 9
    n = draw(st.integers(min_n, max_n))
    edges = [[draw(st.integers(0, i - 1)), i] for i in range(1, n)]
    cut = None
    if forest and n >= 4 and draw(st.integers(0, 3)) == 0:
        # a second connected component: tensors >= cut hang on each other only (site 0 stays in the first component)
        cut = draw(st.integers(2, n - 2))
        edges = [[a, b] for a, b in edges if b != cut]
        edges = [[(cut + (a - cut) % (b - cut) if b > cut and a < cut else a), b] for a, b in edges]
    have = {tuple(e) for e in edges}
    for _ in range(draw(st.integers(0, extra))):
        a, b = draw(st.integers(0, n - 1)), draw(st.integers(0, n - 1))
        if a != b and (min(a, b), max(a, b)) not in have and (cut is None or (a < cut) == (b < cut)):
            have.add((min(a, b), max(a, b)))
            edges.append([min(a, b), max(a, b)])
    g = {"n": n, "edges": edges, "dims": [draw(st.sampled_from(dims)) for _ in edges],
         "phys": [draw(st.sampled_from({"none": [0], "some": [0, 0, 2, 2, 3], "all": [2, 2, 3]}[phys])) for _ in range(n)],
         "seed": draw(A.seeds), "kind": draw(st.sampled_from(KINDS)), "dtype": draw(st.sampled_from(A.DTYPES64)),
         "exponent": draw(st.sampled_from([0.0, 0.0, 0.0, 1.5, -2.0]))}
    if layered:
        # layer of each edge end (0/1) and which sites have two layers
        g["two"] = [draw(st.booleans()) for _ in range(n)]
        g["ends"] = [[draw(st.integers(0, 1)), draw(st.integers(0, 1))] for _ in edges]
        g["vdim"] = draw(st.sampled_from([2, 2, 3]))
    return g


def build_graph(g):
    """Network of the description; labels b<k> (edge k), k<i> (dangling), v<i> (between the two layers of site i);
    tags I<i> (site) and L0 / L1 (layer)."""
    qtn = Q()
    n = int(g["n"])
    f = fill_fn(g["seed"], g["kind"], g["dtype"])
    two = g.get("two") or [False] * n
    inds = {}
    for i in range(n):
        inds[i, 0] = []
        if two[i]:
            inds[i, 1] = ["v%d" % i]
            inds[i, 0].append("v%d" % i)
    sizes = {}
    for k, ((a, b), d) in enumerate(zip(g["edges"], g["dims"])):
        la, lb = (g["ends"][k] if g.get("ends") else (0, 0))
        la = la if two[a] else 0
        lb = lb if two[b] else 0
        inds[a, la].append("b%d" % k)
        inds[b, lb].append("b%d" % k)
        sizes["b%d" % k] = int(d)
    for i in range(n):
        if g["phys"][i]:
            inds[i, 0].append("k%d" % i)
            sizes["k%d" % i] = int(g["phys"][i])
        sizes["v%d" % i] = int(g.get("vdim", 2))
    ts = []
    for (i, l), ix in sorted(inds.items()):
        ts.append(qtn.Tensor(f([sizes[x] for x in ix]), inds=ix, tags=["I%d" % i, "L%d" % l]))
    tn = qtn.TensorNetwork(ts)
    if g.get("exponent"):
        tn.exponent = float(g["exponent"])
    return tn


def graph_components(g):
    comp = list(range(int(g["n"])))

    def find(i):
        while comp[i] != i:
            i = comp[i]
        return i

    for a, b in g["edges"]:
        comp[find(a)] = find(b)
    return len({find(i) for i in range(int(g["n"]))})


def graph_outer(g):
    return tuple("k%d" % i for i in range(int(g["n"])) if g["phys"][i])


def graph_classes(g):
    n, m = int(g["n"]), len(g["edges"])
    c = ["n=%d" % n, "loops=%d" % min(m - n + 1, 3), g["dtype"], g["kind"]]
    if any(g["phys"]):
        c.append("dangling")
    if g.get("exponent"):
        c.append("exp0!=0")
    return c


def random_path(n, seed):
    rng = np.random.default_rng(int(seed))
    path, m = [], n
    while m > 1:
        i, j = sorted(rng.choice(m, size=2, replace=False).tolist())
        path.append((int(i), int(j)))
        m -= 1
    return tuple(path)


COMPRESS_MODES = ["auto", "auto", "basic", "virtual-tree", "full-bond", "local-fit"]


@st.composite
def s_compressed_opts(draw, around=False):
    o = {}
    tgd = draw(st.sampled_from([1, 1, 0, 2, 3]))
    if tgd != 1:
        o["tree_gauge_distance"] = tgd
    cm = draw(st.sampled_from(COMPRESS_MODES))
    if cm != "auto":
        o["compress_mode" if not around else "compress_mode"] = cm
    if draw(st.integers(0, 2)) == 0:
        o["compress_late"] = draw(st.booleans())
    if draw(st.integers(0, 3)) == 0:
        o["gauge_boundary_only"] = False
    if draw(st.integers(0, 3)) == 0:
        o["compress_span"] = draw(st.sampled_from([False, True, 2]))
    if draw(st.integers(0, 4)) == 0:
        o["compress_matrices"] = False
    if draw(st.integers(0, 4)) == 0:
        o["compress_min_size"] = draw(st.sampled_from([4, 16]))
    if draw(st.integers(0, 3)) == 0:
        o["canonize_distance"] = draw(st.sampled_from([0, 1, 2]))
    if draw(st.integers(0, 3)) == 0:
        o["canonize_after_distance"] = draw(st.sampled_from([0, 1, 2]))
    en = draw(st.sampled_from(["auto", "auto", False, True, 1.0]))
    if en != "auto":
        o["equalize_norms"] = en
    return o


@st.composite
def s_compressed(draw, tier):
    g = draw(s_graph(tier, min_n=4, extra=5, dims=(1, 2, 2, 2, 3, 3)))
    o = draw(s_compressed_opts())
    if draw(st.integers(0, 2)) == 0:
        o["strip_exponent"] = True
    return {"g": g, "opts": o, # (the compressed presets 'greedy-span' / 'greedy-compressed' are left out: cotengra 0.8.2's GreedySpan.get_ssa_path
            # raises ValueError on graphs with a size-1 bond, which is not quimb's code)
            "optimize": draw(st.sampled_from(["path", "path", "path", "tree", "tree", "greedy", "auto"])),
            "pseed": draw(st.integers(0, 10**6)), "chi": draw(st.sampled_from([1, 2, 2, 3, 4, 4, 6, 8, 16, None, None, None, None])),
            "cutoff0": draw(st.sampled_from([True, True, True, False])), "inplace": draw(st.sampled_from([False, False, True])),
            "gauges": draw(st.sampled_from([None, None, None, True])), "order_out": draw(st.booleans())}


TINY_CUTOFF = 1e-15


def chi_and_cutoff(case):
    """(max_bond, cutoff).  With max_bond=None the scheme compresses *every* neighbouring pair it visits, governed by
    the cutoff alone; cutoff=0.0 switches compression off altogether, so the untruncated run of that branch uses a
    cutoff at the rounding level (1e-15 relative: what it discards is below the tolerance by nine orders)."""
    if case["chi"] is None:
        return None, TINY_CUTOFF
    return int(case["chi"]), (0.0 if case["cutoff0"] else 1e-10)


class CompressLog:
    """Callbacks handed to the scheme: what every compression saw before, and the bond it left behind."""

    def __init__(self, chi):
        self.chi = float("inf") if chi is None else chi
        self.events = 0
        self.lossless = True   # every compression so far had min(bond, rest of left, rest of right) <= chi
        self.worst = 0
        self.violation = None

    def pre(self, tn, tids):
        ta, tb = tn.tensor_map[tids[0]], tn.tensor_map[tids[1]]
        bond = bond_size(ta, tb)
        lsize = ta.size // bond
        rsize = tb.size // bond
        self.events += 1
        if min(bond, lsize, rsize) > self.chi:
            self.lossless = False

    def post(self, tn, tids):
        ta, tb = tn.tensor_map[tids[0]], tn.tensor_map[tids[1]]
        b = bond_size(ta, tb)
        self.worst = max(self.worst, b)
        if b > self.chi and self.violation is None:
            self.violation = int(b)


def run_compressed(case):
    import cotengra as ctg

    qtn = Q()
    g = case["g"]
    tn = build_graph(g)
    outer = graph_outer(g)
    out = tuple(reversed(outer)) if case["order_out"] else outer
    ref, mag = reference(tn, out)
    n = tn.num_tensors
    o = dict(case["opts"])
    chi, cutoff = chi_and_cutoff(case)
    log = CompressLog(chi)
    opt = case["optimize"]
    if opt == "path":
        optimize = random_path(n, case["pseed"])
    elif opt == "tree":
        inputs = [tuple(t.inds) for t in tn]
        sd = {ix: tn.ind_size(ix) for ix in tn.ind_map}
        optimize = ctg.ContractionTree.from_path(inputs, out, sd, path=random_path(n, case["pseed"]))
    else:
        optimize = opt
    if case["gauges"]:
        o["gauges"] = True
        if o.get("compress_mode") in ("virtual-tree", "full-bond", "local-fit"):
            o.pop("compress_mode")  # documented: with gauges the 'basic' mode is used
    if o.get("compress_mode") == "local-fit":
        if chi is None:
            o.pop("compress_mode")  # fitting needs a target bond size
        else:
            cutoff = 0.0  # this mode ignores a cutoff (and warns)
    if o.get("compress_mode") == "full-bond" and chi is None:
        o.pop("compress_mode")  # similarity_compress needs a target bond size
    kw = dict(output_inds=out) if out else {}
    # (local-fit solves ALS normal equations: LinAlgError on a rank deficient local environment is an accepted rejection)
    with rejecting(*((np.linalg.LinAlgError,) if o.get("compress_mode") == "local-fit" else ()), tag="als-singular:"):
        res = tn.contract_compressed(optimize, max_bond=chi, cutoff=cutoff, callback_pre_compress=log.pre,
                                     callback_post_compress=log.post, inplace=case["inplace"], **kw, **o)
    info = dict(entry="contract_compressed", mode=o.get("compress_mode", "auto"), gauges=bool(case["gauges"]),
                late=o.get("compress_late"), eq=bool(o.get("equalize_norms")) if o.get("equalize_norms", "auto") != "auto" else bool(o.get("strip_exponent")))
    if log.violation is not None:
        raise Violation("bond-cap", size=log.violation, cap=chi, **info)
    got = denote(res, out)
    e = 0.0
    exact = log.lossless and cutoff <= TINY_CUTOFF and not case["gauges"] and o.get("compress_mode") != "local-fit"
    if exact:
        e = check_value(got, ref, mag, **info)
    elif not np.all(np.isfinite(got)):
        raise Violation("non-finite", **info)
    cls = graph_classes(g) + ["opt=" + opt, "events=%d" % min(log.events, 5), "exact" if exact else "truncating",
                              "mode=" + o.get("compress_mode", "auto"), "saturated" if log.worst == chi else "below",
                              "max_bond=None" if chi is None else "max_bond=int"]
    cls += ["opt:" + k for k in sorted(o)]
    return {"nt": log.events > 0, "cls": cls, "err": e}


@st.composite
def s_around_ag(draw, tier):
    g = draw(s_graph(tier, min_n=4, extra=5, dims=(1, 2, 2, 2, 3, 3)))
    o = draw(s_compressed_opts(around=True))
    o.pop("compress_mode", None)
    if draw(st.integers(0, 3)) == 0:
        o["max_distance"] = draw(st.integers(1, 3))
    if draw(st.integers(0, 4)) == 0:
        o["min_distance"] = 1
    if o.get("equalize_norms", "auto") == "auto":
        o.pop("equalize_norms", None)
    return {"g": g, "opts": o, "entry": draw(st.sampled_from(["around", "around", "around_", "center", "corner"])),
            "targets": draw(st.lists(st.integers(0, 8), min_size=1, max_size=2, unique=True)),
            "chi": draw(st.sampled_from([1, 2, 2, 3, 4, 4, 6, 8, 16, None, None, None, None])),
            "cutoff0": draw(st.sampled_from([True, True, True, False]))}


def run_around_ag(case):
    qtn = Q()
    g = case["g"]
    tn = build_graph(g)
    outer = graph_outer(g)
    ref, mag = reference(tn, outer)
    o = dict(case["opts"])
    chi, cutoff = chi_and_cutoff(case)
    log = CompressLog(chi)
    entry = case["entry"]
    cb = dict(callback_pre_compress=log.pre, callback_post_compress=log.post)
    if entry in ("center", "corner"):
        for k in ("max_distance", "min_distance"):
            o.pop(k, None)
        fn = tn.contract_around_center if entry == "center" else tn.contract_around_corner
        res = fn(max_bond=chi, cutoff=cutoff, **cb, **o)
    else:
        tags = ["I%d" % (t % int(g["n"])) for t in case["targets"]]
        fn = tn.contract_around_ if entry.endswith("_") else tn.contract_around
        res = fn(tags, which="any", max_bond=chi, cutoff=cutoff, **cb, **o)
    info = dict(entry="contract_" + entry.rstrip("_"), late=o.get("compress_late"), eq=bool(o.get("equalize_norms")))
    if log.violation is not None:
        raise Violation("bond-cap", size=log.violation, cap=chi, **info)
    got = denote(res, outer)
    e = 0.0
    exact = log.lossless and cutoff <= TINY_CUTOFF
    if exact:
        e = check_value(got, ref, mag, **info)
    elif not np.all(np.isfinite(got)):
        raise Violation("non-finite", **info)
    cls = graph_classes(g) + ["entry=" + entry, "max_bond=None" if chi is None else "max_bond=int", "events=%d" % min(log.events, 5), "exact" if exact else "truncating",
                              "saturated" if log.worst == chi else "below"] + ["opt:" + k for k in sorted(o)]
    return {"nt": log.events > 0, "cls": cls, "err": e}


@st.composite
def s_between(draw, tier):
    g = draw(s_graph(tier, min_n=2, max_n=6, phys="some", dims=(2, 2, 3, 3, 4), extra=2))
    mode = draw(st.sampled_from(["basic", "basic", "virtual-tree", "full-bond", "local-fit"]))
    o = {}
    if mode != "virtual-tree":
        ab = draw(st.sampled_from(["both", "both", "left", "right"]))
        if ab != "both":
            o["absorb"] = ab
    if mode in ("basic", "virtual-tree") and draw(st.booleans()):
        o["canonize_distance"] = draw(st.sampled_from([0, 1, 2]))
    if mode == "basic" and draw(st.integers(0, 2)) == 0:
        o["canonize_after_distance"] = draw(st.sampled_from([1, 2]))
    if mode in ("basic", "virtual-tree") and draw(st.integers(0, 2)) == 0:
        o["equalize_norms"] = draw(st.sampled_from([True, 1.0]))
    return {"g": g, "mode": mode, "opts": o, "edge": draw(st.integers(0, 20)), "binding": draw(st.booleans()),
            "chi_frac": draw(st.floats(0.0, 1.0)), "chi_extra": draw(st.sampled_from([0, 0, 1, 4])),
            "cutoff": draw(st.sampled_from([0.0, 0.0, 1e-10]))}


def run_between(case):
    g, mode = case["g"], case["mode"]
    tn = build_graph(g)
    outer = graph_outer(g)
    ref, mag = reference(tn, outer)
    k = int(case["edge"]) % len(g["edges"])
    a, b = g["edges"][k]
    d = int(g["dims"][k])
    binding = bool(case["binding"]) and d >= 2
    chi = binding_chi(case["chi_frac"], d) if binding else d + int(case["chi_extra"])
    cutoff = float(case["cutoff"]) if binding else 0.0
    if mode == "local-fit":
        cutoff = 0.0
    o = dict(case["opts"])
    if mode == "local-fit":
        # the ALS fit solves normal equations; a rank deficient local environment makes numpy raise LinAlgError before
        # anything is written back (DESIGN 2.5: an accepted rejection)
        with rejecting(np.linalg.LinAlgError, tag="als-singular:"):
            tn.compress_between("I%d" % a, "I%d" % b, max_bond=chi, cutoff=cutoff, mode=mode, **o)
    else:
        tn.compress_between("I%d" % a, "I%d" % b, max_bond=chi, cutoff=cutoff, mode=mode, **o)
    ta, tb = tn["I%d" % a], tn["I%d" % b]
    size = bond_size(ta, tb)
    info = dict(entry="compress_between", mode=mode, absorb=o.get("absorb", "both"), eq=bool(o.get("equalize_norms")))
    if size > chi:
        raise Violation("bond-cap", size=int(size), cap=int(chi), **info)
    e = 0.0
    if not binding:
        e = check_value(denote(tn, outer), ref, mag, **info)
    cls = graph_classes(g) + ["mode=" + mode, "binding" if binding else "exact", "bond=%d" % d] + ["opt:" + k2 for k2 in sorted(o)]
    return {"nt": d >= 2 and int(g["n"]) >= 3, "cls": cls, "err": e}


AG_METHODS = ["local-early", "local-late", "projector", "su", "superorthogonal", "l2bp"]


@st.composite
def s_ag(draw, tier):
    method = draw(st.sampled_from(AG_METHODS))
    bp = method in ("su", "superorthogonal", "l2bp")
    # (methods that gauge with simple-update / BP weights get a dangling index on every site: on a closed loopy network
    # those weights are arbitrarily ill conditioned, see ASSUMPTIONS; 'projector' gauges by default)
    g = draw(s_graph(tier, min_n=3, max_n=6, phys="all" if (bp or method == "projector") else "some", layered=True,
                     dims=(1, 2, 2, 2, 3), extra=2, forest=True))
    o = {}
    if draw(st.booleans()):
        o["canonize"] = draw(st.booleans())
    if method == "projector" and draw(st.integers(0, 3)) == 0:
        # ('layered' needs every layer to be a full copy of the geometry: exercised on bra/ket lattices in b2d.projector)
        o["canonize"] = "bp"
    if method == "projector" and draw(st.integers(0, 4)) == 0:
        o["lazy"] = True
    if draw(st.integers(0, 2)) == 0:
        o["equalize_norms"] = draw(st.sampled_from([True, 1.0]))
    if bp or o.get("canonize", True):
        g["kind"] = "gauss"  # divides by bond weights / messages: keep them well conditioned (see s_hotrg2d)
    return {"g": g, "method": method, "opts": o, "binding": draw(st.booleans()), "chi_frac": draw(st.floats(0.0, 1.0)),
            "inplace": draw(st.booleans()), "entry": draw(st.sampled_from(["ag", "ag", "1d-like", "2d-like"]))}


def run_ag(case):
    from quimb.tensor.tnag.compress import tensor_network_ag_compress

    qtn = Q()
    g, method = case["g"], case["method"]
    tn = build_graph(g)
    outer = graph_outer(g)
    ref, mag = reference(tn, outer)
    n = int(g["n"])
    sites = ["I%d" % i for i in range(n)]
    # bond between two sites = product of the edges joining them
    pair = {}
    for (a, b), d in zip(g["edges"], g["dims"]):
        pair[a, b] = pair.get((a, b), 1) * int(d)
    full = max(pair.values())
    binding = bool(case["binding"]) and full >= 2 and not case["opts"].get("lazy")
    chi = binding_chi(case["chi_frac"], full) if binding else full
    cutoff = 1e-10 if binding else 0.0
    o = dict(case["opts"])
    entry = case["entry"]
    if entry == "ag":
        res = tensor_network_ag_compress(tn, max_bond=chi, cutoff=cutoff, method=method, site_tags=sites, inplace=case["inplace"], **o)
    elif entry == "1d-like":
        from quimb.tensor.tn1d.compress import tensor_network_1d_compress

        res = tensor_network_1d_compress(tn, max_bond=chi, cutoff=cutoff, method=method, site_tags=sites, inplace=case["inplace"],
                                         permute_arrays=False, **o)
    else:
        from quimb.tensor.tn2d.compress import tensor_network_2d_compress

        res = tensor_network_2d_compress(tn, max_bond=chi, cutoff=cutoff, method=method, site_tags=sites, inplace=case["inplace"],
                                         permute_arrays=False, **o)
    if case["inplace"] and res is not tn:
        raise Violation("inplace-new-object", method=method)
    info = dict(entry="ag_compress:" + entry, method=method, canonize=repr(o.get("canonize", True)), eq=bool(o.get("equalize_norms")),
                lazy=bool(o.get("lazy")), disconnected=graph_components(g) > 1)
    if not o.get("lazy"):
        if res.num_tensors != n:
            raise Violation("one-tensor-per-site", got=res.num_tensors, want=n, **info)
        for (a, b) in pair:
            size = bond_size(res["I%d" % a], res["I%d" % b])
            if size > chi:
                raise Violation("bond-cap", size=int(size), cap=int(chi), **info)
    e = 0.0
    if not binding:
        e = check_value(denote(res, outer), ref, mag, **info)
    if set(res.outer_inds()) != set(outer):
        raise Violation("outer-labels-changed", **info)
    cls = graph_classes(g) + ["method=" + method, "entry=" + entry, "binding" if binding else "exact", "two-layer=%d" % min(sum(g["two"]), 3),
                              "components=%d" % graph_components(g)]
    cls += ["opt:%s=%s" % (k2, o[k2]) if k2 == "canonize" else "opt:" + k2 for k2 in sorted(o)]
    return {"nt": full >= 2 and (sum(g["two"]) > 0 or len(g["edges"]) >= n), "cls": cls, "err": e}


SUBCHECKS = []
for _g in B2D_GROUPS:
    SUBCHECKS.append(SubCheck(
        "b2d." + _g, run_b2d, s_b2d(_g), examples=(100, 500), shards=(1, 4),
        rule=f"contract_boundary(mode in {B2D_GROUPS[_g]}) x sequence (None, any sub-sequence of the 4 directions, short "
             "codes) x accepted options (canonize, equalize_norms, strip_exponent, compress_late, sweep_reverse, "
             "layer_tags, lazy, max_separation, max_unfinished, start borders, final_contract, inplace) with "
             "max_bond >= exact bond and cutoff 0 == einsum value; nt: D>=2 and (>=3x3 or layered or >=2 directions)"))

SUBCHECKS += [
    SubCheck("b2d.from_side", run_from_side, s_from_side, examples=(150, 750), shards=(1, 4),
             rule="contract_boundary_from_{xmin,xmax,ymin,ymax}[_] / contract_boundary_from[_] over a drawn patch (>=2 rows, "
                  ">=2 columns), every mode, untruncated: the returned network (incl. exponent) denotes the same value; "
                  "nt: D>=2 and (>=3 rows swept or layered or >=3x3)"),
    SubCheck("b2d.mps_sweep", run_mps_sweep, s_mps_sweep, examples=(60, 300), shards=(1, 4),
             rule="contract_mps_sweep[_](direction None/4 sides) x modes x options, untruncated == einsum; nt as RULE"),
    SubCheck("b2d.around", run_around, s_around, examples=(120, 600), shards=(1, 4),
             rule="contract_boundary / contract_ctmrg with around=1-2 sites on open lattices >=3x3: the bounding square is "
                  "untouched; untruncated: network denotes the same value; binding cap: bonds along the boundaries <= cap; "
                  "nt: D>=2 (and >=1 compressed bond seen when binding)"),
]

SUBCHECKS += [
    SubCheck("env2d.rowcol", run_env_rowcol, s_env_rowcol, examples=(120, 600), shards=(1, 4),
             rule="compute_environments / compute_{xmin,xmax,ymin,ymax}_environments / compute_x|y_environments (modes, dense, "
                  "layer_tags, equalize_norms, sub-ranges, caller-supplied dict): exactly one key per row; untruncated: every "
                  "env | excluded part == whole and envs[min,i] | row i | envs[max,i] == whole; binding cap: bonds along every "
                  "stored boundary <= cap; nt as RULE"),
    SubCheck("env2d.plaquette", run_env_plaq, s_env_plaq, examples=(100, 500), shards=(1, 4),
             rule="compute_plaquette_environments(x_bsz, y_bsz in 1..2(3), first_contract, second_dense, modes), untruncated: one "
                  "key per plaquette position and every env | plaquette sites == whole; nt as RULE"),
]

SUBCHECKS += [
    SubCheck("hotrg2d", run_hotrg2d, s_hotrg2d, examples=(150, 750), shards=(1, 4),
             rule="contract_hotrg[_] (sequence, canonize/gauge_power, equalize_norms, strip_exponent, lazy, max_separation, "
                  "max_unfinished, final_contract) untruncated == einsum; coarse_grain_hotrg[_](x|y): size halves (odd row kept), "
                  "one tensor per coarse site, value kept; binding cap: bonds across the coarse-grained direction <= cap; nt as RULE"),
    SubCheck("ctmrg2d", run_ctmrg2d, s_ctmrg2d, examples=(100, 500), shards=(1, 4),
             rule="contract_ctmrg[_] (mode projector and others, sequence, canonize, lazy, equalize_norms, strip_exponent, "
                  "max_separation, final_contract) untruncated == einsum; nt as RULE"),
]

for _g in B3D_GROUPS:
    SUBCHECKS.append(SubCheck(
        "b3d." + _g, run_b3d, s_b3d(_g), examples=(80, 400), shards=(1, 4),
        rule=f"3D contract_boundary(mode in {B3D_GROUPS[_g]}) x any sub-sequence of the six directions x options (canonize, "
             "canonize_interleave, compress_late, lazy, equalize_norms, strip_exponent, max_separation, max_unfinished, "
             "final_contract, inplace) on 2x2x2..2x2x3 (thorough to 2x3x3), periodic where a side is >=3: untruncated == "
             "einsum; binding cap on open lattices: bonds along every boundary plane <= cap; nt: D>=2"))
SUBCHECKS += [
    SubCheck("b3d.from_side", run_side3d, s_side3d, examples=(120, 600), shards=(1, 4),
             rule="3D contract_boundary_from[_] over the whole lattice from each of the 6 sides (network returned, value kept, "
                  "binding cap obeyed), _compute_plane_envs (every env | rest == whole), contract_peps_sweep; nt: D>=2"),
    SubCheck("rg3d", run_rg3d, s_rg3d, examples=(120, 600), shards=(1, 4),
             rule="3D contract_hotrg / coarse_grain_hotrg / contract_ctmrg / contract_simple_sweep untruncated == einsum, "
                  "coarse graining halves the side and obeys a binding cap; nt: D>=2"),
]

SUBCHECKS += [
    SubCheck("compressed.tree", run_compressed, s_compressed, examples=(300, 1500), shards=(1, 4),
             rule="contract_compressed along a drawn path / ContractionTree / preset on connected graphs of 4-7(9) tensors x "
                  "options (tree_gauge_distance, compress_mode, compress_late, compress_span, compress_matrices, "
                  "compress_min_size, canonize distances, gauge_boundary_only, gauges, equalize_norms, strip_exponent, "
                  "output order, inplace): callbacks record every compression; each bond compressed is <= max_bond right after; "
                  "when every compression was lossless a priori (min(bond, rest-left, rest-right) <= max_bond, cutoff 0) the "
                  "result == einsum; nt: >=1 compression happened"),
    SubCheck("compressed.around", run_around_ag, s_around_ag, examples=(250, 1250), shards=(1, 4),
             rule="contract_around[_] (tags, any) / contract_around_center / _corner with the same callbacks and oracle; nt: >=1 "
                  "compression"),
    SubCheck("compress_between", run_between, s_between, examples=(300, 1500), shards=(1, 4),
             rule="compress_between(mode basic / virtual-tree / full-bond / local-fit, absorb, canonize distances, "
                  "equalize_norms) on an edge of a random graph: bond <= max_bond afterwards; max_bond >= bond and cutoff 0: the "
                  "network denotes the same tensor; nt: bond>=2 and >=3 tensors"),
    SubCheck("ag_compress", run_ag, s_ag, examples=(250, 1250), shards=(1, 4),
             rule="tensor_network_ag_compress (and the 1D/2D front ends forwarding to it) x 5 methods on graphs with 1-2 tensors "
                  "per site: one tensor per site, every site-site bond <= max_bond; max_bond >= full bond, cutoff 0: same tensor; "
                  "nt: bond>=2 and (a two-layer site or a loop)"),
]

for _g in CAP_GROUPS:
    SUBCHECKS.append(SubCheck(
        "cap2d." + _g, run_cap2d, s_cap2d(_g), examples=(120, 600), shards=(1, 4),
        rule=f"binding cap, modes {CAP_GROUPS[_g]}: (side) one-sided sweep over a patch with 1 <= cap < D_layer**rows and cutoff in "
             "{0,1e-10,1e-3}: every bond along the handed-over boundary <= cap (and the boundary exists); (boundary) "
             "contract_boundary / contract_ctmrg(final_contract=False) on open lattices with cap < D_layer**2: every bond along a "
             "boundary line of the returned network <= cap; nt: >=1 such bond"))
