"""C13 — every route to a local expectation / reduced state gives the dense answer.

States are vector-like tensor networks built from generated arrays (arbitrary
graph vectors with site dependent physical and bond dimensions, open / periodic
MPS, PEPS, PEPS3D).  The dense state psi is numpy.einsum over the tensors that
were put in (vf.oracle.einsum_value, never a quimb contraction); references are

    <O>  = psi^dag embed(O, dims, where) psi   (/ psi^dag psi when normalised)
    rho  = ptrace(psi, dims, where)            (subsystems in the order given)

Operators are random complex non-symmetric matrices, ``where`` is a tuple of
distinct sites in any order.  Every sub-check is one family of entry points.
Cluster / loop expansions are only compared where theory makes them exact and
the generator constructs exactly those cases (see RULE / ASSUMPTIONS).
"""
from __future__ import annotations

import numpy as np
from hypothesis import strategies as st

from .. import arrays as A
from ..core import EXACT64, INV64, Reject, SubCheck, Violation, quimb_frames, rejecting, rel_err
from ..oracle import einsum_value, embed, ptrace, tn_tensors

RULE = ("cases are vector-like networks built from generated arrays: graph vectors (tree / unicyclic / multi-loop core "
        "with tails, <= 9 sites, site dependent physical dims 2-3 and bond dims 1-3), MPS (open / periodic, L 2-7), PEPS "
        "(2x2..3x3, D 2-3, site dependent physical dims), PEPS3D (2x2x2, 2x2x3), complex or real, raw or "
        "unit norm, half of them with a stored exponent (psi.exponent in {1, -0.5, 1.5, -2}: a factor 10**e of the state, "
        "also when the unit norm is partly held there); x a complex non-symmetric operator on 1-3 distinct sites given in any order x route and its "
        "options (normalized True/False/'return', get, flatten/reduce/symmetrized, boundary mode, layer tags, "
        "autogroup, max_distance/mode/fillin, gauges, loop sizes, combine/normalized flavours); oracle = dense numpy. "
        "Non-trivial = (>= 2 sites and the sites are not given in ascending order) or the state is not normalised")
ASSUMPTIONS = [
    "numpy.einsum of the generated tensors x 10**exponent is the trusted dense state (checked against to_dense in ag_exact); "
    "embed / ptrace of vf.oracle are the reference",
    "compressed / boundary routes are run with an untruncating cap (max_bond >= 64..256, cutoff=0.0)",
    "cluster routes without gauges are only compared when the selected cluster contains every tensor (checked with "
    "get_cluster); with converged simple-update gauges (tol 1e-13, <= 1000 sweeps, else rejected) they are compared on "
    "trees for every max_distance (the cluster adds the connecting path)",
    "loop expansions are only compared on: trees with `where` a site or an edge; unicyclic graphs with `where` on the "
    "cycle and sloops/gloops >= cycle length; multi-loop cores with tails, `where` inside the core, gloops >= number of "
    "sites (DESIGN S, probe e43); normalized='global' only on trees and on 2-connected graphs without tails (one global "
    "factor + unnormalised clusters is exact only for tree-like or all-containing clusters; pinned by probe: 1e-12 there, "
    "1e-4..1e-3 on loop + tails)",
    "reduce=True (documented experimental) only for pairs on states with >= 3 sites",
    "2D compute_local_expectation takes coordinate pairs in lattice order only (KeyError otherwise = rejection)",
    "a lone site is passed as a 1-tuple everywhere except in the sub-check lone_site, which exercises the documented "
    "'node or sequence[node]' spellings",
]

TOL = EXACT64
TOLG = INV64  # routes that insert / invert simple update gauges


def Q():
    import quimb.tensor as qtn

    return qtn


def guarded(fn, **info):
    """Run a quimb call; an exception raised inside quimb becomes a classified crash violation."""
    try:
        return fn()
    except (Violation, Reject):
        raise
    except Exception as e:  # noqa
        frames = quimb_frames(e.__traceback__)
        if not frames:
            raise
        fr = frames[-1]
        raise Violation("crash", exc=type(e).__name__, where=f"{fr[0]}:{fr[1]}", msg=str(e)[:120], **info) from e


def denote(tn, outs):
    """numpy denotation of a returned / built network over labels `outs`, including its stored exponent"""
    v = einsum_value([(np.asarray(a, dtype=np.complex128), i) for a, i in tn_tensors(tn)], outs)
    return v * 10.0 ** float(getattr(tn, "exponent", 0.0) or 0.0)


EXPONENTS = [0.0, 0.0, 0.0, 0.0, 1.0, -0.5, 1.5, -2.0]  # stored TensorNetwork.exponent (a factor 10**e of the state)


def prod(xs):
    p = 1
    for x in xs:
        p *= int(x)
    return p


def fit_phys(ph, maxD=1024):
    ph = list(ph)
    while prod(ph) > maxD:
        j = int(np.argmax(ph))
        ph[j] -= 1
    return ph


DTYPES = ("complex128", "complex128", "complex128", "float64")


def arr(seed, i, shape, dtype):
    return A.make_array((int(seed) + 7919 * (i + 1)) % (2**31 - 1), "gauss", shape, dtype)


# ---------------------------------------------------------------------------
# state builders: description -> (psi, sites, phys dims, dense vector)
# ---------------------------------------------------------------------------

def build_graph(desc):
    qtn = Q()
    n = len(desc["phys"])
    inds = {i: [] for i in range(n)}
    sizes = {}
    for (a, b), D in zip(desc["edges"], desc["bonds"]):
        l = f"e{a}_{b}"
        inds[a].append(l)
        inds[b].append(l)
        sizes[l] = int(D)
    names = desc.get("names", "int")
    sites = [i if names == "int" else f"s{i}" for i in range(n)]
    ts = []
    for i in range(n):
        shape = [sizes[l] for l in inds[i]] + [desc["phys"][i]]
        ts.append(qtn.Tensor(arr(desc["seed"], i, shape, desc["dtype"]), inds[i] + [f"k{sites[i]}"], tags=f"I{sites[i]}"))
    tn = qtn.TensorNetwork(ts)
    tn.view_as_(qtn.TensorNetworkGenVector, sites=list(sites), site_tag_id="I{}", site_ind_id="k{}")
    return tn, sites


def build_mps(desc):
    qtn = Q()
    L, cyc, ph, bd = desc["L"], desc["cyclic"], desc["phys"], desc["bonds"]
    arrs = []
    for i in range(L):
        shape = []
        if cyc or i > 0:
            shape.append(bd[(i - 1) % L])
        if cyc or i < L - 1:
            shape.append(bd[i])
        shape.append(ph[i])
        arrs.append(arr(desc["seed"], i, shape, desc["dtype"]))
    return qtn.MatrixProductState(arrs, shape="lrp"), list(range(L))


def build_peps(desc):
    qtn = Q()
    Lx, Ly, D = desc["Lx"], desc["Ly"], desc["D"]
    ts, sites = [], []
    for i in range(Lx):
        for j in range(Ly):
            inds, shape = [], []
            for (a, b) in (((i - 1, j), (i, j)), ((i, j), (i + 1, j)), ((i, j - 1), (i, j)), ((i, j), (i, j + 1))):
                if 0 <= a[0] and b[0] < Lx and 0 <= a[1] and b[1] < Ly:
                    inds.append(f"b{a[0]},{a[1]}_{b[0]},{b[1]}")
                    shape.append(D)
            inds.append(f"k{i},{j}")
            shape.append(desc["phys"][i * Ly + j])
            ts.append(qtn.Tensor(arr(desc["seed"], i * Ly + j, shape, desc["dtype"]), inds,
                                 tags=(f"I{i},{j}", f"X{i}", f"Y{j}")))
            sites.append((i, j))
    tn = qtn.TensorNetwork(ts)
    tn.view_as_(qtn.PEPS, Lx=Lx, Ly=Ly, site_tag_id="I{},{}", x_tag_id="X{}", y_tag_id="Y{}", site_ind_id="k{},{}")
    return tn, sites


def build_peps3d(desc):
    qtn = Q()
    Lx, Ly, Lz, D = desc["Lx"], desc["Ly"], desc["Lz"], desc["D"]
    psi = qtn.PEPS3D.rand(Lx, Ly, Lz, D, phys_dim=2, seed=int(desc["seed"]) % (2**31 - 1), dtype=desc["dtype"])
    sites = [(i, j, k) for i in range(Lx) for j in range(Ly) for k in range(Lz)]
    return psi, sites


BUILDERS = {"graph": build_graph, "mps": build_mps, "peps": build_peps, "peps3d": build_peps3d}


class State:
    pass


def build_state(desc):
    psi, sites = BUILDERS[desc["fam"]](desc)
    s = State()
    s.desc = desc
    s.sites = sites
    s.n = len(sites)
    outs = [psi.site_ind(x) for x in sites]
    s.phys = [int(psi.ind_size(ix)) for ix in outs]
    # a stored exponent is a factor 10**e of the state: the dense reference is (einsum of the arrays) * 10**e
    s.expo = float(desc.get("exponent", 0.0) or 0.0)
    psi.exponent = s.expo
    d = denote(psi, outs).reshape(-1)
    nrm = float(np.vdot(d, d).real)
    if not (nrm > 1e-200) or not np.isfinite(nrm):
        raise Reject("zero / non-finite state")
    if desc.get("unit"):
        # spread the normalisation over the tensors (data only, geometry untouched)
        f = nrm ** (-0.5 / psi.num_tensors)
        for t in psi:
            t.modify(data=t.data * f)
        d = d / np.sqrt(nrm)
        nrm = 1.0
    s.psi, s.dense, s.nrm = psi, d, nrm
    s.unit = bool(desc.get("unit"))
    return s


def where_sites(s, widx):
    return tuple(s.sites[i] for i in widx)


def make_op(s, widx, seed, form="matrix"):
    dw = [s.phys[i] for i in widx]
    D = prod(dw)
    G = A.make_matrix(seed, "gauss", D, D, "complex128")
    return (G.reshape(dw + dw) if form == "tensor" else G), G


def ref_expec(s, Gm, widx, normalized):
    v = np.vdot(s.dense, embed(Gm, s.phys, widx) @ s.dense)
    return v / s.nrm if normalized else v


def ref_rho(s, widx, normalized):
    r = ptrace(s.dense, s.phys, widx)
    return r / s.nrm if normalized else r


def check_scalar(got, ref, floor, tol, **info):
    g = np.asarray(got)
    if g.size != 1:
        raise Violation("scalar-shape", got=list(g.shape), **info)
    e = rel_err(g.reshape(()), np.asarray(ref).reshape(()), floor=floor)
    if not e <= tol:
        raise Violation("expec-value", err=e, **info)
    return e


def check_rho(got, s, widx, normalized, tol, norm_claim=True, **info):
    """rho: right shape, Hermitian, requested normalisation, subsystem order as given."""
    D = prod(s.phys[i] for i in widx)
    g = np.asarray(got)
    if g.shape != (D, D):
        raise Violation("rho-shape", got=list(g.shape), want=[D, D], **info)
    ref = ref_rho(s, widx, normalized)
    floor = 1.0 if normalized else s.nrm
    eh = rel_err(g, g.conj().T, floor=floor)
    if not eh <= tol:
        raise Violation("rho-not-hermitian", err=eh, **info)
    if norm_claim:
        et = rel_err(np.trace(g), np.asarray(1.0 if normalized else s.nrm), floor=floor)
        if not et <= tol:
            raise Violation("rho-trace", err=et, **info)
    e = rel_err(g, ref, floor=floor)
    if not e <= tol:
        tr = rel_err(g, ref.T, floor=floor) <= tol
        sw = False
        if len(widx) == 2:
            sw = rel_err(g, ref_rho(s, widx[::-1], normalized), floor=floor) <= tol
        raise Violation("rho-value", err=e, transposed=bool(tr), swapped=bool(sw), **info)
    return max(e, eh)


def is_nt(s, widx):
    return (len(widx) >= 2 and list(widx) != sorted(widx)) or not s.unit


def base_cls(s, widx):
    c = ["fam=" + s.desc["fam"], f"nw={len(widx)}", "unit" if s.unit else "raw", s.desc["dtype"], "expo" if s.expo else "expo=0"]
    if len(widx) >= 2:
        c.append("order=asc" if list(widx) == sorted(widx) else "order=other")
        if len({s.phys[i] for i in widx}) > 1:
            c.append("mixed-dims")
    return c


# ---------------------------------------------------------------------------
# strategies for states
# ---------------------------------------------------------------------------

@st.composite
def s_tree_edges(draw, n):
    return [[draw(st.integers(0, i - 1)), i] for i in range(1, n)]


@st.composite
def s_graph(draw, shape="any", nmax=9, bonds=(2, 2, 3), names=False, nmin=2):
    """shape: tree | unicyclic | core (cycle + chords, tails) | biconn (cycle + chords, no tails) | any"""
    if shape == "any":
        shape = draw(st.sampled_from(["tree", "unicyclic", "core", "biconn"]))
    if shape == "tree":
        n = draw(st.integers(nmin, nmax))
        edges = draw(s_tree_edges(n))
        core = []
    else:
        c = draw(st.integers(3 if shape == "unicyclic" else 4, 5))
        edges = [[i, (i + 1) % c] for i in range(c)]
        edges = [sorted(e) for e in edges]
        if shape in ("core", "biconn"):
            non = [[a, b] for a in range(c) for b in range(a + 1, c) if [a, b] not in edges]
            k = draw(st.integers(1, min(2, len(non))))
            for e in draw(st.lists(st.sampled_from(non), min_size=k, max_size=k, unique_by=tuple)):
                edges.append(e)
        ntail = 0 if shape == "biconn" else draw(st.integers(0, nmax - c))
        n = c + ntail
        for i in range(c, n):
            edges.append([draw(st.integers(0, i - 1)), i])
        core = list(range(c))
    ph = fit_phys([draw(st.sampled_from([2, 2, 3])) for _ in range(n)])
    return {"fam": "graph", "shape": shape, "edges": edges, "core": core, "phys": ph,
            "bonds": [draw(st.sampled_from(bonds)) for _ in edges], "seed": draw(A.seeds),
            "dtype": draw(st.sampled_from(DTYPES)), "unit": draw(st.integers(0, 2)) == 0,
            "names": "str" if (names and draw(st.integers(0, 3)) == 0) else "int", "exponent": draw(st.sampled_from(EXPONENTS))}


@st.composite
def s_mps(draw, Lmin=2, Lmax=7, cyclic=None, max_bond=4):
    L = draw(st.integers(Lmin, Lmax))
    ph = fit_phys([draw(st.sampled_from([2, 2, 3])) for _ in range(L)])
    cyc = (L >= 3 and draw(st.integers(0, 2)) == 0) if cyclic is None else bool(cyclic and L >= 3)
    return {"fam": "mps", "L": L, "phys": ph, "bonds": [draw(st.integers(1, max_bond)) for _ in range(L)], "cyclic": cyc,
            "seed": draw(A.seeds), "dtype": draw(st.sampled_from(DTYPES)), "unit": draw(st.integers(0, 2)) == 0,
            "exponent": draw(st.sampled_from(EXPONENTS))}


@st.composite
def s_peps(draw, shapes=((2, 2), (2, 2), (2, 3), (3, 2), (3, 3))):
    Lx, Ly = draw(st.sampled_from(shapes))
    n = Lx * Ly
    ph = fit_phys([draw(st.sampled_from([2, 2, 2, 3])) for _ in range(n)], 768)
    D = draw(st.sampled_from([2, 2, 3])) if n <= 4 else 2
    return {"fam": "peps", "Lx": Lx, "Ly": Ly, "D": D, "phys": ph, "seed": draw(A.seeds),
            "dtype": draw(st.sampled_from(DTYPES)), "unit": draw(st.integers(0, 2)) == 0,
            "exponent": draw(st.sampled_from(EXPONENTS))}


@st.composite
def s_peps3d(draw, shapes=((2, 2, 2),)):
    Lx, Ly, Lz = draw(st.sampled_from(shapes))
    return {"fam": "peps3d", "Lx": Lx, "Ly": Ly, "Lz": Lz, "D": 2, "seed": draw(A.seeds),
            "dtype": draw(st.sampled_from(DTYPES)), "unit": draw(st.integers(0, 2)) == 0,
            "exponent": draw(st.sampled_from(EXPONENTS))}


def nsites(desc):
    f = desc["fam"]
    if f == "graph":
        return len(desc["phys"])
    if f == "mps":
        return desc["L"]
    if f == "peps":
        return desc["Lx"] * desc["Ly"]
    return desc["Lx"] * desc["Ly"] * desc["Lz"]


@st.composite
def s_where(draw, n, kmax=3, pool=None):
    pool = list(range(n)) if pool is None else list(pool)
    k = draw(st.sampled_from([1, 2, 2, 2, 3][: 4 + (kmax >= 3)]))
    k = max(1, min(k, kmax, len(pool)))
    w = draw(st.lists(st.sampled_from(pool), min_size=k, max_size=k, unique=True))
    if k >= 2 and draw(st.booleans()):
        w = sorted(w, reverse=True)  # the descending order is the interesting class: construct it
    return w


NORMALIZED = [True, False, "return"]


@st.composite
def s_any_state(draw):
    k = draw(st.integers(0, 9))
    if k <= 4:
        return draw(s_graph(names=True))
    if k <= 6:
        return draw(s_mps())
    if k <= 8:
        return draw(s_peps(shapes=((2, 2), (2, 3), (3, 2), (1, 3))))
    return draw(s_peps3d())


# ---------------------------------------------------------------------------
# 1. exact contraction routes (any vector-like network)
# ---------------------------------------------------------------------------

@st.composite
def s_exact(draw, tier):
    desc = draw(s_any_state())
    n = nsites(desc)
    route = draw(st.sampled_from(["partial_trace_exact", "local_expectation_exact", "local_expectation_exact",
                                  "compute_local_expectation_exact", "grid"]))
    if route == "grid":
        desc["unit"] = False  # every normalized spelling x every get form only tells them apart on <psi|psi> != 1
    nterms = draw(st.integers(1, 3)) if route.startswith("compute") else 1
    return {"state": desc, "route": route, "wheres": [draw(s_where(n)) for _ in range(nterms)],
            "gseed": draw(A.seeds), "normalized": draw(st.sampled_from(NORMALIZED)),
            "get": draw(st.sampled_from(["matrix", "array", "tensor"])), "gform": draw(st.sampled_from(["matrix", "tensor"])),
            "optimize": draw(st.sampled_from(["auto-hq", "greedy", "auto"])), "return_all": draw(st.booleans())}


def split_return(res, normalized, s, tol, **info):
    """normalized='return' -> (value, norm factor); the factor must be <psi|psi>."""
    if normalized != "return":
        return res
    if not (isinstance(res, tuple) and len(res) == 2):
        raise Violation("return-shape", got=repr(type(res)), **info)
    val, nf = res
    e = rel_err(np.asarray(nf).reshape(()), np.asarray(s.nrm), floor=s.nrm)
    if not e <= tol:
        raise Violation("norm-factor", err=e, **info)
    return val


def run_exact(case):
    qtn = Q()
    s = build_state(case["state"])
    psi = s.psi
    route, normalized = case["route"], case["normalized"]
    w0 = case["wheres"][0]
    # the library's own densification agrees with arrays x 10**exponent (keeps the oracle independent and pinned)
    dd = np.asarray(psi.to_dense([psi.site_ind(x) for x in s.sites])).reshape(-1)
    if not rel_err(dd, s.dense, floor=np.sqrt(s.nrm)) <= TOL:
        raise Violation("to-dense", expo=bool(s.expo))
    cls = base_cls(s, w0) + ["route=" + route, f"normalized={normalized}"]
    info = dict(expo=bool(s.expo), route=route, nmz=str(normalized), fam=s.desc["fam"])
    if route == "grid":
        # the full (normalized x get) table of partial_trace_exact and the normalized column of local_expectation_exact
        e = 0.0
        for nz in NORMALIZED:
            for get in ("matrix", "array", "tensor"):
                sub = dict(case, route="partial_trace_exact", normalized=nz, get=get)
                e = max(e, run_exact(sub)["err"])
            e = max(e, run_exact(dict(case, route="local_expectation_exact", normalized=nz))["err"])
        return {"nt": is_nt(s, w0), "cls": base_cls(s, w0) + ["route=grid"], "err": e}
    if route == "partial_trace_exact":
        get = case["get"]
        info["get"] = get
        where = where_sites(s, w0)
        res = guarded(lambda: psi.partial_trace_exact(where, optimize=case["optimize"], normalized=normalized, get=get), **info)
        rho = split_return(res, normalized, s, TOL, **info)
        D = prod(s.phys[i] for i in w0)
        if get == "tensor":
            if not isinstance(rho, qtn.Tensor):
                raise Violation("get-type", got=repr(type(rho)), **info)
            k = [psi.site_ind(x) for x in where]
            b = [ix for ix in rho.inds if ix not in k]
            if len(b) != len(k) or set(k) - set(rho.inds):
                raise Violation("rho-labels", got=list(rho.inds), **info)
            # bra labels must follow the site order as well: take them in the order of the tensor's own axes
            if tuple(rho.inds[: len(k)]) != tuple(k):
                raise Violation("rho-labels", got=list(rho.inds), **info)
            rho = np.asarray(rho.data).reshape(D, D)
        elif get == "array":
            rho = np.asarray(rho)
            want = tuple(s.phys[i] for i in w0) * 2
            if rho.shape != want:
                raise Violation("rho-shape", got=list(rho.shape), want=list(want), **info)
            rho = rho.reshape(D, D)
        e = check_rho(rho, s, w0, normalized is True, TOL, **info)
        cls.append("get=" + get)
    elif route == "local_expectation_exact":
        where = where_sites(s, w0)
        G, Gm = make_op(s, w0, case["gseed"], case["gform"])
        res = guarded(lambda: psi.local_expectation_exact(G, where, optimize=case["optimize"], normalized=normalized), **info)
        x = split_return(res, normalized, s, TOL, **info)
        nb = normalized is True
        e = check_scalar(x, ref_expec(s, Gm, w0, nb), np.linalg.norm(Gm) * (1.0 if nb else s.nrm), TOL, **info)
        cls.append("G=" + case["gform"])
    else:
        if normalized == "return":
            normalized = True  # documented as bool for the many-term form
        terms, refs = {}, {}
        for t, w in enumerate(case["wheres"]):
            key = where_sites(s, w)
            if key in terms:
                continue
            G, Gm = make_op(s, w, case["gseed"] + t, "matrix")
            terms[key] = G
            refs[key] = (ref_expec(s, Gm, w, normalized), np.linalg.norm(Gm) * (1.0 if normalized else s.nrm))
        ra = case["return_all"]
        res = guarded(lambda: psi.compute_local_expectation_exact(terms, optimize=case["optimize"], normalized=normalized,
                                                                  return_all=ra), **info)
        e = check_terms(res, refs, ra, TOL, **info)
        cls += [f"terms={len(terms)}", f"return_all={ra}"]
    return {"nt": is_nt(s, w0), "cls": cls, "err": e}


def check_terms(res, refs, return_all, tol, pick=None, **info):
    """compute_* result: a sum, or (return_all) a dict with exactly the keys given."""
    if return_all:
        if not isinstance(res, dict) or set(res) != set(refs):
            raise Violation("terms-keys", got=repr(sorted(map(repr, res)) if isinstance(res, dict) else type(res)), **info)
        e = 0.0
        for k, (r, fl) in refs.items():
            v = res[k] if pick is None else pick(res[k])
            e = max(e, check_scalar(v, r, fl, tol, **info))
        return e
    return check_scalar(res, sum(r for r, _ in refs.values()), sum(fl for _, fl in refs.values()), tol, **info)


# ---------------------------------------------------------------------------
# 2. compressed-contraction routes (contract_compressed / contract_around) with an untruncating cap
# ---------------------------------------------------------------------------

@st.composite
def s_compressed(draw, tier):
    # (MatrixProductState deliberately disables the generic partial_trace with a rename notice, so no MPS here)
    k = draw(st.integers(0, 5))
    desc = draw(s_graph()) if k <= 3 else draw(s_peps(shapes=((2, 2), (2, 3), (1, 3))))
    n = nsites(desc)
    route = draw(st.sampled_from(["partial_trace", "local_expectation", "local_expectation", "compute_local_expectation"]))
    nterms = draw(st.integers(1, 3)) if route.startswith("compute") else 1
    method = draw(st.sampled_from(["contract_compressed", "contract_compressed", "contract_around"]))
    opts = ["greedy", "auto-hq"] + (["greedy-compressed"] if method == "contract_compressed" else [])
    return {"state": desc, "route": route, "wheres": [draw(s_where(n)) for _ in range(nterms)], "gseed": draw(A.seeds),
            "method": method, "optimize": draw(st.sampled_from(opts)),
            "flatten": draw(st.sampled_from([True, True, False, "all"])), "reduce": draw(st.integers(0, 3)) == 0,
            "normalized": draw(st.booleans()), "symmetrized": draw(st.sampled_from(["auto", True, False])),
            "max_bond": draw(st.sampled_from([64, 256])), "return_all": draw(st.booleans())}


def run_compressed(case):
    s = build_state(case["state"])
    psi = s.psi
    route, normalized = case["route"], case["normalized"]
    if s.desc["fam"] == "peps" and route == "compute_local_expectation":
        route = "local_expectation"  # PEPS overrides the many-term form with the plaquette method (sub-check peps2d)
    w0 = case["wheres"][0]
    # `reduce` pulls exactly two physical indices onto a bond (experimental, documented for pairs)
    # (and needs something left to contract: on a two-site state with both sites kept the reduced network is empty)
    reduce = bool(case["reduce"]) and all(len(w) == 2 for w in case["wheres"]) and s.n >= 3
    kw = dict(max_bond=case["max_bond"], optimize=case["optimize"], flatten=case["flatten"], reduce=reduce,
              normalized=normalized, symmetrized=case["symmetrized"], method=case["method"], cutoff=0.0)
    info = dict(expo=bool(s.expo), route=route, nmz=str(normalized), fam=s.desc["fam"], method=case["method"], flatten=str(case["flatten"]),
                reduce=reduce)
    cls = base_cls(s, w0) + ["route=" + route, "method=" + case["method"], f"flatten={case['flatten']}", f"reduce={reduce}",
                             f"normalized={normalized}", f"symmetrized={case['symmetrized']}", "opt=" + case["optimize"]]
    if route == "partial_trace":
        where = where_sites(s, w0)
        rho = guarded(lambda: psi.partial_trace(where, **kw), **info)
        e = check_rho(rho, s, w0, normalized, TOL, **info)
    elif route == "local_expectation":
        where = where_sites(s, w0)
        G, Gm = make_op(s, w0, case["gseed"])
        x = guarded(lambda: psi.local_expectation(G, where, **kw), **info)
        e = check_scalar(x, ref_expec(s, Gm, w0, normalized), np.linalg.norm(Gm) * (1.0 if normalized else s.nrm), TOL, **info)
    else:
        terms, refs = {}, {}
        for t, w in enumerate(case["wheres"]):
            key = where_sites(s, w)
            if key in terms:
                continue
            G, Gm = make_op(s, w, case["gseed"] + t)
            terms[key] = G
            refs[key] = (ref_expec(s, Gm, w, normalized), np.linalg.norm(Gm) * (1.0 if normalized else s.nrm))
        ra = case["return_all"]
        res = guarded(lambda: psi.compute_local_expectation(terms, return_all=ra, **kw), **info)
        e = check_terms(res, refs, ra, TOL, **info)
        cls += [f"terms={len(terms)}", f"return_all={ra}"]
    return {"nt": is_nt(s, w0), "cls": cls, "err": e}


# ---------------------------------------------------------------------------
# 3. cluster routes
# ---------------------------------------------------------------------------

def converge_gauges(psi):
    """Simple-update gauges at their fixed point (DESIGN S); not converged -> rejection."""
    g, info = {}, {}
    psig = psi.copy()
    psig.gauge_all_simple_(max_iterations=1000, tol=1e-13, gauges=g, info=info)
    sd = float(info.get("max_sdiff", 1.0))
    if not (0.0 <= sd <= 1e-13):
        raise Reject("gauges not converged")
    for v in g.values():
        v = np.asarray(v)
        if not np.all(np.isfinite(v)) or float(np.min(np.abs(v))) < 1e-7 * float(np.max(np.abs(v))):
            raise Reject("ill-conditioned gauge spectrum")
    return psig, g


def eccentricity(n, edges, src):
    adj = {i: set() for i in range(n)}
    for a, b in edges:
        adj[a].add(b)
        adj[b].add(a)
    dist = {i: 0 for i in src}
    frontier = list(src)
    while frontier:
        nxt = []
        for u in frontier:
            for v in adj[u]:
                if v not in dist:
                    dist[v] = dist[u] + 1
                    nxt.append(v)
        frontier = nxt
    return max(dist.values())


@st.composite
def s_cluster(draw, tier, kind):
    """kind 'span': any graph, cluster made to contain every tensor; 'tree': tree + converged gauges, small clusters."""
    forest = kind == "span" and draw(st.integers(0, 5)) == 0
    if forest:
        # two components (either may be a lone, bond-less site): the cluster spans iff `where` touches both
        n1, n2 = draw(st.integers(1, 4)), draw(st.integers(1, 4))
        e1 = draw(s_tree_edges(n1))
        e2 = [[a + n1, b + n1] for a, b in draw(s_tree_edges(n2))]
        desc = draw(s_graph(shape="tree", nmin=2, nmax=2))
        desc.update(shape="forest", edges=e1 + e2, phys=fit_phys([draw(st.sampled_from([2, 2, 3])) for _ in range(n1 + n2)]),
                    bonds=[draw(st.sampled_from([2, 3])) for _ in e1 + e2])
        n = n1 + n2
        wheres_k = 2
        mode = "graphdistance"
        gauged = False
    elif kind == "span":
        desc = draw(s_graph())
        n = nsites(desc)
        wheres_k = 3
        mode = "loopunion" if (desc["shape"] == "biconn" and draw(st.booleans())) else "graphdistance"
        gauged = draw(st.integers(0, 2)) == 0
    elif forest:
        pass
    else:
        desc = draw(s_graph(shape="tree"))
        n = nsites(desc)
        wheres_k = 2
        mode = "graphdistance"
        gauged = True
    route = draw(st.sampled_from(["partial_trace_cluster", "local_expectation_cluster", "local_expectation_cluster",
                                  "compute_local_expectation_cluster"] + (["grid"] if kind == "span" else [])))
    if route == "grid":
        desc["unit"] = False
        gauged = False
    nterms = draw(st.integers(1, 3)) if route.startswith("compute") else 1
    if forest:
        wheres = []
        for _ in range(nterms):
            w = [draw(st.integers(0, n1 - 1)), draw(st.integers(n1, n - 1))]
            wheres.append(w[::-1] if draw(st.booleans()) else w)
        return {"state": desc, "kind": kind, "route": route, "wheres": wheres,
                "gseed": draw(A.seeds), "mode": mode, "gauged": False, "extra": draw(st.integers(0, 2)),
                "max_distance": 0, "fillin": 0, "normalized": draw(st.sampled_from(NORMALIZED)),
                "get": draw(st.sampled_from(["matrix", "array", "tensor"])), "max_bond": None, "grow_from": "all",
                "optimize": draw(st.sampled_from(["auto-hq", "greedy"])), "return_all": draw(st.booleans())}
    return {"state": desc, "kind": kind, "route": route, "wheres": [draw(s_where(n, kmax=wheres_k)) for _ in range(nterms)],
            "gseed": draw(A.seeds), "mode": mode, "gauged": gauged, "extra": draw(st.integers(0, 2)),
            "max_distance": draw(st.integers(0, 2)), "fillin": draw(st.sampled_from([0, 0, 1, True])),
            "normalized": draw(st.sampled_from(NORMALIZED)), "get": draw(st.sampled_from(["matrix", "array", "tensor"])),
            "max_bond": draw(st.sampled_from([None, None, 64])), "grow_from": draw(st.sampled_from(["all", "any"])),
            "optimize": draw(st.sampled_from(["auto-hq", "greedy"])), "return_all": draw(st.booleans())}


def run_cluster(case):
    if case["route"] == "grid":
        # (normalized x get) table of partial_trace_cluster and the normalized column of local_expectation_cluster
        e, out = 0.0, None
        for nz in NORMALIZED:
            for get in ("matrix", "array", "tensor"):
                out = run_cluster(dict(case, route="partial_trace_cluster", normalized=nz, get=get, gauged=False))
                e = max(e, out["err"])
            e = max(e, run_cluster(dict(case, route="local_expectation_cluster", normalized=nz, gauged=False))["err"])
        return {"nt": out["nt"], "cls": [c for c in out["cls"] if not c.startswith(("route=", "get=", "normalized="))] + ["route=grid"],
                "err": e}
    qtn = Q()
    s = build_state(case["state"])
    desc = s.desc
    kind, route, gauged = case["kind"], case["route"], bool(case["gauged"])
    normalized = case["normalized"]
    if gauged:
        normalized = True  # a gauged cluster fixes the state only up to scale
    w0 = case["wheres"][0]
    n = s.n
    if kind == "span":
        ecc = max(eccentricity(n, desc["edges"], w) for w in case["wheres"])
        md = n if case["mode"] == "loopunion" else ecc + case["extra"]
    else:
        md = case["max_distance"]
    psi, g = (converge_gauges(s.psi) if gauged else (s.psi, None))
    tol = TOLG if gauged else TOL
    ckw = dict(max_distance=md, mode=case["mode"], fillin=case["fillin"], gauges=g)
    if case["mode"] == "loopunion":
        ckw["grow_from"] = case["grow_from"]
    info = dict(expo=bool(s.expo), raw=normalized is not True, route=route, nmz=str(normalized), kind=kind, gauged=gauged,
                mode=case["mode"], forest=desc["shape"] == "forest")
    if kind == "span":
        # the property only speaks about clusters that contain the whole network
        for w in case["wheres"]:
            k = guarded(lambda: psi.get_cluster(where_sites(s, w), **{**ckw, "gauges": None}), **info)
            if k.num_tensors != n:
                raise Reject("cluster does not span the network")
    cls = base_cls(s, w0) + ["route=" + route, "kind=" + kind, f"gauged={gauged}", "mode=" + case["mode"],
                             f"max_distance={md if kind == 'tree' else 'span'}", f"normalized={normalized}",
                             "shape=" + desc["shape"]]
    if route == "partial_trace_cluster":
        where = where_sites(s, w0)
        get = case["get"]
        if normalized is True and get == "tensor":
            get = "matrix"  # get='tensor' + normalized=True is finding C13-b of partial_trace_exact (sub-check ag_exact)
        info["get"] = get
        res = guarded(lambda: psi.partial_trace_cluster(where, optimize=case["optimize"], normalized=normalized, get=get, **ckw),
                      **info)
        if normalized == "return":
            if not (isinstance(res, tuple) and len(res) == 2):
                raise Violation("return-shape", got=repr(type(res)), **info)
            res = split_return(res, normalized, s, tol, **info)
        D = prod(s.phys[i] for i in w0)
        if get == "tensor":
            if not isinstance(res, qtn.Tensor):
                raise Violation("get-type", got=repr(type(res)), **info)
            res = np.asarray(res.data)
        res = np.asarray(res)
        if get != "matrix":
            want = tuple(s.phys[i] for i in w0) * 2
            if res.shape != want:
                raise Violation("rho-shape", got=list(res.shape), want=list(want), **info)
            res = res.reshape(D, D)
        e = check_rho(res, s, w0, normalized is True, tol, **info)
        cls.append("get=" + get)
    else:
        nb = normalized is True  # documented as bool for expectations
        okw = dict(optimize=case["optimize"], normalized=nb, **ckw)
        if case["max_bond"] is not None:
            okw.update(max_bond=case["max_bond"], cutoff=0.0, optimize="greedy")
            cls.append("max_bond")
        if route == "local_expectation_cluster":
            where = where_sites(s, w0)
            G, Gm = make_op(s, w0, case["gseed"])
            x = guarded(lambda: psi.local_expectation_cluster(G, where, **okw), **info)
            e = check_scalar(x, ref_expec(s, Gm, w0, nb), np.linalg.norm(Gm) * (1.0 if nb else s.nrm), tol, **info)
        else:
            terms, refs = {}, {}
            for t, w in enumerate(case["wheres"]):
                key = where_sites(s, w)
                if key in terms:
                    continue
                G, Gm = make_op(s, w, case["gseed"] + t)
                terms[key] = G
                refs[key] = (ref_expec(s, Gm, w, nb), np.linalg.norm(Gm) * (1.0 if nb else s.nrm))
            ra = case["return_all"]
            res = guarded(lambda: psi.compute_local_expectation_cluster(terms, return_all=ra, **okw), **info)
            e = check_terms(res, refs, ra, tol, **info)
            cls += [f"terms={len(terms)}", f"return_all={ra}"]
    return {"nt": is_nt(s, w0), "cls": cls, "err": e}


# ---------------------------------------------------------------------------
# 4. loop expansions, only in the constructed classes where they are exact
# ---------------------------------------------------------------------------

@st.composite
def s_loop_where(draw, desc):
    shape = desc["shape"]
    if shape == "tree":
        # a site, or the two ends of an edge (either order)
        if draw(st.integers(0, 3)) == 0:
            return [draw(st.integers(0, len(desc["phys"]) - 1))]
        e = list(draw(st.sampled_from(desc["edges"])))
        return e[::-1] if draw(st.booleans()) else e
    kmax = 3 if shape == "unicyclic" else 2
    return draw(s_where(len(desc["phys"]), kmax=kmax, pool=desc["core"]))


@st.composite
def s_loops(draw, tier):
    big_global = draw(st.integers(0, 11)) == 0  # the single-global-factor class on > 8 sites (C13-h), constructed on purpose
    if big_global:
        desc = draw(s_graph(shape="tree", nmin=9, nmax=9))
    else:
        desc = draw(s_graph(shape=draw(st.sampled_from(["tree", "unicyclic", "unicyclic", "core", "core", "biconn"]))))
    shape = desc["shape"]
    kinds = ["sloop", "sloop", "gloop"] if shape in ("tree", "unicyclic") else ["gloop"]
    kind = "gloop" if big_global else draw(st.sampled_from(kinds))
    route = "compute" if big_global else draw(
        st.sampled_from(["local", "local", "compute", "norm"] if kind == "gloop" else ["local", "local", "compute"]))
    nterms = draw(st.integers(1, 3)) if route == "compute" else 1
    sizes = ["c", "n", "n+2"] + (["none"] if shape in ("tree", "unicyclic") else [])
    # normalized='global' divides every tensor by one estimated norm and then takes *unnormalised* cluster values: that is
    # exact only if every cluster is tree like (trees, where at the gauge fixed point all local norms are equal) or holds
    # every tensor (2-connected graphs without tails); with a loop *and* tails it is an approximation by design (3e-4..1e-3)
    norms = [True, True, "local", "separate", "prod"] + (
        ["global"] if (route == "compute" and kind == "gloop" and shape in ("tree", "biconn")) else [])
    normalized = "global" if big_global else draw(st.sampled_from(norms))
    return {"state": desc, "kind": kind, "route": route, "wheres": [draw(s_loop_where(desc)) for _ in range(nterms)],
            "gseed": draw(A.seeds), "size": draw(st.sampled_from(sizes)), "combine": draw(st.sampled_from(["prod", "prod", "sum"])),
            "normalized": normalized, "autocomplete": draw(st.booleans()), "autoreduce": draw(st.booleans()),
            "grow_from": draw(st.sampled_from(["all", "all", "any"])), "strict_size": draw(st.integers(0, 3)) == 0,
            "strip": draw(st.booleans()), "return_all": draw(st.booleans()), "share_info": draw(st.booleans()),
            # no gauging at all (the signature default None, or an empty dict): exact when the generalized loop is the whole
            # network, i.e. on 2-connected graphs without tails - constructed there half of the time
            "gauges": draw(st.sampled_from(["none", "empty"])) if (shape == "biconn" and kind == "gloop" and route != "norm"
                                                                   and normalized != "global" and draw(st.booleans()))
            else "converged"}


def run_loops(case):
    s = build_state(case["state"])
    desc = s.desc
    n, c = s.n, (len(desc["core"]) or 2)
    kind, route = case["kind"], case["route"]
    size = {"c": max(c, 3), "n": max(n, c, 3), "n+2": n + 2, "none": None}[case["size"]]
    gmode = case.get("gauges", "converged")
    if gmode != "converged" and not (desc["shape"] == "biconn" and kind == "gloop" and route != "norm"
                                     and case["normalized"] != "global"):
        gmode = "converged"
    if gmode == "converged":
        psi, g = converge_gauges(s.psi)
    else:
        psi, g = s.psi, (None if gmode == "none" else {})
    combine, normalized = case["combine"], case["normalized"]
    if normalized == "separate" and combine != "sum":
        combine = "sum"  # 'separate' is only defined for combine='sum'
    if normalized == "global" and desc["shape"] not in ("tree", "biconn"):
        normalized = True  # not an exact class for the single global factor (see s_loops)
    w0 = case["wheres"][0]
    info = dict(expo=bool(s.expo), route=kind + ":" + route, shape=desc["shape"], combine=combine, nmz=str(normalized), size=case["size"],
                gt8=n > 8, gauges=gmode)
    cls = base_cls(s, w0) + ["gauges=" + gmode, "route=" + kind + ":" + route, "shape=" + desc["shape"], "size=" + case["size"], "combine=" + combine,
                             f"normalized={normalized}", f"autocomplete={case['autocomplete']}", f"autoreduce={case['autoreduce']}",
                             "grow_from=" + case["grow_from"]]
    if route == "norm":
        sz = size
        kw = dict(gloops=sz, gauges=g, autocomplete=case["autocomplete"], autoreduce=case["autoreduce"], strip_exponent=case["strip"])
        res = guarded(lambda: psi.norm_gloop_expand(**kw), **info)
        if case["strip"]:
            if not (isinstance(res, tuple) and len(res) == 2):
                raise Violation("strip-exponent-shape", got=repr(type(res)), **info)
            res = res[0] * 10.0 ** float(res[1])
        e = check_scalar(res, np.sqrt(s.nrm), np.sqrt(s.nrm), TOLG, **info)
        return {"nt": not s.unit, "cls": cls + [f"strip={case['strip']}"], "err": e}
    kw = dict(gauges=g, combine=combine, normalized=normalized, autocomplete=case["autocomplete"], autoreduce=case["autoreduce"],
              grow_from=case["grow_from"], strict_size=case["strict_size"])
    kw["sloops" if kind == "sloop" else "gloops"] = size
    if route == "local":
        where = where_sites(s, w0)
        G, Gm = make_op(s, w0, case["gseed"])
        fn = psi.local_expectation_sloop_expand if kind == "sloop" else psi.local_expectation_gloop_expand
        x = guarded(lambda: fn(G, where, **kw), **info)
        e = check_scalar(x, ref_expec(s, Gm, w0, True), np.linalg.norm(Gm), TOLG, **info)
    else:
        terms, refs = {}, {}
        for t, w in enumerate(case["wheres"]):
            key = where_sites(s, w)
            if key in terms:
                continue
            G, Gm = make_op(s, w, case["gseed"] + t)
            terms[key] = G
            refs[key] = (ref_expec(s, Gm, w, True), np.linalg.norm(Gm))
        ra = case["return_all"]
        fn = psi.compute_local_expectation_sloop_expand if kind == "sloop" else psi.compute_local_expectation_gloop_expand
        res = guarded(lambda: fn(terms, return_all=ra, **kw), **info)
        e = check_terms(res, refs, ra, TOLG, **info)
        cls += [f"terms={len(terms)}", f"return_all={ra}"]
    return {"nt": is_nt(s, w0), "cls": cls, "err": e}


# ---------------------------------------------------------------------------
# 5. 1D: canonical-form and environment routes
# ---------------------------------------------------------------------------

@st.composite
def s_mps_local(draw, tier):
    route = draw(st.sampled_from(["partial_trace_to_dense_canonical", "local_expectation_canonical",
                                  "compute:canonical", "compute:canonical", "compute:envs", "compute:envs",
                                  "compute_local_expectation_canonical", "compute_local_expectation_via_envs"]))
    envs = route in ("compute:envs", "compute_local_expectation_via_envs")
    desc = draw(s_mps(Lmin=1, cyclic=draw(st.booleans()) if envs else False))
    n = desc["L"]
    nterms = draw(st.integers(1, 4)) if route.startswith("compute") else 1
    return {"state": desc, "route": route, "wheres": [draw(s_where(n)) for _ in range(nterms)], "gseed": draw(A.seeds),
            "normalized": draw(st.booleans()), "return_all": draw(st.booleans()), "inplace": draw(st.booleans()),
            "info": draw(st.sampled_from(["none", "empty", "calc", "precanonized"])), "center": draw(st.integers(0, 6)),
            "optimize": draw(st.sampled_from([None, "greedy"]))}


def run_mps_local(case):
    s = build_state(case["state"])
    psi = s.psi
    L = s.n
    route, normalized = case["route"], case["normalized"]
    w0 = case["wheres"][0]
    info_arg = None
    if case["info"] == "empty":
        info_arg = {}
    elif case["info"] == "calc":
        info_arg = {"cur_orthog": "calc"}
    elif case["info"] == "precanonized" and not s.desc["cyclic"]:
        c = case["center"] % L
        info_arg = {}
        psi.canonicalize_(c, info=info_arg)  # the state is unchanged, its canonical record is tracked in info
    info = dict(expo=bool(s.expo), raw=not normalized, envs="envs" in route, route=route, nmz=str(normalized),
                cyclic=s.desc["cyclic"], info=case["info"], L1=L == 1)
    cls = base_cls(s, w0) + ["route=" + route, f"normalized={normalized}", "cyclic" if s.desc["cyclic"] else "open",
                             "info=" + case["info"]]
    ckw = {} if case["optimize"] is None else {"optimize": case["optimize"]}
    fl = 1.0 if normalized else s.nrm
    if route == "partial_trace_to_dense_canonical":
        where = where_sites(s, w0)
        rho = guarded(lambda: psi.partial_trace_to_dense_canonical(where, normalized=normalized, info=info_arg, **ckw), **info)
        e = check_rho(rho, s, w0, normalized, TOL, **info)
    elif route == "local_expectation_canonical":
        where = where_sites(s, w0)
        G, Gm = make_op(s, w0, case["gseed"])
        x = guarded(lambda: psi.local_expectation_canonical(G, where, normalized=normalized, info=info_arg, **ckw), **info)
        e = check_scalar(x, ref_expec(s, Gm, w0, normalized), np.linalg.norm(Gm) * fl, TOL, **info)
    else:
        terms, refs = {}, {}
        for t, w in enumerate(case["wheres"]):
            key = where_sites(s, w)
            if key in terms:
                continue
            G, Gm = make_op(s, w, case["gseed"] + t)
            terms[key] = G
            refs[key] = (ref_expec(s, Gm, w, normalized), np.linalg.norm(Gm) * fl)
        ra = case["return_all"]
        before = [np.array(t.data) for t in psi]
        if route.startswith("compute:"):
            method = route.split(":")[1]
            kw = dict(normalized=normalized, return_all=ra, method=method, **ckw)
            if method == "canonical":
                kw.update(info=info_arg, inplace=case["inplace"])
            res = guarded(lambda: psi.compute_local_expectation(terms, **kw), **info)
        elif route == "compute_local_expectation_canonical":
            res = guarded(lambda: psi.compute_local_expectation_canonical(terms, normalized=normalized, return_all=ra,
                                                                          info=info_arg, inplace=case["inplace"], **ckw), **info)
        else:
            res = guarded(lambda: psi.compute_local_expectation_via_envs(terms, normalized=normalized, return_all=ra, **ckw), **info)
        e = check_terms(res, refs, ra, TOL, **info)
        cls += [f"terms={len(terms)}", f"return_all={ra}"]
        if "envs" in route or not case["inplace"]:
            # documented: canonicalisation happens on a copy unless inplace=True
            for a, t in zip(before, psi):
                if a.shape != t.data.shape or not np.array_equal(a, np.asarray(t.data)):
                    raise Violation("receiver-mutated", **info)
    # whatever was moved around, the receiver still denotes the same state
    outs = [psi.site_ind(x) for x in s.sites]
    d2 = denote(psi, outs).reshape(-1)
    ed = rel_err(d2, s.dense, floor=np.sqrt(s.nrm))
    if not ed <= 1e-8:
        raise Violation("state-changed", err=ed, **info)
    return {"nt": is_nt(s, w0), "cls": cls, "err": e}


# ---------------------------------------------------------------------------
# 6. 1D: expec_TN_1D / MPS.expec / correlation / magnetization
# ---------------------------------------------------------------------------

@st.composite
def s_mps_expec(draw, tier):
    route = draw(st.sampled_from(["gate", "gate", "gate_contract", "mpo", "correlation", "correlation", "magnetization"]))
    desc = draw(s_mps(cyclic=False if route == "magnetization" else None))
    if route in ("correlation", "magnetization"):
        desc["unit"] = True  # only defined for normalised states
    n = desc["L"]
    compress = draw(st.sampled_from([None, False, True]))
    if compress and desc["cyclic"]:
        # transfer-matrix compression calls an interpolative SVD on the (left bond^2 x right bond^2) section operator;
        # that is a decomposition route of its own (C17): keep it square and full rank by construction
        desc["bonds"] = [max(2, desc["bonds"][0])] * n
    return {"state": desc, "route": route, "where": draw(s_where(n)), "where2": draw(s_where(n, kmax=2)),
            "gseed": draw(A.seeds), "spelling": draw(st.sampled_from(["function", "method"])),
            "compress": compress, "direction": draw(st.sampled_from(["X", "Y", "Z"])),
            "mpo_bond": draw(st.integers(1, 3)), "B": draw(st.booleans()), "lone": draw(st.booleans())}


def run_mps_expec(case):
    qtn = Q()
    import quimb as qu

    s = build_state(case["state"])
    psi, L, cyc = s.psi, s.n, s.desc["cyclic"]
    route = case["route"]
    w = case["where"]
    where = where_sites(s, w)
    info = dict(expo=bool(s.expo), route=route, cyclic=cyc, compress=str(case["compress"]))
    cls = base_cls(s, w) + ["route=" + route, "cyclic" if cyc else "open", f"compress={case['compress']}"]
    ekw = {}
    if cyc:
        # the heuristic (compress=None) inspects bond (0, 1) of an MPS and is only defined for flat networks
        ekw["compress"] = case["compress"] if case["compress"] is not None else False
        if ekw["compress"]:
            ekw["eps"] = 1e-14
    tol = 1e-7 if ekw.get("compress") else TOL
    bra = psi.H

    def expec(*tns):
        if case["spelling"] == "method":
            return tns[0].expec(*tns[1:], **ekw)
        return qtn.expec_TN_1D(*tns, **ekw)

    if route in ("gate", "gate_contract"):
        G, Gm = make_op(s, w, case["gseed"])
        contract = route == "gate_contract"
        if contract and len(w) > 2:
            contract = False
        if ekw.get("compress") and (len(w) > 1):
            ekw["compress"] = False  # transfer matrix compression needs one tensor per site
            tol = TOL
        ket = guarded(lambda: psi.gate(G, where, contract=contract), **info)
        x = guarded(lambda: expec(bra, ket), **info)
        e = check_scalar(x, ref_expec(s, Gm, w, False), np.linalg.norm(Gm) * s.nrm, tol, **info)
    elif route == "mpo":
        # <psi| W |psi> with a random MPO built from generated arrays (dense W by einsum over the same arrays)
        bd = case["mpo_bond"]
        arrs, dense_ts = [], []
        for i in range(L):
            shape, inds = [], []
            if cyc or i > 0:
                shape.append(bd)
                inds.append(f"m{(i - 1) % L if cyc else i - 1}")
            if cyc or i < L - 1:
                shape.append(bd)
                inds.append(f"m{i}")
            shape += [s.phys[i], s.phys[i]]
            a = arr(case["gseed"], i, shape, "complex128")
            arrs.append(a)
            dense_ts.append((a, inds + [f"u{i}", f"d{i}"]))
        W = einsum_value(dense_ts, [f"u{i}" for i in range(L)] + [f"d{i}" for i in range(L)])
        D = prod(s.phys)
        W = W.reshape(D, D)
        mpo = qtn.MatrixProductOperator(arrs, shape="lrud")
        x = guarded(lambda: expec(bra, mpo, psi), **info)
        mag = float(np.prod([np.linalg.norm(a) for a in arrs]))
        e = check_scalar(x, np.vdot(s.dense, W @ s.dense), mag * s.nrm, tol, **info)
    elif route == "correlation":
        w2 = [j for j in case["where2"] if j not in w] or [j for j in range(L) if j not in w][:1]
        if not w2:
            raise Reject("no second site")
        if len(w) > 2:
            w = w[:2]
            where = where_sites(s, w)
        if cyc and (len(w) > 1 or len(w2) > 1):
            ekw["compress"] = False
            tol = TOL
        Aop, Am = make_op(s, w, case["gseed"])
        useB = case["B"] or [s.phys[i] for i in w] != [s.phys[j] for j in w2]
        Bm = make_op(s, w2, case["gseed"] + 1)[1] if useB else Am
        i_arg = where[0] if (len(w) == 1 and case["lone"]) else where
        j_sites = where_sites(s, w2)
        j_arg = j_sites[0] if (len(w2) == 1 and case["lone"]) else j_sites
        x = guarded(lambda: psi.correlation(Aop, i_arg, j_arg, B=(Bm if useB else None), **ekw), **info)
        d = s.dense
        EA, EB = embed(Am, s.phys, w), embed(Bm, s.phys, w2)
        ref = np.vdot(d, EB @ (EA @ d)) - np.vdot(d, EA @ d) * np.vdot(d, EB @ d)
        e = check_scalar(x, ref, np.linalg.norm(Am) * np.linalg.norm(Bm), tol, **info)
        cls.append(f"B={useB}")
    else:
        cand = [i for i in range(L) if s.phys[i] in (2, 3)]
        i = cand[w[0] % len(cand)]
        S = (s.phys[i] - 1) / 2
        Om = np.asarray(qu.spin_operator(case["direction"], S=S))
        x = guarded(lambda: psi.magnetization(i, case["direction"]), **info)
        e = check_scalar(x, ref_expec(s, Om, [i], True), np.linalg.norm(Om), TOL, **info)
        cls.append("dir=" + case["direction"])
        w = [i]
    return {"nt": is_nt(s, w), "cls": cls, "err": e}


# ---------------------------------------------------------------------------
# 7. 1D: partial trace to an MPO
# ---------------------------------------------------------------------------

@st.composite
def s_mps_ptr(draw, tier):
    desc = draw(s_mps())
    n = desc["L"]
    k = draw(st.integers(1, min(3, n)))
    keep = sorted(draw(st.lists(st.integers(0, n - 1), min_size=k, max_size=k, unique=True)))
    return {"state": desc, "keep": keep, "rescale": draw(st.booleans()), "as_slice": draw(st.booleans()),
            "upper": draw(st.sampled_from(["b{}", "bra{}"]))}


def run_mps_ptr(case):
    s = build_state(case["state"])
    psi = s.psi
    keep = list(case["keep"])
    contiguous = keep == list(range(keep[0], keep[-1] + 1))
    arg = slice(keep[0], keep[-1] + 1) if (case["as_slice"] and contiguous) else keep
    info = dict(expo=bool(s.expo), route="partial_trace_to_mpo", cyclic=s.desc["cyclic"], rescale=case["rescale"], complex="complex" in s.desc["dtype"])
    mpo = guarded(lambda: psi.partial_trace_to_mpo(arg, upper_ind_id=case["upper"], rescale_sites=case["rescale"]), **info)
    idx = list(range(len(keep))) if case["rescale"] else keep
    up = [mpo.upper_ind(i) for i in idx]
    lo = [mpo.lower_ind(i) for i in idx]
    if set(mpo.outer_inds()) != set(up + lo):
        raise Violation("mpo-labels", got=sorted(mpo.outer_inds()), want=sorted(up + lo), **info)
    D = prod(s.phys[i] for i in keep)
    M = denote(mpo, up + lo).reshape(D, D)
    e = check_rho(M, s, keep, False, TOL, **info)
    return {"nt": (len(keep) >= 2 or not s.unit) and "complex" in s.desc["dtype"],
            "cls": base_cls(s, keep) + ["cyclic" if s.desc["cyclic"] else "open", f"rescale={case['rescale']}",
                                       "slice" if isinstance(arg, slice) else "list"], "err": e}


# ---------------------------------------------------------------------------
# 8. 2D: plaquette-environment expectations, norm, normalize
# ---------------------------------------------------------------------------

MODES_2D = ["mps", "mps", "full-bond", "full-bond", "projector2d", "direct", "dm", "zipup", "projector", "local-early"]
# plaquette environments document {'mps', 'full-bond'}; the generic 1D compressors are reached through the same
# fall-through of contract_boundary_from. 'projector2d' is not a plaquette mode (it leaves the projector legs open and
# compute_local_expectation then hands back a rank-8 Tensor) - not generated for expectations.
MODES_2D_LOCAL = ["mps", "mps", "mps", "full-bond", "full-bond", "direct", "dm", "zipup", "projector", "local-early"]


@st.composite
def s_peps_local(draw, tier):
    desc = draw(s_peps())
    n = nsites(desc)
    nterms = draw(st.integers(1, 3))
    wheres = []
    for _ in range(nterms):
        w = draw(s_where(n, kmax=2))
        if len(w) == 2 and draw(st.integers(0, 7)) > 0:
            w = sorted(w)  # lattice order is the documented-accepted class: construct it 7 times out of 8
        wheres.append(w)
    return {"state": desc, "wheres": wheres, "gseed": draw(A.seeds), "mode": draw(st.sampled_from(MODES_2D_LOCAL)),
            "layer_tags": draw(st.booleans()), "autogroup": draw(st.booleans()), "normalized": draw(st.sampled_from([True, False, None])),
            "canonize": draw(st.booleans()), "return_all": draw(st.booleans()),
            "optimize": draw(st.sampled_from(["auto-hq", "greedy"])), "gform": draw(st.sampled_from(["matrix", "tensor"]))}


def run_peps_local(case):
    s = build_state(case["state"])
    psi = s.psi
    normalized = case["normalized"]
    nb = bool(normalized)  # None = leave the default, which is documented as False
    terms, refs = {}, {}
    any_rev = False
    for t, w in enumerate(case["wheres"]):
        key = where_sites(s, w)
        if len(w) == 1:
            key = key[0]  # documented spelling of a one-site term is the bare coordinate
        if key in terms:
            continue
        G, Gm = make_op(s, w, case["gseed"] + t, case["gform"])
        terms[key] = G
        refs[key] = (ref_expec(s, Gm, w, False), np.linalg.norm(Gm) * s.nrm)
        any_rev |= len(w) == 2 and list(w) != sorted(w)
    w0 = case["wheres"][0]
    kw = dict(max_bond=64, cutoff=0.0, mode=case["mode"], canonize=case["canonize"], autogroup=case["autogroup"],
              layer_tags=("KET", "BRA") if case["layer_tags"] else None, contract_optimize=case["optimize"],
              return_all=case["return_all"])
    if normalized is not None:
        kw["normalized"] = normalized
    info = dict(expo=bool(s.expo), route="2d.compute_local_expectation", mode=case["mode"], nmz=str(normalized), layer=case["layer_tags"])
    cls = base_cls(s, w0) + [f"{s.desc['Lx']}x{s.desc['Ly']}", "mode=" + case["mode"], f"layer_tags={case['layer_tags']}",
                             f"autogroup={case['autogroup']}", f"normalized={normalized}", f"return_all={case['return_all']}",
                             f"terms={len(terms)}", "G=" + case["gform"]]

    def call():
        if any_rev:
            # pairs must be given in lattice order: the plaquette map has no entry otherwise (DESIGN S)
            with rejecting(KeyError, tag="2d-pair-order:"):
                return psi.compute_local_expectation(terms, **kw)
        return psi.compute_local_expectation(terms, **kw)

    res = guarded(call, **info)
    e = 0.0
    if case["return_all"]:
        if not isinstance(res, dict) or set(res) != set(refs):
            raise Violation("terms-keys", **info)
        for k, (r, fl) in refs.items():
            v = res[k]
            if not (isinstance(v, tuple) and len(v) == 2):
                raise Violation("return-shape", got=repr(type(v)), **info)
            x, nrm = v
            # the pair is (Tr[rho_p O], Tr[rho_p]) of the *unnormalised* plaquette density matrix, whatever `normalized`
            e = max(e, check_scalar(x, r, fl, TOL, clause="expec", raw=True, **info))
            if nb:
                e = max(e, check_scalar(nrm, s.nrm, s.nrm, TOL, clause="norm", raw=True, **info))
            elif nrm is not None:
                raise Violation("return-shape", got="norm given although normalized=False", **info)
    else:
        ref = sum(r for r, _ in refs.values())
        fl = sum(f for _, f in refs.values())
        if nb:
            ref, fl = ref / s.nrm, fl / s.nrm
        e = check_scalar(res, ref, fl, TOL, raw=not nb, **info)
    return {"nt": is_nt(s, w0), "cls": cls, "err": e}


@st.composite
def s_peps_norm(draw, tier):
    return {"state": draw(s_peps()), "route": draw(st.sampled_from(["normalize", "normalize", "compute_norm"])),
            "mode": draw(st.sampled_from(MODES_2D)), "layer_tags": draw(st.booleans()), "canonize": draw(st.booleans()),
            "balance_bonds": draw(st.booleans()), "equalize_norms": draw(st.booleans()), "inplace": draw(st.booleans())}


def run_peps_norm(case):
    s = build_state(case["state"])
    psi = s.psi
    route = case["route"]
    lt = ("KET", "BRA") if case["layer_tags"] else None
    info = dict(expo=bool(s.expo), route="2d." + route, mode=case["mode"], layer=case["layer_tags"])
    cls = ["route=" + route, f"{s.desc['Lx']}x{s.desc['Ly']}", "mode=" + case["mode"], f"layer_tags={case['layer_tags']}",
           "unit" if s.unit else "raw", s.desc["dtype"]]
    kw = dict(max_bond=64, cutoff=0.0, mode=case["mode"], canonize=case["canonize"], layer_tags=lt)
    if route == "compute_norm":
        x = guarded(lambda: psi.compute_norm(**kw), **info)
        e = check_scalar(x, s.nrm, s.nrm, TOL, **info)
    else:
        out = guarded(lambda: psi.normalize(balance_bonds=case["balance_bonds"], equalize_norms=case["equalize_norms"],
                                            inplace=case["inplace"], **kw), **info)
        if case["inplace"] and out is not psi:
            raise Violation("inplace-identity", **info)
        outs = [out.site_ind(x) for x in s.sites]
        d2 = denote(out, outs).reshape(-1)
        # normalised, and still the same ray (the phase of a positive factor is 1)
        e = rel_err(d2, s.dense / np.sqrt(s.nrm), floor=1.0)
        if not e <= TOL * 10:
            raise Violation("normalize-state", err=e, norm=float(np.linalg.norm(d2)), **info)
        if not case["inplace"]:
            d0 = denote(psi, [psi.site_ind(x) for x in s.sites]).reshape(-1)
            if not rel_err(d0, s.dense, floor=np.sqrt(s.nrm)) <= 1e-12:
                raise Violation("receiver-mutated", **info)
        cls += [f"balance={case['balance_bonds']}", f"equalize={case['equalize_norms']}", f"inplace={case['inplace']}"]
    return {"nt": not s.unit, "cls": cls, "err": e}


# ---------------------------------------------------------------------------
# 9. 3D: cell environments / clusters
# ---------------------------------------------------------------------------

@st.composite
def s_peps3d_local(draw, tier):
    desc = draw(s_peps3d(shapes=((2, 2, 2),) * 7 + ((2, 2, 3),)))
    n = nsites(desc)
    route = draw(st.sampled_from(["partial_trace", "partial_trace", "partial_trace_cluster", "compute_local_expectation",
                                  "generic_local_expectation", "cluster_max_bond"]))
    if route in ("generic_local_expectation", "cluster_max_bond"):
        desc["Lz"] = 2  # the generic compressed contraction of the double layer is kept to 2x2x2
        n = nsites(desc)
    nterms = draw(st.integers(1, 2)) if route.startswith("compute") else 1
    return {"state": desc, "route": route, "wheres": [draw(s_where(n)) for _ in range(nterms)], "gseed": draw(A.seeds),
            "normalized": draw(st.booleans()), "flatten": draw(st.booleans()), "symmetrized": draw(st.sampled_from(["auto", True, False])),
            "canonize": draw(st.booleans()), "cell": draw(st.sampled_from(["boundary", "boundary", "compressed"])),
            "fillin": draw(st.sampled_from([0, 0, 1])), "return_all": draw(st.booleans()), "lone": draw(st.booleans())}


def run_peps3d_local(case):
    s = build_state(case["state"])
    psi = s.psi
    d = s.desc
    route, normalized = case["route"], case["normalized"]
    w0 = case["wheres"][0]
    info = dict(expo=bool(s.expo), raw=not normalized, route="3d." + route, nmz=str(normalized), flatten=case["flatten"],
                Lz=d["Lz"])
    cls = base_cls(s, w0) + ["route=" + route, f"{d['Lx']}x{d['Ly']}x{d['Lz']}", f"flatten={case['flatten']}",
                             f"normalized={normalized}", f"symmetrized={case['symmetrized']}"]
    kw = dict(max_bond=256, cutoff=0.0, normalized=normalized, flatten=case["flatten"], symmetrized=case["symmetrized"])
    fl = 1.0 if normalized else s.nrm

    def key_of(w):
        k = where_sites(s, w)
        return k[0] if (len(w) == 1 and case["lone"]) else k  # a lone coordinate is an accepted spelling in 3D

    if route == "partial_trace":
        rho = guarded(lambda: psi.partial_trace(key_of(w0), canonize=case["canonize"], contract_cell_method=case["cell"], **kw), **info)
        e = check_rho(rho, s, w0, normalized, TOL, **info)
        cls.append("cell=" + case["cell"])
    elif route == "partial_trace_cluster":
        md = d["Lx"] + d["Ly"] + d["Lz"]
        rho = guarded(lambda: psi.partial_trace_cluster(key_of(w0), max_distance=md, fillin=case["fillin"], **kw), **info)
        e = check_rho(rho, s, w0, normalized, TOL, **info)
    elif route in ("generic_local_expectation", "cluster_max_bond"):
        # the inherited arbitrary-geometry methods (compressed contraction) on a PEPS3D
        where = where_sites(s, w0)
        G, Gm = make_op(s, w0, case["gseed"])
        gkw = dict(max_bond=256, optimize="greedy", cutoff=0.0, normalized=normalized)
        if route == "generic_local_expectation":
            x = guarded(lambda: psi.local_expectation(G, where, **gkw), **info)
        else:
            x = guarded(lambda: psi.local_expectation_cluster(G, where, max_distance=d["Lx"] + d["Ly"] + d["Lz"], **gkw), **info)
        e = check_scalar(x, ref_expec(s, Gm, w0, normalized), np.linalg.norm(Gm) * fl, TOL, **info)
    else:
        terms, refs = {}, {}
        for t, w in enumerate(case["wheres"]):
            key = key_of(w)
            if key in terms:
                continue
            G, Gm = make_op(s, w, case["gseed"] + t)
            terms[key] = G
            refs[key] = (ref_expec(s, Gm, w, normalized), np.linalg.norm(Gm) * fl)
        ra = case["return_all"]
        res = guarded(lambda: psi.compute_local_expectation(terms, canonize=case["canonize"], return_all=ra, **kw), **info)
        e = check_terms(res, refs, ra, TOL, **info)
        cls += [f"terms={len(terms)}", f"return_all={ra}"]
    return {"nt": is_nt(s, w0), "cls": cls, "err": e}


# ---------------------------------------------------------------------------
# 10. the documented "node or sequence[node]" / "dict[node or (node, node)]" spellings of a one-site term
# ---------------------------------------------------------------------------

LONE_AG = ["partial_trace_exact", "compute_local_expectation_exact", "local_expectation_cluster",
           "compute_local_expectation_cluster", "local_expectation_sloop_expand", "local_expectation_gloop_expand",
           "compute_local_expectation_gloop_expand", "local_expectation", "compute_local_expectation"]
LONE_MPS = ["partial_trace_to_dense_canonical", "local_expectation_canonical", "mps.compute:canonical", "mps.compute:envs"]


@st.composite
def s_lone(draw, tier):
    # the three spellings that work today are drawn as often as the ten that are open findings (C13-c / C13-f), so the
    # sub-check keeps an accepted share while those are swallowed as known
    if draw(st.booleans()):
        route = draw(st.sampled_from(["partial_trace_exact", "partial_trace_to_dense_canonical", "local_expectation_canonical"]))
    else:
        route = draw(st.sampled_from(LONE_AG + LONE_MPS))
    desc = draw(s_mps(cyclic=False)) if route in LONE_MPS else draw(s_graph(shape="tree", names=True))
    return {"state": desc, "route": route, "site": draw(st.integers(0, 8)), "gseed": draw(A.seeds),
            "return_all": draw(st.booleans())}


def run_lone(case):
    try:
        return _run_lone(case)
    except Violation as v:
        if v.reason != "crash":
            raise
        # differential: the same call with the 1-tuple spelling must also fail, else the bare node was mishandled
        try:
            _run_lone(case, wrap=True)
        except Violation:
            raise v
        grp = "mps" if case["route"] in LONE_MPS else "ag"
        raise Violation("lone-node-rejected", group=grp, route=case["route"], exc=v.info.get("exc"), at=v.info.get("where")) from v


def _run_lone(case, wrap=False):
    s = build_state(case["state"])
    route = case["route"]
    i = case["site"] % s.n
    node = (s.sites[i],) if wrap else s.sites[i]
    G, Gm = make_op(s, [i], case["gseed"])
    info = dict(expo=bool(s.expo), route=route, lone=True)
    ref, fl = ref_expec(s, Gm, [i], True), np.linalg.norm(Gm)
    ra = case["return_all"]
    tol = TOL
    if route in LONE_MPS:
        psi = s.psi
        if route == "partial_trace_to_dense_canonical":
            rho = guarded(lambda: psi.partial_trace_to_dense_canonical(node), **info)
            e = check_rho(rho, s, [i], True, tol, **info)
        elif route == "local_expectation_canonical":
            e = check_scalar(guarded(lambda: psi.local_expectation_canonical(G, node), **info), ref, fl, tol, **info)
        else:
            method = route.split(":")[1]
            res = guarded(lambda: psi.compute_local_expectation({node: G}, method=method, return_all=ra), **info)
            e = check_terms(res, {node: (ref, fl)}, ra, tol, **info)
    else:
        needs_g = "cluster" in route or "loop" in route
        psi, g = converge_gauges(s.psi) if needs_g else (s.psi, None)
        tol = TOLG if needs_g else TOL
        if route == "partial_trace_exact":
            e = check_rho(guarded(lambda: psi.partial_trace_exact(node), **info), s, [i], True, tol, **info)
        elif route == "compute_local_expectation_exact":
            res = guarded(lambda: psi.compute_local_expectation_exact({node: G}, return_all=ra), **info)
            e = check_terms(res, {node: (ref, fl)}, ra, tol, **info)
        elif route == "local_expectation_cluster":
            e = check_scalar(guarded(lambda: psi.local_expectation_cluster(G, node, gauges=g), **info), ref, fl, tol, **info)
        elif route == "compute_local_expectation_cluster":
            res = guarded(lambda: psi.compute_local_expectation_cluster({node: G}, gauges=g, return_all=ra), **info)
            e = check_terms(res, {node: (ref, fl)}, ra, tol, **info)
        elif route == "local_expectation_sloop_expand":
            e = check_scalar(guarded(lambda: psi.local_expectation_sloop_expand(G, node, sloops=s.n + 1, gauges=g), **info),
                             ref, fl, tol, **info)
        elif route == "local_expectation_gloop_expand":
            e = check_scalar(guarded(lambda: psi.local_expectation_gloop_expand(G, node, gloops=s.n + 1, gauges=g), **info),
                             ref, fl, tol, **info)
        elif route == "compute_local_expectation_gloop_expand":
            res = guarded(lambda: psi.compute_local_expectation_gloop_expand({node: G}, gloops=s.n + 1, gauges=g, return_all=ra), **info)
            e = check_terms(res, {node: (ref, fl)}, ra, tol, **info)
        elif route == "local_expectation":
            e = check_scalar(guarded(lambda: psi.local_expectation(G, node, max_bond=64, optimize="greedy", cutoff=0.0), **info),
                             ref, fl, tol, **info)
        else:
            res = guarded(lambda: psi.compute_local_expectation({node: G}, max_bond=64, optimize="greedy", cutoff=0.0,
                                                                return_all=ra), **info)
            e = check_terms(res, {node: (ref, fl)}, ra, tol, **info)
    return {"nt": not s.unit, "cls": ["route=" + route, "fam=" + s.desc["fam"], "names=" + str(s.desc.get("names", "int"))], "err": e}


# ---------------------------------------------------------------------------
# 11. loop expansions with a shared `info` cache (documented: reusable while network and gauges stay the same)
# ---------------------------------------------------------------------------

@st.composite
def s_loop_info(draw, tier):
    desc = draw(s_graph(shape=draw(st.sampled_from(["tree", "unicyclic", "core"]))))
    kind = draw(st.sampled_from(["sloop", "gloop"] if desc["shape"] != "core" else ["gloop"]))
    return {"state": desc, "kind": kind, "wheres": [draw(s_loop_where(desc)) for _ in range(2)], "same_where": draw(st.booleans()),
            "gseeds": [draw(A.seeds), draw(A.seeds)], "sizes": [draw(st.sampled_from(["c", "n", "n+2"])) for _ in range(2)]}


def run_loop_info(case):
    s = build_state(case["state"])
    desc = s.desc
    n, c = s.n, (len(desc["core"]) or 2)
    psi, g = converge_gauges(s.psi)
    kind = case["kind"]
    shared = {}
    e = 0.0
    wheres = list(case["wheres"])
    if case["same_where"]:
        wheres[1] = wheres[0]
    for step, (w, gs, sz) in enumerate(zip(wheres, case["gseeds"], case["sizes"])):
        size = {"c": max(c, 3), "n": max(n, c, 3), "n+2": n + 2}[sz]
        G, Gm = make_op(s, w, gs)
        where = where_sites(s, w)
        info = dict(route=kind + ":info-reuse", step=step, same_where=list(w) == list(wheres[0]) and step == 1,
                    same_op=step == 1 and gs == case["gseeds"][0])
        if kind == "sloop":
            x = guarded(lambda: psi.local_expectation_sloop_expand(G, where, sloops=size, gauges=g, info=shared), **info)
        else:
            x = guarded(lambda: psi.local_expectation_gloop_expand(G, where, gloops=size, gauges=g, info=shared), **info)
        e = max(e, check_scalar(x, ref_expec(s, Gm, w, True), np.linalg.norm(Gm), TOLG, **info))
    return {"nt": True, "cls": ["kind=" + kind, "shape=" + desc["shape"], f"same_where={list(wheres[0]) == list(wheres[1])}",
                                f"same_size={case['sizes'][0] == case['sizes'][1]}"], "err": e}


# ---------------------------------------------------------------------------
# 12. operator networks: trace and partial transpose (the density-operator side of the property)
# ---------------------------------------------------------------------------

@st.composite
def s_operator(draw, tier):
    fam = draw(st.sampled_from(["graph", "graph", "mpo", "rho_mpo"]))
    if fam == "graph":
        desc = draw(s_graph(nmax=5, names=True))
        desc["phys"] = fit_phys(desc["phys"], 32)
    else:
        desc = draw(s_mps(Lmax=5))
        desc["phys"] = fit_phys(desc["phys"], 32)
    n = nsites(desc)
    k = draw(st.integers(1, n))
    sysa = draw(st.lists(st.integers(0, n - 1), min_size=k, max_size=k, unique=True))
    return {"fam": fam, "state": desc, "route": draw(st.sampled_from(["trace", "partial_transpose", "partial_transpose"])),
            "sysa": sysa, "inplace": draw(st.booleans()), "lone": draw(st.booleans()), "keep": draw(st.integers(1, 3))}


def build_operator(case):
    """-> (operator network, sites, physical dims, dense matrix over (uppers, lowers))"""
    qtn = Q()
    desc, fam = case["state"], case["fam"]
    if fam == "graph":
        n = len(desc["phys"])
        inds = {i: [] for i in range(n)}
        sizes = {}
        for (a, b), D in zip(desc["edges"], desc["bonds"]):
            l = f"e{a}_{b}"
            inds[a].append(l)
            inds[b].append(l)
            sizes[l] = int(D)
        sites = [i if desc.get("names", "int") == "int" else f"s{i}" for i in range(n)]
        ts = []
        for i in range(n):
            shape = [sizes[l] for l in inds[i]] + [desc["phys"][i]] * 2
            ts.append(qtn.Tensor(arr(desc["seed"], i, shape, desc["dtype"]), inds[i] + [f"k{sites[i]}", f"b{sites[i]}"],
                                 tags=f"I{sites[i]}"))
        tn = qtn.TensorNetwork(ts)
        tn.view_as_(qtn.TensorNetworkGenOperator, sites=list(sites), site_tag_id="I{}", upper_ind_id="k{}", lower_ind_id="b{}")
        tn.exponent = float(desc.get("exponent", 0.0) or 0.0)
        phys = list(desc["phys"])
    elif fam == "mpo":
        L, cyc, ph, bd = desc["L"], desc["cyclic"], desc["phys"], desc["bonds"]
        arrs = []
        for i in range(L):
            shape = []
            if cyc or i > 0:
                shape.append(bd[(i - 1) % L])
            if cyc or i < L - 1:
                shape.append(bd[i])
            arrs.append(arr(desc["seed"], i, shape + [ph[i], ph[i]], desc["dtype"]))
        tn = qtn.MatrixProductOperator(arrs, shape="lrud")
        tn.exponent = float(desc.get("exponent", 0.0) or 0.0)
        sites, phys = list(range(L)), list(ph)
    else:
        # the reduced density operator of an MPS on its first `keep` sites, as an MPO
        psi, _ = build_mps(desc)
        psi.exponent = float(desc.get("exponent", 0.0) or 0.0)
        k = min(case["keep"], desc["L"])
        tn = psi.partial_trace_to_mpo(list(range(k)))
        sites, phys = list(range(k)), list(desc["phys"][:k])
    up = [tn.upper_ind(x) for x in sites]
    lo = [tn.lower_ind(x) for x in sites]
    D = prod(phys)
    W = denote(tn, up + lo).reshape(D, D)
    return tn, sites, phys, W


def run_operator(case):
    tn, sites, phys, W = build_operator(case)
    n = len(sites)
    route = case["route"]
    mag = float(np.prod([max(np.linalg.norm(np.asarray(a)), 1e-300) for a, _ in tn_tensors(tn)]))
    mag *= 10.0 ** float(tn.exponent or 0.0)
    info = dict(expo=bool(case["state"].get("exponent")), route="op." + route, fam=case["fam"])
    cls = ["route=" + route, "fam=" + case["fam"], f"n={n}"]
    if route == "trace":
        x = guarded(lambda: tn.trace(), **info)
        e = check_scalar(x, np.trace(W), mag, TOL, **info)
        if case["fam"] == "rho_mpo":
            psi, _ = build_mps(case["state"])
            psi.exponent = float(case["state"].get("exponent", 0.0) or 0.0)
            d = denote(psi, [psi.site_ind(i) for i in range(psi.L)]).reshape(-1)
            e = max(e, check_scalar(x, np.vdot(d, d).real, mag, TOL, clause="trace==<psi|psi>", **info))
        return {"nt": n >= 2, "cls": cls, "err": e}
    sysa = [i % n for i in case["sysa"]]
    sysa = list(dict.fromkeys(sysa))
    arg = [sites[i] for i in sysa]
    if len(arg) == 1 and case["lone"]:
        arg = arg[0]  # documented: a single site is auto-wrapped
    out = guarded(lambda: tn.partial_transpose(arg, inplace=case["inplace"]), **info)
    if case["inplace"] and out is not tn:
        raise Violation("inplace-identity", **info)
    up = [out.upper_ind(x) for x in sites]
    lo = [out.lower_ind(x) for x in sites]
    if sorted(out.outer_inds()) != sorted(up + lo):
        raise Violation("op-labels", got=sorted(out.outer_inds()), want=sorted(up + lo), **info)
    D = prod(phys)
    got = denote(out, up + lo).reshape(D, D)
    T = W.reshape(phys + phys)
    perm = list(range(2 * n))
    for i in sysa:
        perm[i], perm[n + i] = n + i, i
    ref = T.transpose(perm).reshape(D, D)
    e = rel_err(got, ref, floor=mag)
    if not e <= TOL:
        raise Violation("partial-transpose-value", err=e, **info)
    if not case["inplace"]:
        up0 = [tn.upper_ind(x) for x in sites]
        lo0 = [tn.lower_ind(x) for x in sites]
        got0 = denote(tn, up0 + lo0).reshape(D, D)
        if not rel_err(got0, W, floor=mag) <= 1e-12:
            raise Violation("receiver-mutated", **info)
    return {"nt": n >= 2 and 0 < len(sysa) < n, "cls": cls + [f"nsys={len(sysa)}", f"inplace={case['inplace']}"], "err": e}


# ---------------------------------------------------------------------------
# 13. 1D: compressed partial trace onto two blocks (returned in a compressed basis -> basis independent claims)
# ---------------------------------------------------------------------------

@st.composite
def s_ptr_compress(draw, tier):
    desc = draw(s_mps(Lmin=4, Lmax=7))
    desc["bonds"] = [max(2, b) for b in desc["bonds"]]  # rank-1 transfer operators belong to the decomposition checks
    L = desc["L"]
    a0 = draw(st.integers(0, L - 2))
    a1 = draw(st.integers(a0, L - 2))
    b0 = draw(st.integers(a1 + 1, L - 1))
    b1 = draw(st.integers(b0, L - 1))
    if draw(st.integers(0, 5)) == 0 and not desc["cyclic"]:
        a0, a1, b0, b1 = 0, a1, a1 + 1, L - 1  # the two blocks cover an open chain (schmidt-basis shortcut)
    return {"state": desc, "sysa": list(range(a0, a1 + 1)), "sysb": list(range(b0, b1 + 1)), "renorm": draw(st.booleans()),
            "leave_short": draw(st.booleans())}


def run_ptr_compress(case):
    s = build_state(case["state"])
    psi = s.psi
    sysa, sysb = case["sysa"], case["sysb"]
    covers = (len(sysa) + len(sysb) == s.n) and not s.desc["cyclic"]
    info = dict(expo=bool(s.expo), route="partial_trace_compress", cyclic=s.desc["cyclic"], renorm=case["renorm"], covers=covers, unit=s.unit)
    rho = guarded(lambda: psi.partial_trace_compress(sysa, sysb, eps=1e-13, renorm=case["renorm"], leave_short=case["leave_short"]),
                  **info)
    want = {"kA", "kB", "bA", "bB"}
    if set(rho.outer_inds()) != want:
        raise Violation("rho-labels", got=sorted(rho.outer_inds()), **info)
    dA, dB = rho.ind_size("kA"), rho.ind_size("kB")
    if rho.ind_size("bA") != dA or rho.ind_size("bB") != dB:
        raise Violation("rho-shape", **info)
    M = denote(rho, ["kA", "kB", "bA", "bB"])
    M = M.reshape(dA * dB, dA * dB)
    scale = 1.0 if case["renorm"] else s.nrm
    tol = 1e-7  # the method is a compression at eps=1e-13 of squared quantities
    eh = rel_err(M, M.conj().T, floor=scale)
    if not eh <= tol:
        raise Violation("rho-not-hermitian", err=eh, **info)
    et = rel_err(np.trace(M), np.asarray(scale), floor=scale)
    if not et <= tol:
        raise Violation("rho-trace", err=et, **info)
    ref = ref_rho(s, sysa + sysb, case["renorm"])
    ev = np.sort(np.linalg.eigvalsh((M + M.conj().T) / 2))[::-1]
    er = np.sort(np.linalg.eigvalsh(ref))[::-1]
    m = max(len(ev), len(er))
    ev = np.concatenate([ev, np.zeros(m - len(ev))])
    er = np.concatenate([er, np.zeros(m - len(er))])
    e = float(np.max(np.abs(ev - er))) / scale
    if not e <= tol:
        raise Violation("rho-spectrum", err=e, **info)
    # (the schmidt-basis shortcut moves the orthogonality centre of the receiver: a gauge change only, so the claim is
    # that the receiver still denotes the same state, not that its arrays are untouched)
    d2 = denote(psi, [psi.site_ind(x) for x in s.sites]).reshape(-1)
    ed = rel_err(d2, s.dense, floor=np.sqrt(s.nrm))
    if not ed <= 1e-8:
        raise Violation("state-changed", err=ed, **info)
    return {"nt": not s.unit or s.desc["cyclic"], "cls": ["cyclic" if s.desc["cyclic"] else "open", f"renorm={case['renorm']}",
                                                        f"covers={covers}", "unit" if s.unit else "raw",
                                                        f"gap={sysb[0] - sysa[-1] - 1}"], "err": max(e, eh, et)}


# ---------------------------------------------------------------------------
# 14. 1D: one `info` dict threaded through several calls on the same MPS object
# ---------------------------------------------------------------------------

INFO_OPS = ["partial_trace_to_dense_canonical", "local_expectation_canonical", "compute:canonical", "compute:canonical",
            "compute_local_expectation_canonical", "compute:envs", "canonicalize", "magnetization", "exact"]


@st.composite
def s_mps_info(draw, tier):
    desc = draw(s_mps(Lmin=3, Lmax=6, cyclic=False))
    desc["unit"] = draw(st.integers(0, 3)) == 0
    n = desc["L"]
    nsteps = draw(st.integers(2, 4))
    steps = []
    for _ in range(nsteps):
        op = draw(st.sampled_from(INFO_OPS))
        nterms = draw(st.integers(1, 3)) if op.startswith("compute") else 1
        steps.append({"op": op, "wheres": [draw(s_where(n, kmax=2)) for _ in range(nterms)], "gseed": draw(A.seeds),
                      "normalized": draw(st.booleans()), "inplace": draw(st.integers(0, 3)) == 0,
                      "return_all": draw(st.booleans()), "use_info": draw(st.integers(0, 5)) > 0,
                      "direction": draw(st.sampled_from(["X", "Y", "Z"]))})
    return {"state": desc, "steps": steps, "start": draw(st.sampled_from(["empty", "calc", "precanonized"])),
            "center": draw(st.integers(0, 5))}


def run_mps_info(case):
    import quimb as qu

    s = build_state(case["state"])
    psi, L = s.psi, s.n
    shared = {}
    if case["start"] == "calc":
        shared = {"cur_orthog": "calc"}
    elif case["start"] == "precanonized":
        psi.canonicalize_(case["center"] % L, info=shared)
    e = 0.0
    ops = []
    for k, st_ in enumerate(case["steps"]):
        op, normalized = st_["op"], st_["normalized"]
        # a call that moves the orthogonality centre of the object itself must be told about the shared record,
        # otherwise the *caller* has made it stale; only calls that work on a copy may go without it
        moves = op in ("partial_trace_to_dense_canonical", "local_expectation_canonical", "canonicalize", "magnetization") or (
            op in ("compute:canonical", "compute_local_expectation_canonical") and st_["inplace"])
        info_arg = shared if (st_["use_info"] or moves) else None
        w0 = st_["wheres"][0]
        where = where_sites(s, w0)
        info = dict(expo=bool(s.expo), raw=not normalized, route="info:" + op, step=k, nmz=str(normalized), inplace=st_["inplace"],
                    prev=ops[-1] if ops else "-", threaded=info_arg is not None)
        fl = 1.0 if normalized else s.nrm
        if op == "partial_trace_to_dense_canonical":
            rho = guarded(lambda: psi.partial_trace_to_dense_canonical(where, normalized=normalized, info=info_arg), **info)
            e = max(e, check_rho(rho, s, w0, normalized, TOL, **info))
        elif op == "local_expectation_canonical":
            G, Gm = make_op(s, w0, st_["gseed"])
            x = guarded(lambda: psi.local_expectation_canonical(G, where, normalized=normalized, info=info_arg), **info)
            e = max(e, check_scalar(x, ref_expec(s, Gm, w0, normalized), np.linalg.norm(Gm) * fl, TOL, **info))
        elif op.startswith("compute"):
            terms, refs = {}, {}
            for t, w in enumerate(st_["wheres"]):
                key = where_sites(s, w)
                if key in terms:
                    continue
                G, Gm = make_op(s, w, st_["gseed"] + t)
                terms[key] = G
                refs[key] = (ref_expec(s, Gm, w, normalized), np.linalg.norm(Gm) * fl)
            ra = st_["return_all"]
            if op == "compute:envs":
                res = guarded(lambda: psi.compute_local_expectation(terms, normalized=normalized, return_all=ra, method="envs"), **info)
            elif op == "compute:canonical":
                res = guarded(lambda: psi.compute_local_expectation(terms, normalized=normalized, return_all=ra, method="canonical",
                                                                    info=info_arg, inplace=st_["inplace"]), **info)
            else:
                res = guarded(lambda: psi.compute_local_expectation_canonical(terms, normalized=normalized, return_all=ra,
                                                                              info=info_arg, inplace=st_["inplace"]), **info)
            e = max(e, check_terms(res, refs, ra, TOL, **info))
        elif op == "canonicalize":
            guarded(lambda: psi.canonicalize_(where[0], info=info_arg), **info)
        elif op == "magnetization":
            i = w0[0]
            if s.phys[i] not in (2, 3):
                continue
            Om = np.asarray(qu.spin_operator(st_["direction"], S=(s.phys[i] - 1) / 2))
            x = guarded(lambda: psi.magnetization(i, st_["direction"], info=info_arg), **info)
            e = max(e, check_scalar(x, ref_expec(s, Om, [i], False), np.linalg.norm(Om) * s.nrm, TOL, **info))
        else:
            G, Gm = make_op(s, w0, st_["gseed"])
            x = guarded(lambda: psi.local_expectation_exact(G, where, normalized=normalized), **info)
            e = max(e, check_scalar(x, ref_expec(s, Gm, w0, normalized), np.linalg.norm(Gm) * fl, TOL, **info))
        ops.append(op)
        # the object still denotes the same state after every step
        d2 = denote(psi, [psi.site_ind(x) for x in s.sites]).reshape(-1)
        ed = rel_err(d2, s.dense, floor=np.sqrt(s.nrm))
        if not ed <= 1e-8:
            raise Violation("state-changed", err=ed, **info)
    return {"nt": True, "cls": ["start=" + case["start"], f"steps={len(case['steps'])}"] + ["op=" + o for o in ops] +
            (["expo"] if s.expo else []), "err": e}


SUBCHECKS = [
    SubCheck("ag_exact", run_exact, s_exact, examples=(150, 4000), shards=(1, 4),
             rule="partial_trace_exact (get matrix/array/tensor), local_expectation_exact (matrix / tensor operator), "
                  "compute_local_expectation_exact (1-3 terms, return_all) x normalized True/False/'return' on graph / MPS / "
                  "PEPS / PEPS3D vectors; nt as RULE"),
    SubCheck("ag_compressed", run_compressed, s_compressed, examples=(120, 3000), shards=(1, 4),
             rule="partial_trace / local_expectation / compute_local_expectation through contract_compressed and "
                  "contract_around x flatten (True/False/'all') x reduce x symmetrized x normalized x optimizer, max_bond "
                  ">= 64 and cutoff=0.0 (untruncating); nt as RULE"),
    SubCheck("ag_cluster_span", run_cluster, lambda tier: s_cluster(tier, "span"), examples=(120, 3000), shards=(1, 4),
             rule="partial_trace_cluster / local_expectation_cluster / compute_local_expectation_cluster with a cluster that "
                  "contains every tensor (graphdistance >= eccentricity, loopunion on 2-connected graphs, fillin), without "
                  "gauges (normalized True/False/'return', get variants, optional max_bond) or with converged gauges "
                  "(normalized only); nt as RULE"),
    SubCheck("ag_cluster_tree", run_cluster, lambda tier: s_cluster(tier, "tree"), examples=(120, 3000), shards=(1, 4),
             rule="the same three entry points on trees with converged simple-update gauges, max_distance 0-2, `where` one "
                  "site or any two sites (adjacent or not: the cluster adds the connecting path); nt as RULE"),
    SubCheck("ag_loops", run_loops, s_loops, examples=(120, 3000), shards=(1, 4),
             rule="local_expectation_sloop_expand / _gloop_expand, their compute_* forms and norm_gloop_expand with converged "
                  "gauges (or, for gloops on tail-free 2-connected graphs, gauges=None / {}) on: trees (`where` a site or an edge), unicyclic graphs (`where` on the cycle, loop size >= cycle), "
                  "multi-loop cores with tails (`where` in the core, gloops >= core size) x combine x normalized flavours x "
                  "autocomplete / autoreduce / grow_from / strict_size; nt as RULE"),
    SubCheck("mps_local", run_mps_local, s_mps_local, examples=(150, 4000), shards=(1, 4),
             rule="partial_trace_to_dense_canonical, local_expectation_canonical, compute_local_expectation(method canonical | "
                  "envs) and the two underlying methods x normalized x return_all x info (none / empty / 'calc' / pre-canonized "
                  "record) x inplace, open MPS (envs also periodic), 1-3 sites in any order, 1-4 terms; the receiver must "
                  "still denote the same state (and be untouched when not inplace); nt as RULE"),
    SubCheck("mps_expec", run_mps_expec, s_mps_expec, examples=(150, 4000), shards=(1, 4),
             rule="expec_TN_1D / MPS.expec of (bra, gated ket) with contract False/True, (bra, random MPO, ket), "
                  "MPS.correlation (multi-site A, B given or not), magnetization (spin 1/2 and 1) on open and periodic MPS "
                  "(compress False/True); nt as RULE"),
    SubCheck("mps_ptrace_mpo", run_mps_ptr, s_mps_ptr, examples=(120, 3000), shards=(1, 4),
             rule="partial_trace_to_mpo(keep list | slice, rescale_sites, upper_ind_id) densified by einsum == ptrace(psi) "
                  "(upper = ket index, Hermitian, trace <psi|psi>); nt: complex state and (>= 2 kept sites or raw norm)"),
    SubCheck("peps2d_local", run_peps_local, s_peps_local, examples=(70, 2000), shards=(2, 6),
             rule="PEPS.compute_local_expectation (1-3 terms: bare coordinate or coordinate pair, adjacent / diagonal / distant, "
                  "matrix or tensor operator) x 7 boundary modes x layer_tags x autogroup x normalized (True/False/default) x "
                  "canonize x return_all ((expec, norm) pairs), max_bond=64, cutoff=0; pairs not in lattice order must raise "
                  "KeyError (rejection) or be right; nt as RULE"),
    SubCheck("peps2d_norm", run_peps_norm, s_peps_norm, examples=(70, 2000), shards=(1, 4),
             rule="PEPS.normalize (balance_bonds, equalize_norms, inplace) gives the unit vector on the same ray; compute_norm == "
                  "<psi|psi>; x 8 boundary modes x layer_tags x canonize; nt: raw norm"),
    SubCheck("peps3d_local", run_peps3d_local, s_peps3d_local, examples=(40, 1200), shards=(2, 6),
             rule="PEPS3D.partial_trace (boundary | compressed cell contraction), partial_trace_cluster (spanning), "
                  "compute_local_expectation x flatten x symmetrized x normalized x canonize on 2x2x2 (and 2x2x3), sites in "
                  "any order (1-3), untruncating cap; nt as RULE"),
    SubCheck("lone_site", run_lone, s_lone, examples=(130, 3000), shards=(1, 4), min_accept=0.1,
             rule="a one-site term given as the bare node (documented 'node or sequence[node]' / 'dict[node or (node, node)]' / "
                  "'int or tuple[int]') through 9 arbitrary-geometry and 4 MPS entry points, int and str node names; nt: raw norm"),
    SubCheck("loop_info_reuse", run_loop_info, s_loop_info, examples=(100, 2500), shards=(1, 4), min_accept=0.1,
             rule="two successive sloop / gloop expectations (same or different `where`, operator and loop size) sharing one "
                  "`info` cache on the unchanged network and gauges; every call must give its own dense value; all nt"),
    SubCheck("operator_trace", run_operator, s_operator, examples=(120, 3000), shards=(1, 4),
             rule="TensorNetworkGenOperator / MPO (and the MPO from partial_trace_to_mpo): trace() == trace of the dense matrix "
                  "(== <psi|psi> for a reduced state), partial_transpose(sysa: sites in any order or a lone site, inplace) == "
                  "dense partial transpose, receiver untouched; nt: >= 2 sites and a proper subset transposed"),
    SubCheck("mps_ptrace_compress", run_ptr_compress, s_ptr_compress, examples=(100, 2500), shards=(1, 4),
             rule="MatrixProductState.partial_trace_compress(sysa, sysb contiguous blocks, renorm, leave_short) on open / periodic "
                  "MPS: outer labels kA kB bA bB, Hermitian, trace 1 (renorm) or <psi|psi>, spectrum == spectrum of the dense "
                  "reduced state of the two blocks (1e-7); nt: raw norm or periodic"),
    SubCheck("mps_info_history", run_mps_info, s_mps_info, examples=(150, 4000), shards=(1, 4),
             rule="2-4 successive calls on one (non-canonical, mostly unnormalised) open MPS object sharing one `info` dict: "
                  "partial_trace_to_dense_canonical, local_expectation_canonical, compute_local_expectation (canonical with "
                  "inplace False/True, envs), canonicalize_, magnetization, exact; every call must give its dense value and the "
                  "object must keep denoting the same state; all nt"),
]
