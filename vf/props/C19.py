"""C19 — all representations of one Hamiltonian denote the same operator.

Oracle: H_ref = sum_t coeff_t * (product, in the order written, of the named
single-site operators of term t, each embedded at its register), with the 2x2
matrices written out below from their textbook definitions (NOT taken from
quimb's operator table) and Jordan-Wigner strings inserted from the textbook
definition c_r = (prod_{q<r} Z_q) sigma_r.  Register order is computed here
from the documented meaning of ``order``.  Every sub-check is one family of
entry points.
"""
from __future__ import annotations

import itertools
import math

import numpy as np
from hypothesis import strategies as st

from ..core import EXACT32, EXACT64, Reject, SubCheck, Violation, rejecting, rel_err
from ..oracle import embed

RULE = ("cases are term lists (1-6 terms, locality 1-4, all 13 operator names, repeated sites/terms, complex "
        "coefficients, fermionic +/- with Jordan-Wigner, Pauli decomposition incl. 'zx') on labelled sites "
        "(ints/strings/tuples/species) with every documented ordering; oracle = sum coeff * kron of products of "
        "textbook 2x2 matrices in register order; non-trivial = repeated site or complex coefficient or fermionic "
        "term under JW or non-identity ordering or a proper sector; rank/unrank is enumerated exhaustively")
ASSUMPTIONS = [
    "the 2x2 matrices written in this module are the meaning of the 13 operator names (bit 1 = occupied, bit 0 = spin up)",
    "a term is the matrix product of its operators in the order written (docstring: '+','-' on one site -> 'n')",
    "sector matrices are indexed by the documented lexicographic enumeration of the sector's bit strings "
    "(U1U1: species blocks in sorted species order)",
    "in a symmetry sector only operators whose every term maps the sector into itself are in the domain",
    "flatconfig_coupling(config) returns the column H|config> (as quimb's own tests and build_coo use it)",
]

# ---------------------------------------------------------------------------
# textbook single-site operators (basis |0>,|1>; 1 = occupied / spin down)
# ---------------------------------------------------------------------------
_X = np.array([[0, 1], [1, 0]], dtype=complex)
_Y = np.array([[0, -1j], [1j, 0]], dtype=complex)
_Z = np.array([[1, 0], [0, -1]], dtype=complex)
_I = np.eye(2, dtype=complex)
_CR = np.array([[0, 0], [1, 0]], dtype=complex)  # creation |1><0|
_AN = np.array([[0, 1], [0, 0]], dtype=complex)  # annihilation |0><1|
_N = np.array([[0, 0], [0, 1]], dtype=complex)
SQ = {
    "I": _I, "x": _X, "y": _Y, "z": _Z,
    "ⴵ": _Z @ _X,  # documented: ZX = iY
    "sx": _X / 2, "sy": _Y / 2, "sz": _Z / 2,
    "+": _CR, "-": _AN, "n": _N, "sn": _N - _I / 2, "h": _I - _N,
}
ALL_OPS = list(SQ)
OFFDIAG = {"x", "y", "ⴵ", "sx", "sy", "+", "-"}
DIAG_OPS = ["z", "sz", "n", "sn", "h", "I"]
POOLS = {
    "all": ALL_OPS,
    "pauli": ["x", "y", "z"],
    "fermi": ["+", "-", "n", "h", "sn", "z", "+", "-"],
    "real": ["I", "x", "z", "ⴵ", "sx", "sz", "+", "-", "n", "sn", "h"],
}
SPECTRAL = {op: float(np.linalg.norm(m, 2)) for op, m in SQ.items()}
_PRIMARY = ["I", "x", "y", "z", "+", "-", "n", "h"]


def site_product_coeff(P):
    """c with P = c * R, R one of the textbook I,x,y,z,+,-,n,h (None if P == 0)."""
    if not np.any(np.abs(P) > 1e-14):
        return None
    for name in _PRIMARY:
        R = SQ[name]
        k = int(np.argmax(np.abs(R)))
        if abs(P.flat[k]) > 1e-14 and np.allclose(P * R.flat[k], R * P.flat[k], atol=1e-12):
            return P.flat[k] / R.flat[k]
    raise AssertionError("product of named operators is not proportional to a named operator")


# ---------------------------------------------------------------------------
# site labellings and orderings (register order computed from the documentation)
# ---------------------------------------------------------------------------
_STRS = ["q", "b", "zz", "a", "m", "B", "k", "x1", "x0", "c", "y", "d"]
LABEL_KINDS = ["int", "gap", "neg", "str", "coord", "spin"]


def make_labels(kind, n, na=1):
    if kind == "int":
        return list(range(n))
    if kind == "gap":
        return [(7 * i + 3) % 23 for i in range(n)]
    if kind == "neg":
        return [i - n // 2 for i in range(n)]
    if kind == "str":
        return _STRS[:n]
    if kind == "coord":
        return [(i // 2, i % 2) for i in range(n)]
    if kind == "spin":
        na = max(0, min(n, na))
        return [("↑", i) for i in range(na)] + [("↓", i) for i in range(n - na)]
    raise AssertionError(kind)


def register_order(space):
    """canonical site indices in register order, from the documented meaning of `order`."""
    labels = space_labels(space)
    sup = list(space["supply"])
    order = space["order"]
    if order in ("none", "false"):
        return sup
    if order == "true":
        return sorted(sup, key=lambda i: labels[i])
    if order in ("seq", "key"):
        pos = {c: k for k, c in enumerate(space["operm"])}
        return sorted(sup, key=pos.get)
    if order == "blocked":
        return sorted(sup, key=lambda i: (labels[i][0], labels[i][1:]))
    if order == "interleaved":
        return sorted(sup, key=lambda i: (labels[i][1:], labels[i][0]))
    raise AssertionError(order)


def space_labels(space):
    return make_labels(space["kind"], space["n"], space.get("na", 1))


def species_of(space):
    """species label per canonical site index, or None."""
    sp = space.get("species")
    if sp is None:
        return None
    labels = space_labels(space)
    if sp["of"] == "label0":
        return [lab[0] for lab in labels]
    return ["ab"[int(v)] for v in sp["of"]]


def build_hs(space, sector=None, symmetry=None, dims=None):
    from quimb.operator import HilbertSpace

    labels = space_labels(space)
    sup = list(space["supply"])
    sites = [labels[i] for i in sup]
    order = space["order"]
    if order == "none":
        oarg = None
    elif order == "false":
        oarg = False
    elif order == "true":
        oarg = True
    elif order == "seq":
        oarg = [labels[i] for i in space["operm"]]
    elif order == "key":
        pos = {labels[c]: k for k, c in enumerate(space["operm"])}
        oarg = pos.__getitem__
    else:
        oarg = order
    kw = {}
    spc = species_of(space)
    if spc is not None:
        smap = {labels[i]: spc[i] for i in range(space["n"])}
        kw["species"] = smap if space["species"].get("by") == "dict" else smap.__getitem__
    if sector is not None:
        kw["sector"] = sector
    if symmetry is not None:
        kw["symmetry"] = symmetry
    if dims is not None:
        dmap = {labels[i]: int(dims[i]) for i in range(space["n"])}
        if space.get("sites_as") == "dict":
            return HilbertSpace({s: dmap[s] for s in sites}, order=oarg, **kw)
        return HilbertSpace(sites, dims=[dmap[s] for s in sites], order=oarg, **kw)
    if space.get("sites_as") == "dict":
        return HilbertSpace({s: 2 for s in sites}, order=oarg, **kw)
    if space.get("sites_as") == "int" and sites == list(range(space["n"])):
        return HilbertSpace(space["n"], order=oarg, **kw)
    return HilbertSpace(sites, order=oarg, **kw)


@st.composite
def s_space(draw, min_n=1, max_n=5, kinds=None, species=None):
    """species: None (no species), 'maybe', 'two' (exactly two species, both non-empty)."""
    n = draw(st.integers(max(min_n, 2 if species == "two" else 1), max_n))
    kind = draw(st.sampled_from(kinds or LABEL_KINDS))
    na = draw(st.integers(1, max(1, n - 1)))
    supply = list(draw(st.permutations(list(range(n)))))
    orders = ["none", "false", "true", "seq", "key"]
    if kind == "spin" or (kind == "coord"):
        orders += ["blocked", "interleaved"]
    space = {"n": n, "kind": kind, "na": na, "supply": supply, "order": draw(st.sampled_from(orders)),
             "operm": list(draw(st.permutations(list(range(n))))),
             "sites_as": draw(st.sampled_from(["list", "list", "dict", "int"])), "species": None}
    want = species == "two" or (species == "maybe" and draw(st.booleans()))
    if want:
        by = draw(st.sampled_from(["dict", "callable"]))
        if kind == "spin" and n >= 2 and draw(st.booleans()):
            space["species"] = {"of": "label0", "by": by}
        else:
            bits = draw(st.lists(st.integers(0, 1), min_size=n, max_size=n))
            if species == "two" and len(set(bits)) < 2:
                bits[0], bits[-1] = 0, 1
            space["species"] = {"of": bits, "by": by}
    return space


def order_is_trivial(space):
    return register_order(space) == sorted(range(space["n"]))


# ---------------------------------------------------------------------------
# term lists
# ---------------------------------------------------------------------------
COEFFS = [1.0, -1.0, 0.5, 2.0, -0.25, 1.5, 0.3, -0.7, 1.0, 1.0]


@st.composite
def s_terms(draw, n, max_terms=5, max_loc=4, pools=("all", "all", "pauli", "fermi", "real"), repeat=None,
            complex_ok=True):
    pool = POOLS[draw(st.sampled_from(list(pools)))]
    if repeat is None:
        repeat = draw(st.sampled_from([False, True, True]))
    terms = []
    for _ in range(draw(st.integers(1, max_terms))):
        k = draw(st.integers(1, max_loc if repeat else min(max_loc, n)))
        ops = []
        free = list(range(n))
        for _ in range(k):
            op = draw(st.sampled_from(pool))
            if repeat:
                if ops and draw(st.integers(0, 2)) == 0:
                    si = ops[draw(st.integers(0, len(ops) - 1))][1]
                else:
                    si = draw(st.integers(0, n - 1))
            else:
                si = free.pop(draw(st.integers(0, len(free) - 1)))
            ops.append([op, si])
        re = draw(st.sampled_from(COEFFS) | st.floats(-2, 2, allow_nan=False, width=32).map(lambda v: round(float(v), 3)))
        im = draw(st.sampled_from([0.0, 0.0, 0.0, 1.0, -0.5, 0.25])) if complex_ok else 0.0
        terms.append([re, im, ops])
    if len(terms) >= 2 and draw(st.integers(0, 4)) == 0:
        # an exactly repeated term (coefficients must add)
        t = terms[draw(st.integers(0, len(terms) - 1))]
        terms.append([draw(st.sampled_from(COEFFS)), t[1], [list(o) for o in t[2]]])
    return terms


def term_coeff(t):
    return complex(t[0], t[1]) if t[1] != 0 else float(t[0])


class Ctx:
    """Reference denotation of a case: H (full space, register order), the C19-a
    defect model Hbug, a-priori magnitude, classification."""


def reference(terms, reg_of, n, jw):
    D = 2 ** n
    H = np.zeros((D, D), dtype=complex)
    Hbug = np.zeros((D, D), dtype=complex)
    floor = 0.0
    nonunit = False
    repeated = False
    for t in terms:
        c = complex(t[0], t[1])
        seq = []
        for op, si in t[2]:
            r = reg_of[si]
            if jw and op in ("+", "-"):
                seq += [("z", q) for q in range(r)]  # textbook JW string on the lower registers
            seq.append((op, r))
        per, cnt = {}, {}
        mag = abs(c) * 2 ** (n / 2)
        for op, r in seq:
            per[r] = per.get(r, _I) @ SQ[op]
            cnt[r] = cnt.get(r, 0) + 1
            mag *= SPECTRAL[op]
        floor += mag
        mats = [per.get(r, _I) for r in range(n)]
        bug = list(mats)
        for r, k in cnt.items():
            if k >= 2:
                if len([1 for op, si in t[2] if reg_of[si] == r]) >= 2:
                    repeated = True
                cc = site_product_coeff(per[r])
                if cc is not None and abs(cc * cc - 1) > 1e-9:
                    nonunit = True
                    bug[r] = per[r] / (cc * cc)
        T = np.array([[1.0 + 0j]])
        B = np.array([[1.0 + 0j]])
        for m, mb in zip(mats, bug):
            T = np.kron(T, m)
            B = np.kron(B, mb)
        H += c * T
        Hbug += c * B
    return H, Hbug, max(floor, 1e-300), nonunit, repeated


def setup(case, build=True, hs_kw=None, allow_prebuild=False):
    """-> (builder or None, ctx).  The builder is constructed exactly as the case says."""
    space = case["space"]
    labels = space_labels(space)
    terms = case["terms"]
    jw = bool(case.get("jw"))
    pd = case.get("pauli") or False
    ctx = Ctx()
    ctx.stale = None
    if case.get("hs", True):
        regs = register_order(space)
    else:
        used = sorted({si for t in terms for _, si in t[2]}, key=lambda i: labels[i])
        regs = used  # documented: minimal space from the sorted sites used
    ctx.regs = regs
    ctx.n = len(regs)
    ctx.reg_of = {si: r for r, si in enumerate(regs)}
    ctx.labels = labels
    ctx.H, ctx.Hbug, ctx.floor, ctx.nonunit, ctx.repeated = reference(terms, ctx.reg_of, ctx.n, jw)
    cplx = any(t[1] != 0 for t in terms)
    ferm = jw and any(op in ("+", "-") for t in terms for op, _ in t[2])
    ctx.raw_real = (not cplx) and not pd and not any(op in ("y", "sy") for t in terms for op, _ in t[2])
    ctx.nt = bool(ctx.repeated or cplx or ferm or (case.get("hs", True) and regs != sorted(regs)))
    ctx.cls = ([("repeat-nonunit" if ctx.nonunit else "repeat-unit")] if ctx.repeated else []) + \
        (["complex-coeff"] if cplx else []) + (["fermionic-jw"] if ferm else []) + \
        (["pauli=" + str(pd)] if pd else []) + ["order=" + space["order"] if case.get("hs", True) else "hs=auto"] + \
        ["labels=" + space["kind"], "n=%d" % ctx.n]
    if not build:
        return None, ctx
    from quimb.operator import SparseOperatorBuilder

    hs = build_hs(space, **(hs_kw or {})) if case.get("hs", True) else None
    if hs is not None:
        got = [labels.index(s) for s in hs.sites]
        if got != regs:
            raise Violation("ordering", got=[repr(s) for s in hs.sites], want=[repr(labels[i]) for i in regs],
                            order=space["order"])
    qterms = [(term_coeff(t), *[(op, labels[si]) for op, si in t[2]]) for t in terms]
    kw = {}
    if case.get("ctor_dtype"):
        kw["dtype"] = case["ctor_dtype"]
    how = case.get("how", "ctor")
    if how == "ctor":
        b = SparseOperatorBuilder(qterms, hilbert_space=hs, jordan_wigner=jw, pauli_decompose=pd, **kw)
    else:
        b = SparseOperatorBuilder(hilbert_space=hs, **kw)
        pre = int(case.get("prebuild") or 0) if (hs is not None and allow_prebuild) else 0
        ctx.stale = stale_model(terms, pre, jw or pd, ctx)
        for k, t in enumerate(qterms):
            if how == "isub":
                b -= (-t[0], *t[1:])
            elif how == "add_term":
                b.add_term(*t)
            elif how == "nocoeff" and t[0] == 1.0:
                b += t[1:]
            else:
                b += t
            if pre and k + 1 == pre:
                b.build_dense()  # a stale cached representation must not survive later edits
        if jw:
            b.jordan_wigner_transform(None if case.get("toggle") else True)
        if pd:
            b.pauli_decompose(None if case.get("toggle") else True, use_zx=(pd == "zx"))
    ctx.identity_term = any(len(ops) == 0 for _, ops in b.terms)
    return b, ctx


def stale_model(terms, pre, reset_after, ctx):
    """Model of defect C19-g: add_term that cancels an existing raw term returns without
    invalidating cached representations.  -> (H, Hbug) the builder would still serve, or None."""
    if not pre or reset_after:
        return None
    raw, snap = {}, None
    for k, t in enumerate(terms):
        key = tuple((op, si) for op, si in t[2])
        c = term_coeff(t)
        if abs(c) < 1e-12:
            pass
        else:
            tot = raw.pop(key, 0.0) + c
            if abs(tot) < 1e-12:
                pass  # cancelled: quimb returns here without resetting its caches
            else:
                raw[key] = tot
                snap = None
        if k + 1 == pre:
            snap = dict(raw)
    if snap is None or snap == raw:
        return None
    st_terms = [[complex(c).real, complex(c).imag, [list(o) for o in key]] for key, c in snap.items()]
    r = reference(st_terms, ctx.reg_of, ctx.n, False)
    return r[0], r[1]


def check_matrix(got, ctx, tol, transform=None, scale=1.0, **info):
    """got must equal transform(H_ref).  A mismatch that is exactly explained by the
    known defect C19-a (ratio inverted in simplify_single_site_ops) is labelled so."""
    f = transform or (lambda A: A)
    want = f(ctx.H)
    got = np.asarray(got)
    if got.shape != np.shape(want):
        raise Violation("shape", got=list(got.shape), want=list(np.shape(want)), **info)
    fl = ctx.floor * scale
    e = rel_err(got, want, floor=fl)
    if e <= tol:
        return e
    model = bool(ctx.nonunit and rel_err(got, f(ctx.Hbug), floor=fl) <= tol)
    stale = getattr(ctx, "stale", None)
    if stale is not None and not model and min(rel_err(got, f(stale[0]), floor=fl), rel_err(got, f(stale[1]), floor=fl)) <= tol:
        raise Violation("value", err=e, tol=tol, stale_cache_model=True, **info)
    raise Violation("value", err=e, tol=tol, c19a_model=model, **info)


@st.composite
def s_builder_case(draw, tier, max_n=None, jw_ok=True, pauli_ok=True, **term_kw):
    max_n = max_n or (5 if tier == "quick" else 6)
    space = draw(s_space(max_n=max_n))
    case = {"space": space, "terms": draw(s_terms(space["n"], **term_kw)),
            "hs": draw(st.sampled_from([True, True, True, False])),
            "jw": jw_ok and draw(st.sampled_from([False, False, True])),
            "pauli": draw(st.sampled_from([False, False, False, True, "zx"])) if pauli_ok else False,
            "how": draw(st.sampled_from(["ctor", "iadd", "isub", "add_term", "nocoeff"])),
            "toggle": draw(st.booleans()), "prebuild": draw(st.integers(0, 3))}
    return case


def pick_dtype(draw, real_ok=True):
    return draw(st.sampled_from([None, None, "complex128", "complex64"] + (["float64", "float32"] if real_ok else [])))


def resolve_dtype(b, ctx, want):
    """explicit real dtypes are only in the domain of provably real operators."""
    if want in ("float64", "float32") and not ctx.raw_real:
        want = {"float64": "complex128", "float32": "complex64"}[want]
    return want


def tol_of(dt):
    return EXACT32 if str(dt) in ("float32", "complex64") else EXACT64


# ---------------------------------------------------------------------------
# 1. dense matrix
# ---------------------------------------------------------------------------
@st.composite
def s_dense(draw, tier):
    case = draw(s_builder_case(tier))
    case["dtype"] = pick_dtype(draw)
    case["ctor_dtype"] = draw(st.sampled_from([None, None, "complex128"]))
    case["parallel"] = draw(st.sampled_from([False, False, 2, True]))
    if case["how"] != "ctor" and draw(st.integers(0, 3)) == 0:
        # history: a later term cancels an earlier one exactly, possibly after a representation was built
        t = case["terms"][draw(st.integers(0, len(case["terms"]) - 1))]
        case["terms"].append([-t[0], -t[1], [list(o) for o in t[2]]])
    return case


def run_dense(case):
    b, ctx = setup(case, allow_prebuild=True)
    dt = resolve_dtype(b, ctx, case.get("dtype"))
    got = b.build_dense(dtype=dt, parallel=case.get("parallel", False))
    if dt is not None and got.dtype != np.dtype(dt):
        raise Violation("dtype", got=str(got.dtype), want=dt)
    e = check_matrix(got, ctx, tol_of(got.dtype), route="build_dense")
    return {"nt": ctx.nt, "cls": ctx.cls + ["dtype=" + str(dt)], "err": e}


# ---------------------------------------------------------------------------
# 2. sparse matrix in every format
# ---------------------------------------------------------------------------
STYPES = ["coo", "csr", "csc", "bsr", "lil", "dok", "dia"]


@st.composite
def s_sparse(draw, tier):
    case = draw(s_builder_case(tier))
    case["dtype"] = pick_dtype(draw)
    case["stype"] = draw(st.sampled_from(STYPES))
    case["parallel"] = draw(st.sampled_from([False, False, 2]))
    return case


def run_sparse(case):
    import scipy.sparse as sp

    b, ctx = setup(case)
    dt = resolve_dtype(b, ctx, case.get("dtype"))
    got = b.build_sparse_matrix(dtype=dt, stype=case["stype"], parallel=case.get("parallel", False))
    if not sp.issparse(got) or got.format != case["stype"]:
        raise Violation("sparse-format", got=getattr(got, "format", repr(type(got))), want=case["stype"])
    if dt is not None and got.dtype != np.dtype(dt):
        raise Violation("dtype", got=str(got.dtype), want=dt)
    e = check_matrix(got.toarray(), ctx, tol_of(got.dtype), route="build_sparse_matrix", stype=case["stype"])
    return {"nt": ctx.nt, "cls": ctx.cls + ["stype=" + case["stype"]], "err": e}


# ---------------------------------------------------------------------------
# 3. matrix-free action
# ---------------------------------------------------------------------------
def make_vec(seed, d, dt, cols=None):
    rng = np.random.default_rng(seed)
    shape = (d,) if cols is None else (d, cols)
    v = rng.normal(size=shape)
    if str(dt).startswith("complex"):
        v = v + 1j * rng.normal(size=shape)
    return v.astype(dt)


@st.composite
def s_matvec(draw, tier):
    case = draw(s_builder_case(tier))
    case["dtype"] = pick_dtype(draw)
    case["act"] = draw(st.sampled_from(["matvec", "matvec_dtype", "matvec_out", "matvec_out_dirty", "linop_at",
                                        "linop_matvec", "linop_matmat"]))
    case["parallel"] = draw(st.sampled_from([False, False, 2, True]))
    case["vseed"] = draw(st.integers(0, 2 ** 31 - 1))
    return case


def run_matvec(case):
    from scipy.sparse.linalg import LinearOperator

    b, ctx = setup(case)
    want_dt = resolve_dtype(b, ctx, case.get("dtype"))
    dt = np.dtype(b.get_dtype(want_dt))  # vectors carry the operator's dtype (a real operator refuses complex input)
    d = 2 ** ctx.n
    act = case["act"]
    par = case.get("parallel", False)
    x = make_vec(case["vseed"], d, dt)
    info = dict(route=act, parallel=bool(par))
    if act == "matvec":
        got = b.matvec(x, parallel=par)
    elif act == "matvec_dtype":
        got = b.matvec(x, dtype=dt, parallel=par)
    elif act in ("matvec_out", "matvec_out_dirty"):
        out = np.zeros(d, dtype=dt) if act == "matvec_out" else np.ones(d, dtype=dt)
        got = b.matvec(x, out=out, parallel=par)
        if got is not out and not np.shares_memory(got, out):
            if rel_err(np.asarray(out), np.asarray(got), floor=1.0) > 1e-12:
                raise Violation("out-not-used", **info)
    else:
        lo = b.aslinearoperator(dtype=want_dt, parallel=par)
        if not isinstance(lo, LinearOperator) or tuple(lo.shape) != (d, d):
            raise Violation("linop-shape", got=list(getattr(lo, "shape", ())), want=[d, d])
        if act == "linop_at":
            got = lo @ x
        elif act == "linop_matvec":
            got = lo.matvec(x)
        else:
            x = make_vec(case["vseed"], d, dt, cols=3)
            got = lo.matmat(x)
    xs = np.asarray(x, dtype=complex)
    ckw = dict(transform=lambda A: A @ xs, scale=float(np.linalg.norm(xs)) / 2 ** (ctx.n / 2))
    try:
        e = check_matrix(np.asarray(got), ctx, tol_of(dt) * 10, **ckw, **info)
    except Violation as v:
        if act != "matvec_out_dirty" or v.reason != "value":
            raise
        # documented: `out` is "an array to store the result in"; was the result added to its old content instead?
        try:
            check_matrix(np.asarray(got) - 1, ctx, tol_of(dt) * 10, **ckw, **info)
        except Violation as v2:
            if not v2.info.get("c19a_model"):
                raise v
        raise Violation("out-accumulated", parallel=bool(par)) from v
    return {"nt": ctx.nt, "cls": ctx.cls + ["act=" + act, "par=" + str(par), "dtype=" + str(dt)], "err": e}


# ---------------------------------------------------------------------------
# 4. matrix product operator (needs networkx)
# ---------------------------------------------------------------------------
@st.composite
def s_mpo(draw, tier):
    case = draw(s_builder_case(tier, max_terms=6))
    case["dtype"] = pick_dtype(draw)
    return case


def run_mpo(case):
    import quimb.tensor as qtn

    b, ctx = setup(case)
    dt = resolve_dtype(b, ctx, case.get("dtype"))
    mpo = b.build_mpo(dtype=dt)
    if not isinstance(mpo, qtn.MatrixProductOperator) or mpo.L != ctx.n:
        raise Violation("mpo-type", got=repr(type(mpo)), L=getattr(mpo, "L", None), want=ctx.n)
    got = np.asarray(mpo.to_dense())
    e = check_matrix(got, ctx, tol_of(got.dtype), route="build_mpo")
    return {"nt": ctx.nt, "cls": ctx.cls + ["bond=%d" % (mpo.max_bond() or 1)], "err": e}


# ---------------------------------------------------------------------------
# 5. dictionary of local terms / LocalHamGen
# ---------------------------------------------------------------------------
@st.composite
def s_local(draw, tier):
    route = draw(st.sampled_from(["terms", "terms", "ham"]))
    case = draw(s_builder_case(tier, max_loc=2 if route == "ham" else 4))
    case["route"] = route
    case["dtype"] = pick_dtype(draw)
    return case


def run_local(case):
    b, ctx = setup(case)
    dt = resolve_dtype(b, ctx, case.get("dtype"))
    labels = ctx.labels
    n = ctx.n
    reg = {labels[si]: r for si, r in ctx.reg_of.items()}
    if case["route"] == "terms":
        try:
            Hk = b.build_local_terms(dtype=dt)
        except ValueError as e:
            if ctx.identity_term and "unpack" in str(e):
                raise Violation("crash", exc="ValueError", where="build_local_terms", identity_term=True) from e
            raise
        tot = np.zeros((2 ** n, 2 ** n), dtype=complex)
        for sites, hk in Hk.items():
            regs = [reg[s] for s in sites]
            if regs != sorted(set(regs)):
                raise Violation("local-key-not-sorted", key=repr(sites))
            if np.shape(hk) != (2 ** len(regs),) * 2:
                raise Violation("local-shape", key=repr(sites), got=list(np.shape(hk)))
            tot += embed(np.asarray(hk), [2] * n, regs)
        e = check_matrix(tot, ctx, tol_of(dt or "complex128"), route="build_local_terms")
        return {"nt": ctx.nt, "cls": ctx.cls + ["route=terms", "nkeys=%d" % len(Hk)], "err": e}
    # LocalHamGen: only 1- and 2-site terms, every 1-site term must sit on a coupled site
    final = [ops for _, ops in b.terms]
    two = [tuple(s for _, s in ops) for ops in final if len(ops) == 2]
    covered = {s for pr in two for s in pr}
    ok = bool(two) and all(len(ops) in (1, 2) for ops in final) and \
        all(ops[0][1] in covered for ops in final if len(ops) == 1)
    if not ok:
        with rejecting(ValueError, TypeError, NotImplementedError, tag="local_ham:"):
            b.build_local_ham(dtype=dt)
        raise Reject("local_ham: accepted an operator it cannot represent (not checked)")
    ham = b.build_local_ham(dtype=dt)
    tot = np.zeros((2 ** n, 2 ** n), dtype=complex)
    for (sa, sb), h in ham.terms.items():
        tot += embed(np.asarray(h), [2] * n, [reg[sa], reg[sb]])
    e = check_matrix(tot, ctx, tol_of(dt or "complex128"), route="build_local_ham")
    return {"nt": ctx.nt, "cls": ctx.cls + ["route=ham"], "err": e}


# ---------------------------------------------------------------------------
# 6. embedding via Kronecker products
# ---------------------------------------------------------------------------
@st.composite
def s_ikron(draw, tier):
    case = draw(s_builder_case(tier))
    case["opts"] = draw(st.sampled_from([{}, {}, {"sparse": True}, {"sparse": True, "stype": "csr"},
                                         {"sparse": True, "stype": "coo"}]))
    return case


def run_ikron(case):
    import scipy.sparse as sp

    b, ctx = setup(case)
    if ctx.n == 1:
        case = dict(case, opts={})  # sparse ikron of a one-site system is qu.ikron's own edge case (C15), not a builder matter
    got = b.build_matrix_ikron(**case["opts"])
    if got is None:
        if np.any(ctx.H):
            raise Violation("ikron-none", c19a_model=False)
        raise Reject("operator with no terms")
    if sp.issparse(got):
        got = got.toarray()
    # (the container type with sparse=True is ikron's business - C15; only the value is checked here)
    e = check_matrix(np.asarray(got), ctx, EXACT64, route="build_matrix_ikron")
    return {"nt": ctx.nt, "cls": ctx.cls + ["sparse=%s" % bool(case["opts"].get("sparse"))], "err": e}


# ---------------------------------------------------------------------------
# 7. coupling of single configurations (VMC interface)
# ---------------------------------------------------------------------------
@st.composite
def s_coupling(draw, tier):
    case = draw(s_builder_case(tier))
    case["dtype"] = draw(st.sampled_from([None, None, "complex128"]))
    case["route"] = draw(st.sampled_from(["flat", "config"]))
    case["cseed"] = draw(st.integers(0, 2 ** 31 - 1))
    return case


def run_coupling(case):
    b, ctx = setup(case)
    n = ctx.n
    D = 2 ** n
    rng = np.random.default_rng(case["cseed"])
    cols = list(range(D)) if D <= 16 else sorted(rng.choice(D, size=16, replace=False).tolist())
    G = np.zeros((D, len(cols)), dtype=complex)
    labels_in_reg = [ctx.labels[si] for si in ctx.regs]
    kw = {} if case["dtype"] is None else {"dtype": case["dtype"]}
    for k, c in enumerate(cols):
        bits = [(c >> (n - 1 - r)) & 1 for r in range(n)]
        if case["route"] == "flat":
            cfs, coeffs = b.flatconfig_coupling(np.array(bits, dtype=np.uint8), **kw)
            rows = [[int(v) for v in fc] for fc in cfs]
        else:
            cfgs, coeffs = b.config_coupling({lab: bit for lab, bit in zip(labels_in_reg, bits)}, **kw)
            for cfg in cfgs:
                if set(cfg) != set(labels_in_reg):
                    raise Violation("config-keys", got=sorted(map(repr, cfg)))
            rows = [[int(cfg[lab]) for lab in labels_in_reg] for cfg in cfgs]
        if len(rows) != len(coeffs):
            raise Violation("coupling-lengths", got=[len(rows), len(coeffs)])
        if len({tuple(r) for r in rows}) != len(rows):
            raise Violation("coupling-not-distinct", config=bits)
        for r, h in zip(rows, coeffs):
            G[int("".join(map(str, r)), 2) if n else 0, k] += h
    e = check_matrix(G, ctx, EXACT64, transform=lambda A: A[:, cols], route=case["route"] + "config_coupling")
    return {"nt": ctx.nt, "cls": ctx.cls + ["route=" + case["route"]], "err": e}


# ---------------------------------------------------------------------------
# 8. the rewritten term list itself (simplify / Jordan-Wigner / Pauli decomposition)
# ---------------------------------------------------------------------------
def eval_terms(qterms, reg, n):
    """sum coeff * kron(textbook matrices) of an already simplified quimb term list."""
    H = np.zeros((2 ** n, 2 ** n), dtype=complex)
    for coeff, ops in qterms:
        per = {}
        for op, site in ops:
            r = reg[site]
            per[r] = per.get(r, _I) @ SQ[op]
        T = np.array([[1.0 + 0j]])
        for r in range(n):
            T = np.kron(T, per.get(r, _I))
        H += complex(coeff) * T
    return H


@st.composite
def s_terms_final(draw, tier):
    case = draw(s_builder_case(tier))
    case["jw"] = draw(st.booleans())
    case["pauli"] = draw(st.sampled_from([False, True, "zx"]))
    return case


def run_terms_final(case):
    b, ctx = setup(case)
    reg = {ctx.labels[si]: r for si, r in ctx.reg_of.items()}
    qterms = b.terms
    pd = case.get("pauli")
    allowed = set(ALL_OPS) - {"I"}
    if pd == "zx":
        allowed = {"x", "ⴵ", "z"}
    elif pd:
        allowed = {"x", "y", "z"}
    seen = set()
    for coeff, ops in qterms:
        regs = [reg[s] for _, s in ops]
        if regs != sorted(set(regs)):
            raise Violation("final-term-not-canonical", term=repr(ops), c19a_model=False)
        bad = [op for op, _ in ops if op not in allowed]
        if bad:
            raise Violation("final-term-op", ops=bad, pauli=str(pd), c19a_model=False)
        if ops in seen:
            raise Violation("final-term-duplicate", term=repr(ops), c19a_model=False)
        seen.add(ops)
    if b.nterms != len(qterms) or b.locality != max([len(o) for _, o in qterms] + [0]):
        raise Violation("nterms-locality", nterms=b.nterms, locality=b.locality)
    if b.nsites != ctx.n:
        raise Violation("nsites", got=b.nsites, want=ctx.n)
    e = check_matrix(eval_terms(qterms, reg, ctx.n), ctx, EXACT64, route="terms")
    if (not b.iscomplex) and np.abs(ctx.H.imag).max() > 1e-9 * ctx.floor:
        raise Violation("iscomplex-false-for-complex-operator")
    return {"nt": ctx.nt, "cls": ctx.cls + ["nterms=%d" % min(len(qterms), 9)], "err": e}


@st.composite
def s_rewrite_fns(draw, tier):
    n = draw(st.integers(1, 5))
    return {"n": n, "terms": draw(s_terms(n)), "fn": draw(st.sampled_from(["jw", "simplify", "pauli", "pauli_zx", "chain"])),
            "maps": draw(st.booleans()), "perm": list(draw(st.permutations(list(range(n)))))}


def run_rewrite_fns(case):
    """the module-level functions on integer sites, with and without explicit register maps."""
    from quimb.operator import builder as B

    n = case["n"]
    perm = case["perm"] if case["maps"] else list(range(n))  # site i lives on register perm[i]
    inv = {r: i for i, r in enumerate(perm)}
    kw = {"site_to_reg": perm.__getitem__} if case["maps"] else {}
    raw = {}
    for t in case["terms"]:
        key = tuple((op, si) for op, si in t[2])
        raw[key] = raw.get(key, 0.0) + term_coeff(t)
    fn = case["fn"]
    jw = fn in ("jw", "chain")
    H, Hbug, floor, nonunit, repeated = reference(case["terms"], {i: perm[i] for i in range(n)}, n, jw)
    ctx = Ctx()
    ctx.H, ctx.Hbug, ctx.floor, ctx.nonunit = H, Hbug, floor, nonunit
    try:
        if fn == "jw":
            out = B.jordan_wigner_transform(raw, **(dict(kw, reg_to_site=inv.__getitem__) if kw else {}))
        elif fn == "simplify":
            out = B.simplify(raw, **kw)
        elif fn in ("pauli", "pauli_zx"):
            out = B.pauli_decompose(B.simplify(raw, **kw), use_zx=fn == "pauli_zx", **kw)
        else:
            t1 = B.jordan_wigner_transform(raw, **(dict(kw, reg_to_site=inv.__getitem__) if kw else {}))
            out = B.simplify(B.pauli_decompose(B.simplify(t1, **kw), **kw), **kw)
    except TypeError as e:
        if "NoneType" in str(e) and not case["maps"] and fn in ("pauli", "pauli_zx", "chain"):
            raise Violation("crash", exc="TypeError", where="pauli_decompose", default_site_to_reg=True) from e
        raise
    qterms = [(c, ops) for ops, c in out.items()]
    if fn == "jw":
        # raw terms: evaluate the ordered products directly
        terms2 = [[complex(c).real, complex(c).imag, [[op, s] for op, s in ops]] for c, ops in qterms]
        got = reference(terms2, {i: perm[i] for i in range(n)}, n, False)[0]
    else:
        got = eval_terms(qterms, {i: perm[i] for i in range(n)}, n)
    e = check_matrix(got, ctx, EXACT64, route="fn:" + fn)
    return {"nt": bool(repeated or jw), "cls": ["fn=" + fn, "maps=%s" % case["maps"]] + (["repeat"] if repeated else []), "err": e}



# ---------------------------------------------------------------------------
# 9. symmetry sectors: the sector matrix is the full matrix between the sector's basis states
# ---------------------------------------------------------------------------
def charge_groups(space, symmetry, explicit_na=None):
    """canonical site indices per conserved charge (None for Z2)."""
    n = space["n"]
    if symmetry == "Z2":
        return None
    if symmetry == "U1":
        return [list(range(n))]
    spc = species_of(space)
    if spc is not None:
        labs = sorted(set(spc))
        return [[i for i in range(n) if spc[i] == lab] for lab in labs]
    regs = register_order(space)
    return [regs[:explicit_na], regs[explicit_na:]]


@st.composite
def s_sym_terms(draw, n, symmetry, groups, max_terms=4):
    terms = []
    for _ in range(draw(st.integers(1, max_terms))):
        ops = [[draw(st.sampled_from(DIAG_OPS)), draw(st.integers(0, n - 1))] for _ in range(draw(st.integers(0, 2)))]
        if symmetry == "Z2":
            k = draw(st.integers(0, 2)) * 2
            for _ in range(k):
                ops.append([draw(st.sampled_from(sorted(OFFDIAG))), draw(st.integers(0, n - 1))])
        else:
            for _ in range(draw(st.integers(0, 2))):
                g = groups[draw(st.integers(0, len(groups) - 1))]
                if not g:
                    continue
                ops.append(["+", g[draw(st.integers(0, len(g) - 1))]])
                ops.append(["-", g[draw(st.integers(0, len(g) - 1))]])
        if not ops:
            ops = [["n", draw(st.integers(0, n - 1))]]
        ops = list(draw(st.permutations(ops)))
        terms.append([draw(st.sampled_from(COEFFS)), draw(st.sampled_from([0.0, 0.0, 0.5, -1.0])), ops])
    return terms


@st.composite
def s_sector(draw, tier):
    symmetry = draw(st.sampled_from(["Z2", "U1", "U1U1", "U1U1"]))
    max_n = 5 if tier == "quick" else 7
    space = draw(s_space(min_n=2 if symmetry == "U1U1" else 1, max_n=max_n,
                         species="maybe" if symmetry != "U1U1" else draw(st.sampled_from(["two", "two", None]))))
    n = space["n"]
    case = {"space": space, "symmetry": symmetry, "hs": True, "where": draw(st.sampled_from(["hs", "call"])),
            "sym_given": draw(st.booleans()), "jw": draw(st.booleans()), "pauli": False,
            "how": draw(st.sampled_from(["ctor", "iadd"])), "toggle": False, "prebuild": 0,
            "route": draw(st.sampled_from(["dense", "dense", "sparse", "matvec", "matvec_par", "linop", "size"])),
            "vseed": draw(st.integers(0, 2 ** 31 - 1)), "dtype": draw(st.sampled_from([None, None, "complex128"]))}
    na = None
    if symmetry == "Z2":
        case["sector"] = draw(st.sampled_from(["even", "odd", 0, 1]))
    elif symmetry == "U1":
        case["sector"] = draw(st.integers(0, n))
    else:
        if space["species"] is None:
            na = draw(st.integers(1, n - 1))
            form = "explicit"
        else:
            form = draw(st.sampled_from(["dict", "tuple", "explicit"]))
        groups = charge_groups(space, symmetry, na)
        case["form"] = form
        case["fill"] = [draw(st.integers(0, len(g))) for g in groups]
        case["na"] = na
    case["terms"] = draw(s_sym_terms(n, symmetry, charge_groups(space, symmetry, na)))
    return case


def sector_spec(case):
    """-> (sector argument for quimb, predicate on register-ordered bits, sort key)"""
    space, symmetry = case["space"], case["symmetry"]
    n = space["n"]
    regs = register_order(space)
    reg_of = {si: r for r, si in enumerate(regs)}
    if symmetry == "Z2":
        p = {"even": 0, "odd": 1}.get(case["sector"], case["sector"])
        return case["sector"], (lambda bits: sum(bits) % 2 == p), (lambda bits: tuple(bits))
    if symmetry == "U1":
        k = case["sector"]
        return k, (lambda bits: sum(bits) == k), (lambda bits: tuple(bits))
    groups = charge_groups(space, symmetry, case.get("na"))
    ga, gb = [sorted(reg_of[i] for i in g) for g in groups]
    ka, kb = case["fill"]
    form = case["form"]
    if form == "dict":
        labs = sorted(set(species_of(space)))
        sector = {labs[0]: ka, labs[1]: kb}
    elif form == "tuple":
        sector = (ka, kb)
    else:
        sector = ((len(ga), ka), (len(gb), kb))
    return (sector, (lambda bits: sum(bits[r] for r in ga) == ka and sum(bits[r] for r in gb) == kb),
            (lambda bits: tuple(bits[r] for r in ga) + tuple(bits[r] for r in gb)))


def sector_indices(n, pred, key):
    cfgs = [bits for bits in itertools.product((0, 1), repeat=n) if pred(bits)]
    cfgs.sort(key=key)
    return [int("".join(map(str, b)), 2) for b in cfgs], cfgs


def run_sector(case):
    symmetry = case["symmetry"]
    sector, pred, key = sector_spec(case)
    n = case["space"]["n"]
    idx, cfgs = sector_indices(n, pred, key)
    sym_arg = symmetry if (case["sym_given"] or (symmetry == "Z2" and case["sector"] in (0, 1))) else None
    if case["where"] == "hs":
        b, ctx = setup(case, hs_kw={"sector": sector, "symmetry": sym_arg})
        kw = {}
    else:
        b, ctx = setup(case)
        kw = {"sector": sector, "symmetry": sym_arg}
    d = len(idx)
    rest = [i for i in range(2 ** n) if i not in set(idx)]
    if rest and np.abs(ctx.H[np.ix_(rest, idx)]).max() > 1e-12 * ctx.floor:
        raise Reject("operator leaves the sector (generator bug)")
    hs = b.hilbert_space
    size = hs.size if case["where"] == "hs" else hs.get_size(**kw)
    if int(size) != d:
        raise Violation("sector-size", got=int(size), want=d, symmetry=symmetry)
    route = case["route"]
    dt = case["dtype"]
    tf = lambda A: A[np.ix_(idx, idx)]
    info = dict(route="sector:" + route, symmetry=symmetry, where=case["where"])
    if route == "size":
        if case["where"] == "hs":
            # the default sector's enumeration is the documented lexicographic one
            for r, bits in enumerate(cfgs):
                fc = hs.rank_to_flatconfig(r)
                if [int(v) for v in fc] != list(bits):
                    raise Violation("sector-enumeration", rank=r, got=[int(v) for v in fc], want=list(bits), symmetry=symmetry)
                if int(hs.flatconfig_to_rank(np.array(bits, dtype=np.uint8))) != r:
                    raise Violation("sector-rank", rank=r, symmetry=symmetry)
        e = 0.0
    elif route == "dense":
        e = check_matrix(b.build_dense(dtype=dt, **kw), ctx, EXACT64, transform=tf, **info)
    elif route == "sparse":
        e = check_matrix(b.build_sparse_matrix(dtype=dt, **kw).toarray(), ctx, EXACT64, transform=tf, **info)
    else:
        vdt = np.dtype(b.get_dtype(dt))
        x = make_vec(case["vseed"], d, vdt)
        if route == "linop":
            got = b.aslinearoperator(dtype=dt, **kw) @ x
        else:
            got = b.matvec(x, parallel=2 if route == "matvec_par" else False, **kw)
        xs = np.asarray(x, dtype=complex)
        e = check_matrix(np.asarray(got), ctx, EXACT64 * 10, transform=lambda A: tf(A) @ xs,
                         scale=float(np.linalg.norm(xs)) / 2 ** (n / 2), **info)
    proper = d < 2 ** n
    return {"nt": bool(proper and d >= 2), "cls": ctx.cls + ["sym=" + symmetry, "where=" + case["where"], "route=" + route,
            "dim=%d" % min(d, 40) if d < 4 else "dim>=4"] + (["form=" + case["form"]] if symmetry == "U1U1" else []) +
            (["interleaved-species"] if symmetry == "U1U1" and key(tuple(range(n))) != tuple(range(n)) else []), "err": e}


SUBCHECKS = [
    SubCheck("dense", run_dense, s_dense, examples=(150, 3000), shards=(1, 4),
             rule="build_dense (dtype auto/explicit incl. single precision, parallel) == H_ref; nt as RULE"),
    SubCheck("sparse", run_sparse, s_sparse, examples=(150, 3000), shards=(1, 4),
             rule="build_sparse_matrix in 7 formats == H_ref and has the requested format; nt as RULE"),
    SubCheck("matvec", run_matvec, s_matvec, examples=(150, 3000), shards=(1, 4),
             rule="matvec (out=, dtype=, parallel) and aslinearoperator @/matvec/matmat == H_ref @ x; nt as RULE"),
    SubCheck("mpo", run_mpo, s_mpo, examples=(150, 3000), shards=(1, 4), needs_deps=True,
             rule="build_mpo().to_dense() == H_ref; nt as RULE"),
    SubCheck("local_terms", run_local, s_local, examples=(150, 3000), shards=(1, 4),
             rule="build_local_terms / build_local_ham re-embedded and summed == H_ref; nt as RULE"),
    SubCheck("ikron", run_ikron, s_ikron, examples=(120, 2500), shards=(1, 4),
             rule="build_matrix_ikron dense/sparse == H_ref; nt as RULE"),
    SubCheck("coupling", run_coupling, s_coupling, examples=(120, 2500), shards=(1, 4),
             rule="flatconfig_coupling / config_coupling of (all or 16 sampled) basis configurations == columns of H_ref; nt as RULE"),
    SubCheck("terms_final", run_terms_final, s_terms_final, examples=(150, 3000), shards=(1, 4),
             rule="the simplified / Jordan-Wigner / Pauli-decomposed term list (.terms) evaluates to H_ref and is canonical; nt as RULE"),
    SubCheck("sector", run_sector, s_sector, examples=(250, 4000), shards=(2, 6),
             rule="Z2/U1/U1U1 sectors (default or per call, every sector spelling, species blocked or interleaved): dense/sparse/matvec/linop == H_ref[idx][:, idx], size, enumeration; nt: proper sector of dimension >= 2"),
    SubCheck("rewrite_fns", run_rewrite_fns, s_rewrite_fns, examples=(150, 3000), shards=(1, 4),
             rule="module-level jordan_wigner_transform / simplify / pauli_decompose on integer sites, with default and explicit register maps; nt: repeated site or JW"),
]
