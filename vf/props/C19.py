"""C19 — all representations of one Hamiltonian denote the same operator.

Oracle: H_ref = sum_t coeff_t * (product, in the order written, of the named
single-site operators of term t, each embedded at its register), with the 2x2
matrices written out below from their textbook definitions (NOT taken from
quimb's operator table) and Jordan-Wigner strings inserted from the textbook
definition c_r = (prod_{q<r} Z_q) sigma_r.  Register order is computed here
from the documented meaning of ``order``.  Every sub-check is one family of
entry points.
"""
from __future__ import annotations

import itertools
import math

import numpy as np
from hypothesis import strategies as st

from ..core import EXACT32, EXACT64, Reject, SubCheck, Violation, rejecting, rel_err
from ..oracle import embed

RULE = ("cases are term lists (1-6 terms, locality 1-4, all 13 operator names, repeated sites/terms, complex "
        "coefficients, fermionic +/- with Jordan-Wigner, Pauli decomposition incl. 'zx') on labelled sites "
        "(ints/strings/tuples/species) with every documented ordering; oracle = sum coeff * kron of products of "
        "textbook 2x2 matrices in register order; non-trivial = repeated site or complex coefficient or fermionic "
        "term under JW or non-identity ordering or a proper sector; rank/unrank is enumerated exhaustively")
ASSUMPTIONS = [
    "the 2x2 matrices written in this module are the meaning of the 13 operator names (bit 1 = occupied, bit 0 = spin up)",
    "a term is the matrix product of its operators in the order written (docstring: '+','-' on one site -> 'n')",
    "sector matrices are indexed by the documented lexicographic enumeration of the sector's bit strings "
    "(U1U1: species blocks in sorted species order)",
    "in a symmetry sector only operators whose every term maps the sector into itself are in the domain",
    "flatconfig_coupling(config) returns the column H|config> (as quimb's own tests and build_coo use it)",
]

# ---------------------------------------------------------------------------
# textbook single-site operators (basis |0>,|1>; 1 = occupied / spin down)
# ---------------------------------------------------------------------------
_X = np.array([[0, 1], [1, 0]], dtype=complex)
_Y = np.array([[0, -1j], [1j, 0]], dtype=complex)
_Z = np.array([[1, 0], [0, -1]], dtype=complex)
_I = np.eye(2, dtype=complex)
_CR = np.array([[0, 0], [1, 0]], dtype=complex)  # creation |1><0|
_AN = np.array([[0, 1], [0, 0]], dtype=complex)  # annihilation |0><1|
_N = np.array([[0, 0], [0, 1]], dtype=complex)
SQ = {
    "I": _I, "x": _X, "y": _Y, "z": _Z,
    "ⴵ": _Z @ _X,  # documented: ZX = iY
    "sx": _X / 2, "sy": _Y / 2, "sz": _Z / 2,
    "+": _CR, "-": _AN, "n": _N, "sn": _N - _I / 2, "h": _I - _N,
}
ALL_OPS = list(SQ)
OFFDIAG = {"x", "y", "ⴵ", "sx", "sy", "+", "-"}
DIAG_OPS = ["z", "sz", "n", "sn", "h", "I"]
POOLS = {
    "all": ALL_OPS,
    "pauli": ["x", "y", "z"],
    "fermi": ["+", "-", "n", "h", "sn", "z", "+", "-"],
    "real": ["I", "x", "z", "ⴵ", "sx", "sz", "+", "-", "n", "sn", "h"],
}
SPECTRAL = {op: float(np.linalg.norm(m, 2)) for op, m in SQ.items()}
_PRIMARY = ["I", "x", "y", "z", "+", "-", "n", "h"]


def site_product_coeff(P):
    """c with P = c * R, R one of the textbook I,x,y,z,+,-,n,h (None if P == 0)."""
    if not np.any(np.abs(P) > 1e-14):
        return None
    for name in _PRIMARY:
        R = SQ[name]
        k = int(np.argmax(np.abs(R)))
        if abs(P.flat[k]) > 1e-14 and np.allclose(P * R.flat[k], R * P.flat[k], atol=1e-12):
            return P.flat[k] / R.flat[k]
    raise AssertionError("product of named operators is not proportional to a named operator")


# ---------------------------------------------------------------------------
# site labellings and orderings (register order computed from the documentation)
# ---------------------------------------------------------------------------
_STRS = ["q", "b", "zz", "a", "m", "B", "k", "x1", "x0", "c", "y", "d"]
LABEL_KINDS = ["int", "gap", "neg", "str", "coord", "spin"]


def make_labels(kind, n, na=1):
    if kind == "int":
        return list(range(n))
    if kind == "gap":
        return [(7 * i + 3) % 23 for i in range(n)]
    if kind == "neg":
        return [i - n // 2 for i in range(n)]
    if kind == "str":
        return _STRS[:n]
    if kind == "coord":
        return [(i // 2, i % 2) for i in range(n)]
    if kind == "spin":
        na = max(0, min(n, na))
        return [("↑", i) for i in range(na)] + [("↓", i) for i in range(n - na)]
    raise AssertionError(kind)


def register_order(space):
    """canonical site indices in register order, from the documented meaning of `order`."""
    labels = space_labels(space)
    sup = list(space["supply"])
    order = space["order"]
    if order in ("none", "false"):
        return sup
    if order == "true":
        return sorted(sup, key=lambda i: labels[i])
    if order in ("seq", "key"):
        pos = {c: k for k, c in enumerate(space["operm"])}
        return sorted(sup, key=pos.get)
    if order == "blocked":
        return sorted(sup, key=lambda i: (labels[i][0], labels[i][1:]))
    if order == "interleaved":
        return sorted(sup, key=lambda i: (labels[i][1:], labels[i][0]))
    raise AssertionError(order)


def space_labels(space):
    return make_labels(space["kind"], space["n"], space.get("na", 1))


def species_of(space):
    """species label per canonical site index, or None."""
    sp = space.get("species")
    if sp is None:
        return None
    labels = space_labels(space)
    if sp["of"] == "label0":
        return [lab[0] for lab in labels]
    return ["ab"[int(v)] for v in sp["of"]]


def build_hs(space, sector=None, symmetry=None, dims=None):
    from quimb.operator import HilbertSpace

    labels = space_labels(space)
    sup = list(space["supply"])
    sites = [labels[i] for i in sup]
    order = space["order"]
    if order == "none":
        oarg = None
    elif order == "false":
        oarg = False
    elif order == "true":
        oarg = True
    elif order == "seq":
        oarg = [labels[i] for i in space["operm"]]
    elif order == "key":
        pos = {labels[c]: k for k, c in enumerate(space["operm"])}
        oarg = pos.__getitem__
    else:
        oarg = order
    kw = {}
    spc = species_of(space)
    if spc is not None:
        smap = {labels[i]: spc[i] for i in range(space["n"])}
        kw["species"] = smap if space["species"].get("by") == "dict" else smap.__getitem__
    if sector is not None:
        kw["sector"] = sector
    if symmetry is not None:
        kw["symmetry"] = symmetry
    if dims is not None:
        dmap = {labels[i]: int(dims[i]) for i in range(space["n"])}
        if space.get("sites_as") == "dict":
            return HilbertSpace({s: dmap[s] for s in sites}, order=oarg, **kw)
        return HilbertSpace(sites, dims=[dmap[s] for s in sites], order=oarg, **kw)
    if space.get("sites_as") == "dict":
        return HilbertSpace({s: 2 for s in sites}, order=oarg, **kw)
    if space.get("sites_as") == "int" and sites == list(range(space["n"])):
        return HilbertSpace(space["n"], order=oarg, **kw)
    return HilbertSpace(sites, order=oarg, **kw)


@st.composite
def s_space(draw, min_n=1, max_n=5, kinds=None, species=None):
    """species: None (no species), 'maybe', 'two' (exactly two species, both non-empty)."""
    n = draw(st.integers(max(min_n, 2 if species == "two" else 1), max_n))
    kind = draw(st.sampled_from(kinds or LABEL_KINDS))
    na = draw(st.integers(1, max(1, n - 1)))
    supply = list(draw(st.permutations(list(range(n)))))
    orders = ["none", "false", "true", "seq", "key"]
    if kind == "spin" or (kind == "coord"):
        orders += ["blocked", "interleaved"]
    space = {"n": n, "kind": kind, "na": na, "supply": supply, "order": draw(st.sampled_from(orders)),
             "operm": list(draw(st.permutations(list(range(n))))),
             "sites_as": draw(st.sampled_from(["list", "list", "dict", "int"])), "species": None}
    want = species == "two" or (species == "maybe" and draw(st.booleans()))
    if want:
        by = draw(st.sampled_from(["dict", "callable"]))
        if kind == "spin" and n >= 2 and draw(st.booleans()):
            space["species"] = {"of": "label0", "by": by}
        else:
            bits = draw(st.lists(st.integers(0, 1), min_size=n, max_size=n))
            if species == "two" and len(set(bits)) < 2:
                bits[0], bits[-1] = 0, 1
            space["species"] = {"of": bits, "by": by}
    return space


def order_is_trivial(space):
    return register_order(space) == sorted(range(space["n"]))


# ---------------------------------------------------------------------------
# term lists
# ---------------------------------------------------------------------------
COEFFS = [1.0, -1.0, 0.5, 2.0, -0.25, 1.5, 0.3, -0.7, 1.0, 1.0]


@st.composite
def s_terms(draw, n, max_terms=5, max_loc=4, pools=("all", "all", "pauli", "fermi", "real"), repeat=None,
            complex_ok=True):
    pool = POOLS[draw(st.sampled_from(list(pools)))]
    if repeat is None:
        # (repeated sites in 2 of 5 cases: on the unrepaired tree most of them hit known defect C19-a)
        repeat = draw(st.sampled_from([False, True, True]))
    terms = []
    for _ in range(draw(st.integers(1, max_terms))):
        k = draw(st.integers(1, max_loc if repeat else min(max_loc, n)))
        ops = []
        free = list(range(n))
        for _ in range(k):
            op = draw(st.sampled_from(pool))
            if repeat:
                if ops and draw(st.integers(0, 2)) == 0:
                    si = ops[draw(st.integers(0, len(ops) - 1))][1]
                else:
                    si = draw(st.integers(0, n - 1))
            else:
                si = free.pop(draw(st.integers(0, len(free) - 1)))
            ops.append([op, si])
        re = draw(st.sampled_from(COEFFS) | st.floats(-2, 2, allow_nan=False, width=32).map(lambda v: round(float(v), 3)))
        im = draw(st.sampled_from([0.0, 0.0, 0.0, 1.0, -0.5, 0.25])) if complex_ok else 0.0
        terms.append([re, im, ops])
    if len(terms) >= 2 and draw(st.integers(0, 4)) == 0:
        # an exactly repeated term (coefficients must add)
        t = terms[draw(st.integers(0, len(terms) - 1))]
        terms.append([draw(st.sampled_from(COEFFS)), t[1], [list(o) for o in t[2]]])
    return terms


def term_coeff(t):
    return complex(t[0], t[1]) if t[1] != 0 else float(t[0])


class Ctx:
    """Reference denotation of a case: H (full space, register order), the C19-a
    defect model Hbug, a-priori magnitude, classification."""


def reference(terms, reg_of, n, jw):
    D = 2 ** n
    H = np.zeros((D, D), dtype=complex)
    Hbug = np.zeros((D, D), dtype=complex)
    floor = 0.0
    nonunit = False
    repeated = False
    for t in terms:
        c = complex(t[0], t[1])
        if abs(c) < 1e-12:
            continue  # documented null-term
        seq = []
        for op, si in t[2]:
            r = reg_of[si]
            if jw and op in ("+", "-"):
                seq += [("z", q) for q in range(r)]  # textbook JW string on the lower registers
            seq.append((op, r))
        per, cnt = {}, {}
        mag = abs(c) * 2 ** (n / 2)
        for op, r in seq:
            per[r] = per.get(r, _I) @ SQ[op]
            cnt[r] = cnt.get(r, 0) + 1
            mag *= SPECTRAL[op]
        floor += mag
        mats = [per.get(r, _I) for r in range(n)]
        bug = list(mats)
        for r, k in cnt.items():
            if k >= 2:
                if len([1 for op, si in t[2] if reg_of[si] == r]) >= 2:
                    repeated = True
                cc = site_product_coeff(per[r])
                if cc is not None and abs(cc * cc - 1) > 1e-9:
                    nonunit = True
                    bug[r] = per[r] / (cc * cc)
        T = np.array([[1.0 + 0j]])
        B = np.array([[1.0 + 0j]])
        for m, mb in zip(mats, bug):
            T = np.kron(T, m)
            B = np.kron(B, mb)
        H += c * T
        Hbug += c * B
    return H, Hbug, max(floor, 1e-300), nonunit, repeated


def setup(case, build=True, hs_kw=None, allow_prebuild=False):
    """-> (builder or None, ctx).  The builder is constructed exactly as the case says."""
    space = case["space"]
    labels = space_labels(space)
    terms = case["terms"]
    jw = bool(case.get("jw"))
    pd = case.get("pauli") or False
    ctx = Ctx()
    ctx.stale = None
    if case.get("hs", True):
        regs = register_order(space)
    else:
        # (a term whose coefficient is below atol is documented as a null-term: it is skipped, sites included)
        used = sorted({si for t in terms if abs(complex(t[0], t[1])) >= 1e-12 for _, si in t[2]}, key=lambda i: labels[i])
        if not used:
            raise Reject("no site used: empty minimal Hilbert space")
        regs = used  # documented: minimal space from the sorted sites used
    ctx.regs = regs
    ctx.n = len(regs)
    ctx.reg_of = {si: r for r, si in enumerate(regs)}
    ctx.labels = labels
    ctx.H, ctx.Hbug, ctx.floor, ctx.nonunit, ctx.repeated = reference(terms, ctx.reg_of, ctx.n, jw)
    cplx = any(t[1] != 0 for t in terms)
    ferm = jw and any(op in ("+", "-") for t in terms for op, _ in t[2])
    ctx.raw_real = (not cplx) and not pd and not any(op in ("y", "sy") for t in terms for op, _ in t[2])
    ctx.nt = bool(ctx.repeated or cplx or ferm or (case.get("hs", True) and regs != sorted(regs)))
    ctx.cls = ([("repeat-nonunit" if ctx.nonunit else "repeat-unit")] if ctx.repeated else []) + \
        (["complex-coeff"] if cplx else []) + (["fermionic-jw"] if ferm else []) + \
        (["pauli=" + str(pd)] if pd else []) + ["order=" + space["order"] if case.get("hs", True) else "hs=auto"] + \
        ["labels=" + space["kind"], "n=%d" % ctx.n]
    if not build:
        return None, ctx
    from quimb.operator import SparseOperatorBuilder

    hs = build_hs(space, **(hs_kw or {})) if case.get("hs", True) else None
    if hs is not None:
        got = [labels.index(s) for s in hs.sites]
        if got != regs:
            raise Violation("ordering", got=[repr(s) for s in hs.sites], want=[repr(labels[i]) for i in regs],
                            order=space["order"])
    qterms = [(term_coeff(t), *[(op, labels[si]) for op, si in t[2]]) for t in terms]
    kw = {}
    if case.get("ctor_dtype"):
        kw["dtype"] = case["ctor_dtype"]
    how = case.get("how", "ctor")
    if how == "ctor":
        b = SparseOperatorBuilder(qterms, hilbert_space=hs, jordan_wigner=jw, pauli_decompose=pd, **kw)
    else:
        b = SparseOperatorBuilder(hilbert_space=hs, **kw)
        pre = int(case.get("prebuild") or 0) if (hs is not None and allow_prebuild) else 0
        ctx.stale = stale_model(terms, pre, jw or pd, ctx)
        for k, t in enumerate(qterms):
            if how == "isub":
                b -= (-t[0], *t[1:])
            elif how == "add_term":
                b.add_term(*t)
            elif how == "nocoeff" and t[0] == 1.0:
                b += t[1:]
            else:
                b += t
            if pre and k + 1 == pre:
                # a stale cached representation (final terms, coupling maps per dtype, iscomplex) must not survive later edits
                what = case.get("pre_what", "dense")
                try:
                    if what == "dense":
                        b.build_dense()
                    elif what == "terms":
                        b.terms, b.iscomplex, b.locality
                    elif what == "matvec":
                        b.matvec(np.ones(b.hilbert_space.size, dtype=complex))
                    elif what == "sparse128":
                        b.build_sparse_matrix(dtype="complex128")
                    else:
                        b.flatconfig_coupling(np.zeros(b.nsites, dtype=np.uint8))
                except ValueError:
                    pass
        if jw:
            b.jordan_wigner_transform(None if case.get("toggle") else True)
        if pd:
            b.pauli_decompose(None if case.get("toggle") else True, use_zx=(pd == "zx"))
    ctx.identity_term = any(len(ops) == 0 for _, ops in b.terms)
    return b, ctx


def stale_model(terms, pre, reset_after, ctx):
    """Model of defect C19-g: add_term that cancels an existing raw term returns without
    invalidating cached representations.  -> (H, Hbug) the builder would still serve, or None."""
    if not pre or reset_after:
        return None
    raw, snap = {}, None
    for k, t in enumerate(terms):
        key = tuple((op, si) for op, si in t[2])
        c = term_coeff(t)
        if abs(c) < 1e-12:
            pass
        else:
            tot = raw.pop(key, 0.0) + c
            if abs(tot) < 1e-12:
                pass  # cancelled: quimb returns here without resetting its caches
            else:
                raw[key] = tot
                snap = None
        if k + 1 == pre:
            snap = dict(raw)
    if snap is None or snap == raw:
        return None
    st_terms = [[complex(c).real, complex(c).imag, [list(o) for o in key]] for key, c in snap.items()]
    r = reference(st_terms, ctx.reg_of, ctx.n, False)
    return r[0], r[1]


def check_matrix(got, ctx, tol, transform=None, scale=1.0, **info):
    """got must equal transform(H_ref).  A mismatch that is exactly explained by the
    known defect C19-a (ratio inverted in simplify_single_site_ops) is labelled so."""
    f = transform or (lambda A: A)
    want = f(ctx.H)
    got = np.asarray(got)
    if got.shape != np.shape(want):
        raise Violation("shape", got=list(got.shape), want=list(np.shape(want)), **info)
    fl = ctx.floor * scale
    e = rel_err(got, want, floor=fl)
    if e <= tol:
        return e
    model = bool(ctx.nonunit and rel_err(got, f(ctx.Hbug), floor=fl) <= tol)
    stale = getattr(ctx, "stale", None)
    if stale is not None and not model and min(rel_err(got, f(stale[0]), floor=fl), rel_err(got, f(stale[1]), floor=fl)) <= tol:
        raise Violation("value", err=e, tol=tol, stale_cache_model=True, **info)
    raise Violation("value", err=e, tol=tol, c19a_model=model, **info)


@st.composite
def s_builder_case(draw, tier, max_n=None, jw_ok=True, pauli_ok=True, **term_kw):
    max_n = max_n or (5 if tier == "quick" else 6)
    space = draw(s_space(max_n=max_n))
    case = {"space": space, "terms": draw(s_terms(space["n"], **term_kw)),
            "hs": draw(st.sampled_from([True, True, True, False])),
            "jw": jw_ok and draw(st.sampled_from([False, False, True])),
            "pauli": draw(st.sampled_from([False, False, False, True, "zx"])) if pauli_ok else False,
            "how": draw(st.sampled_from(["ctor", "iadd", "isub", "add_term", "nocoeff"])),
            "toggle": draw(st.booleans()), "prebuild": draw(st.integers(0, 3)),
            "pre_what": draw(st.sampled_from(["dense", "dense", "terms", "matvec", "sparse128", "coupling"]))}
    return case


def pick_dtype(draw, tier="thorough"):
    # (every dtype is a separate numba specialisation of every kernel, ~10 s each on a cold cache:
    #  single precision only in the thorough tier)
    return draw(st.sampled_from([None, None, "complex128", "float64"] + (["complex64", "float32"] if tier != "quick" else [])))


def resolve_dtype(b, ctx, want):
    """explicit real dtypes are only in the domain of provably real operators."""
    # (b.iscomplex: a real product such as z*x is stored as 1j*'y', which quimb itself then treats as complex)
    if want in ("float64", "float32") and (not ctx.raw_real or b.iscomplex):
        want = {"float64": "complex128", "float32": "complex64"}[want]
    return want


def tol_of(dt):
    return EXACT32 if str(dt) in ("float32", "complex64") else EXACT64


# ---------------------------------------------------------------------------
# 1. dense matrix
# ---------------------------------------------------------------------------
@st.composite
def s_dense(draw, tier):
    case = draw(s_builder_case(tier))
    case["dtype"] = pick_dtype(draw, tier)
    case["ctor_dtype"] = draw(st.sampled_from([None, None, "complex128"]))
    case["parallel"] = draw(st.sampled_from([False, False, 2, True]))
    if case["how"] != "ctor" and draw(st.integers(0, 3)) == 0:
        # history: a later term cancels an earlier one exactly, possibly after a representation was built
        t = case["terms"][draw(st.integers(0, len(case["terms"]) - 1))]
        case["terms"].append([-t[0], -t[1], [list(o) for o in t[2]]])
    return case


def run_dense(case):
    b, ctx = setup(case, allow_prebuild=True)
    dt = resolve_dtype(b, ctx, case.get("dtype"))
    got = b.build_dense(dtype=dt, parallel=case.get("parallel", False))
    if dt is not None and got.dtype != np.dtype(dt):
        raise Violation("dtype", got=str(got.dtype), want=dt)
    e = check_matrix(got, ctx, tol_of(got.dtype), route="build_dense")
    return {"nt": ctx.nt, "cls": ctx.cls + ["dtype=" + str(dt)], "err": e}


# ---------------------------------------------------------------------------
# 2. sparse matrix in every format
# ---------------------------------------------------------------------------
STYPES = ["coo", "csr", "csc", "bsr", "lil", "dok", "dia"]


@st.composite
def s_sparse(draw, tier):
    case = draw(s_builder_case(tier))
    case["dtype"] = pick_dtype(draw, tier)
    case["stype"] = draw(st.sampled_from(STYPES))
    case["parallel"] = draw(st.sampled_from([False, False, 2]))
    return case


def run_sparse(case):
    import scipy.sparse as sp

    b, ctx = setup(case)
    dt = resolve_dtype(b, ctx, case.get("dtype"))
    got = b.build_sparse_matrix(dtype=dt, stype=case["stype"], parallel=case.get("parallel", False))
    if not sp.issparse(got) or got.format != case["stype"]:
        raise Violation("sparse-format", got=getattr(got, "format", repr(type(got))), want=case["stype"])
    if dt is not None and got.dtype != np.dtype(dt):
        raise Violation("dtype", got=str(got.dtype), want=dt)
    e = check_matrix(got.toarray(), ctx, tol_of(got.dtype), route="build_sparse_matrix", stype=case["stype"])
    return {"nt": ctx.nt, "cls": ctx.cls + ["stype=" + case["stype"]], "err": e}


# ---------------------------------------------------------------------------
# 3. matrix-free action
# ---------------------------------------------------------------------------
def make_vec(seed, d, dt, cols=None):
    rng = np.random.default_rng(seed)
    shape = (d,) if cols is None else (d, cols)
    v = rng.normal(size=shape)
    if str(dt).startswith("complex"):
        v = v + 1j * rng.normal(size=shape)
    return v.astype(dt)


@st.composite
def s_matvec(draw, tier):
    case = draw(s_builder_case(tier))
    case["dtype"] = pick_dtype(draw, tier)
    case["act"] = draw(st.sampled_from(["matvec", "matvec_dtype", "matvec_out", "matvec_out_dirty", "linop_at",
                                        "linop_matvec", "linop_matmat", "matvec_realx", "linop_realx"]))
    if case["how"] != "ctor" and draw(st.integers(0, 3)) == 0:
        t = case["terms"][draw(st.integers(0, len(case["terms"]) - 1))]
        case["terms"].append([-t[0], -t[1], [list(o) for o in t[2]]])
    case["parallel"] = draw(st.sampled_from([False, False, 2, True]))
    case["vseed"] = draw(st.integers(0, 2 ** 31 - 1))
    return case


def run_matvec(case):
    from scipy.sparse.linalg import LinearOperator

    b, ctx = setup(case, allow_prebuild=True)
    want_dt = resolve_dtype(b, ctx, case.get("dtype"))
    dt = np.dtype(b.get_dtype(want_dt))  # vectors carry the operator's dtype (a real operator refuses complex input)
    d = 2 ** ctx.n
    act = case["act"]
    par = case.get("parallel", False)
    x = make_vec(case["vseed"], d, dt)
    info = dict(route=act, parallel=bool(par))
    if act in ("matvec_realx", "linop_realx"):
        # a real vector is a legal argument of any operator, real or complex (dtype left to quimb)
        x = make_vec(case["vseed"], d, "float64")
        info["complex_operator"] = bool(b.iscomplex)
        try:
            got = b.matvec(x, parallel=par) if act == "matvec_realx" else b.aslinearoperator(parallel=par) @ x
        except TypeError as e:
            if b.iscomplex and "complex" in str(e):
                raise Violation("crash", exc="TypeError", where="matvec", real_vector_complex_operator=True,
                                route=act) from e
            raise
        dt = np.dtype("complex128")
    elif act == "matvec":
        got = b.matvec(x, parallel=par)
    elif act == "matvec_dtype":
        got = b.matvec(x, dtype=dt, parallel=par)
    elif act in ("matvec_out", "matvec_out_dirty"):
        out = np.zeros(d, dtype=dt) if act == "matvec_out" else np.ones(d, dtype=dt)
        got = b.matvec(x, out=out, parallel=par)
        if got is not out and not np.shares_memory(got, out):
            if rel_err(np.asarray(out), np.asarray(got), floor=1.0) > 1e-12:
                raise Violation("out-not-used", **info)
    else:
        lo = b.aslinearoperator(dtype=want_dt, parallel=par)
        if not isinstance(lo, LinearOperator) or tuple(lo.shape) != (d, d):
            raise Violation("linop-shape", got=list(getattr(lo, "shape", ())), want=[d, d])
        if act == "linop_at":
            got = lo @ x
        elif act == "linop_matvec":
            got = lo.matvec(x)
        else:
            x = make_vec(case["vseed"], d, dt, cols=3)
            got = lo.matmat(x)
    xs = np.asarray(x, dtype=complex)
    ckw = dict(transform=lambda A: A @ xs, scale=float(np.linalg.norm(xs)) / 2 ** (ctx.n / 2))
    try:
        e = check_matrix(np.asarray(got), ctx, tol_of(dt) * 10, **ckw, **info)
    except Violation as v:
        if act != "matvec_out_dirty" or v.reason != "value":
            raise
        # documented: `out` is "an array to store the result in"; was the result added to its old content instead?
        try:
            check_matrix(np.asarray(got) - 1, ctx, tol_of(dt) * 10, **ckw, **info)
        except Violation as v2:
            if not v2.info.get("c19a_model"):
                raise v
        raise Violation("out-accumulated", parallel=bool(par)) from v
    return {"nt": ctx.nt, "cls": ctx.cls + ["act=" + act, "par=" + str(par), "dtype=" + str(dt)], "err": e}


# ---------------------------------------------------------------------------
# 4. matrix product operator (needs networkx)
# ---------------------------------------------------------------------------
@st.composite
def s_mpo(draw, tier):
    case = draw(s_builder_case(tier, max_terms=6))
    case["dtype"] = pick_dtype(draw, tier)
    return case


def run_mpo(case):
    import quimb.tensor as qtn

    b, ctx = setup(case)
    dt = resolve_dtype(b, ctx, case.get("dtype"))
    mpo = b.build_mpo(dtype=dt)
    if not isinstance(mpo, qtn.MatrixProductOperator) or mpo.L != ctx.n:
        raise Violation("mpo-type", got=repr(type(mpo)), L=getattr(mpo, "L", None), want=ctx.n)
    got = np.asarray(mpo.to_dense())
    e = check_matrix(got, ctx, tol_of(got.dtype), route="build_mpo")
    return {"nt": ctx.nt, "cls": ctx.cls + ["bond=%d" % (mpo.max_bond() or 1)], "err": e}


# ---------------------------------------------------------------------------
# 5. dictionary of local terms / LocalHamGen
# ---------------------------------------------------------------------------
@st.composite
def s_local(draw, tier):
    route = draw(st.sampled_from(["terms", "terms", "ham"]))
    case = draw(s_builder_case(tier, max_loc=2 if route == "ham" else 4))
    case["route"] = route
    case["dtype"] = pick_dtype(draw, tier)
    if route == "ham":
        # LocalHamGen holds pair terms only: make every site coupled by construction, keep strings 2-local
        n = case["space"]["n"]
        case["jw"] = case["jw"] and n <= 2
        case["hs"] = True
        for i in range(n - 1):
            case["terms"].append([draw(st.sampled_from(COEFFS)), 0.0, [[draw(st.sampled_from(["z", "x", "n"])), i], ["z", i + 1]]])
    return case


def run_local(case):
    b, ctx = setup(case)
    dt = resolve_dtype(b, ctx, case.get("dtype"))
    labels = ctx.labels
    n = ctx.n
    reg = {labels[si]: r for si, r in ctx.reg_of.items()}
    if case["route"] == "terms":
        try:
            Hk = b.build_local_terms(dtype=dt)
        except ValueError as e:
            if ctx.identity_term and "unpack" in str(e):
                raise Violation("crash", exc="ValueError", where="build_local_terms", identity_term=True) from e
            raise
        tot = np.zeros((2 ** n, 2 ** n), dtype=complex)
        for sites, hk in Hk.items():
            regs = [reg[s] for s in sites]
            if regs != sorted(set(regs)):
                raise Violation("local-key-not-sorted", key=repr(sites))
            if np.shape(hk) != (2 ** len(regs),) * 2:
                raise Violation("local-shape", key=repr(sites), got=list(np.shape(hk)))
            tot += embed(np.asarray(hk), [2] * n, regs)
        e = check_matrix(tot, ctx, tol_of(dt or "complex128"), route="build_local_terms")
        return {"nt": ctx.nt, "cls": ctx.cls + ["route=terms", "nkeys=%d" % len(Hk)], "err": e}
    # LocalHamGen: only 1- and 2-site terms, every 1-site term must sit on a coupled site
    final = [ops for _, ops in b.terms]
    two = [tuple(s for _, s in ops) for ops in final if len(ops) == 2]
    covered = {s for pr in two for s in pr}
    ok = bool(two) and all(len(ops) in (1, 2) for ops in final) and \
        all(ops[0][1] in covered for ops in final if len(ops) == 1)
    if not ok:
        with rejecting(ValueError, TypeError, NotImplementedError, tag="local_ham:"):
            b.build_local_ham(dtype=dt)
        raise Reject("local_ham: accepted an operator it cannot represent (not checked)")
    ham = b.build_local_ham(dtype=dt)
    tot = np.zeros((2 ** n, 2 ** n), dtype=complex)
    for (sa, sb), h in ham.terms.items():
        tot += embed(np.asarray(h), [2] * n, [reg[sa], reg[sb]])
    e = check_matrix(tot, ctx, tol_of(dt or "complex128"), route="build_local_ham")
    return {"nt": ctx.nt, "cls": ctx.cls + ["route=ham"], "err": e}


# ---------------------------------------------------------------------------
# 6. embedding via Kronecker products
# ---------------------------------------------------------------------------
@st.composite
def s_ikron(draw, tier):
    case = draw(s_builder_case(tier))
    # (sparse=True together with stype= crashes inside qu.ikron when dense operands cover every site: reported to C15)
    case["opts"] = draw(st.sampled_from([{}, {"sparse": True}]))
    return case


def run_ikron(case):
    import scipy.sparse as sp

    b, ctx = setup(case)
    if ctx.n == 1:
        case = dict(case, opts={})  # sparse ikron of a one-site system is qu.ikron's own edge case (C15), not a builder matter
    got = b.build_matrix_ikron(**case["opts"])
    if got is None:
        if np.any(ctx.H):
            raise Violation("ikron-none", c19a_model=False)
        raise Reject("operator with no terms")
    if sp.issparse(got):
        got = got.toarray()
    # (the container type with sparse=True is ikron's business - C15; only the value is checked here)
    e = check_matrix(np.asarray(got), ctx, EXACT64, route="build_matrix_ikron")
    return {"nt": ctx.nt, "cls": ctx.cls + ["sparse=%s" % bool(case["opts"].get("sparse"))], "err": e}


# ---------------------------------------------------------------------------
# 7. coupling of single configurations (VMC interface)
# ---------------------------------------------------------------------------
@st.composite
def s_coupling(draw, tier):
    case = draw(s_builder_case(tier))
    case["dtype"] = draw(st.sampled_from([None, None, "complex128"]))
    case["route"] = draw(st.sampled_from(["flat", "config"]))
    case["cseed"] = draw(st.integers(0, 2 ** 31 - 1))
    return case


def run_coupling(case):
    b, ctx = setup(case)
    n = ctx.n
    D = 2 ** n
    rng = np.random.default_rng(case["cseed"])
    cols = list(range(D)) if D <= 16 else sorted(rng.choice(D, size=16, replace=False).tolist())
    G = np.zeros((D, len(cols)), dtype=complex)
    labels_in_reg = [ctx.labels[si] for si in ctx.regs]
    kw = {} if case["dtype"] is None else {"dtype": case["dtype"]}
    for k, c in enumerate(cols):
        bits = [(c >> (n - 1 - r)) & 1 for r in range(n)]
        if case["route"] == "flat":
            cfs, coeffs = b.flatconfig_coupling(np.array(bits, dtype=np.uint8), **kw)
            rows = [[int(v) for v in fc] for fc in cfs]
        else:
            cfgs, coeffs = b.config_coupling({lab: bit for lab, bit in zip(labels_in_reg, bits)}, **kw)
            for cfg in cfgs:
                if set(cfg) != set(labels_in_reg):
                    raise Violation("config-keys", got=sorted(map(repr, cfg)))
            rows = [[int(cfg[lab]) for lab in labels_in_reg] for cfg in cfgs]
        if len(rows) != len(coeffs):
            raise Violation("coupling-lengths", got=[len(rows), len(coeffs)])
        if len({tuple(r) for r in rows}) != len(rows):
            raise Violation("coupling-not-distinct", config=bits)
        for r, h in zip(rows, coeffs):
            G[int("".join(map(str, r)), 2) if n else 0, k] += h
    e = check_matrix(G, ctx, EXACT64, transform=lambda A: A[:, cols], route=case["route"] + "config_coupling")
    return {"nt": ctx.nt, "cls": ctx.cls + ["route=" + case["route"]], "err": e}


# ---------------------------------------------------------------------------
# 8. the rewritten term list itself (simplify / Jordan-Wigner / Pauli decomposition)
# ---------------------------------------------------------------------------
def eval_terms(qterms, reg, n):
    """sum coeff * kron(textbook matrices) of an already simplified quimb term list."""
    H = np.zeros((2 ** n, 2 ** n), dtype=complex)
    for coeff, ops in qterms:
        per = {}
        for op, site in ops:
            r = reg[site]
            per[r] = per.get(r, _I) @ SQ[op]
        T = np.array([[1.0 + 0j]])
        for r in range(n):
            T = np.kron(T, per.get(r, _I))
        H += complex(coeff) * T
    return H


@st.composite
def s_terms_final(draw, tier):
    case = draw(s_builder_case(tier))
    case["jw"] = draw(st.booleans())
    case["pauli"] = draw(st.sampled_from([False, True, "zx"]))
    return case


def run_terms_final(case):
    b, ctx = setup(case)
    reg = {ctx.labels[si]: r for si, r in ctx.reg_of.items()}
    qterms = b.terms
    pd = case.get("pauli")
    allowed = set(ALL_OPS) - {"I"}
    if pd == "zx":
        allowed = {"x", "ⴵ", "z"}
    elif pd:
        allowed = {"x", "y", "z"}
    seen = set()
    for coeff, ops in qterms:
        regs = [reg[s] for _, s in ops]
        if regs != sorted(set(regs)):
            raise Violation("final-term-not-canonical", term=repr(ops), c19a_model=False)
        bad = [op for op, _ in ops if op not in allowed]
        if bad:
            raise Violation("final-term-op", ops=bad, pauli=str(pd), c19a_model=False)
        if ops in seen:
            raise Violation("final-term-duplicate", term=repr(ops), c19a_model=False)
        seen.add(ops)
    if b.nterms != len(qterms) or b.locality != max([len(o) for _, o in qterms] + [0]):
        raise Violation("nterms-locality", nterms=b.nterms, locality=b.locality)
    if b.nsites != ctx.n:
        raise Violation("nsites", got=b.nsites, want=ctx.n)
    e = check_matrix(eval_terms(qterms, reg, ctx.n), ctx, EXACT64, route="terms")
    if (not b.iscomplex) and np.abs(ctx.H.imag).max() > 1e-9 * ctx.floor:
        raise Violation("iscomplex-false-for-complex-operator")
    return {"nt": ctx.nt, "cls": ctx.cls + ["nterms=%d" % min(len(qterms), 9)], "err": e}


@st.composite
def s_rewrite_fns(draw, tier):
    n = draw(st.integers(1, 5))
    return {"n": n, "terms": draw(s_terms(n)), "fn": draw(st.sampled_from(["jw", "simplify", "pauli", "pauli_zx", "chain"])),
            "maps": draw(st.sampled_from([True, True, False])), "perm": list(draw(st.permutations(list(range(n)))))}


def run_rewrite_fns(case):
    """the module-level functions on integer sites, with and without explicit register maps."""
    from quimb.operator import builder as B

    n = case["n"]
    perm = case["perm"] if case["maps"] else list(range(n))  # site i lives on register perm[i]
    inv = {r: i for i, r in enumerate(perm)}
    kw = {"site_to_reg": perm.__getitem__} if case["maps"] else {}
    raw = {}
    for t in case["terms"]:
        key = tuple((op, si) for op, si in t[2])
        raw[key] = raw.get(key, 0.0) + term_coeff(t)
    fn = case["fn"]
    jw = fn in ("jw", "chain")
    H, Hbug, floor, nonunit, repeated = reference(case["terms"], {i: perm[i] for i in range(n)}, n, jw)
    ctx = Ctx()
    ctx.H, ctx.Hbug, ctx.floor, ctx.nonunit = H, Hbug, floor, nonunit
    try:
        if fn == "jw":
            out = B.jordan_wigner_transform(raw, **(dict(kw, reg_to_site=inv.__getitem__) if kw else {}))
        elif fn == "simplify":
            out = B.simplify(raw, **kw)
        elif fn in ("pauli", "pauli_zx"):
            out = B.pauli_decompose(B.simplify(raw, **kw), use_zx=fn == "pauli_zx", **kw)
        else:
            t1 = B.jordan_wigner_transform(raw, **(dict(kw, reg_to_site=inv.__getitem__) if kw else {}))
            out = B.simplify(B.pauli_decompose(B.simplify(t1, **kw), **kw), **kw)
    except TypeError as e:
        if "NoneType" in str(e) and not case["maps"] and fn in ("pauli", "pauli_zx", "chain"):
            raise Violation("crash", exc="TypeError", where="pauli_decompose", default_site_to_reg=True) from e
        raise
    qterms = [(c, ops) for ops, c in out.items()]
    if fn == "jw":
        # raw terms: evaluate the ordered products directly
        terms2 = [[complex(c).real, complex(c).imag, [[op, s] for op, s in ops]] for c, ops in qterms]
        got = reference(terms2, {i: perm[i] for i in range(n)}, n, False)[0]
    else:
        got = eval_terms(qterms, {i: perm[i] for i in range(n)}, n)
    e = check_matrix(got, ctx, EXACT64, route="fn:" + fn)
    return {"nt": bool(repeated or jw), "cls": ["fn=" + fn, "maps=%s" % case["maps"]] + (["repeat"] if repeated else []), "err": e}



# ---------------------------------------------------------------------------
# 9. symmetry sectors: the sector matrix is the full matrix between the sector's basis states
# ---------------------------------------------------------------------------
def charge_groups(space, symmetry, explicit_na=None):
    """canonical site indices per conserved charge (None for Z2)."""
    n = space["n"]
    if symmetry == "Z2":
        return None
    if symmetry == "U1":
        return [list(range(n))]
    spc = species_of(space)
    if spc is not None:
        labs = sorted(set(spc))
        return [[i for i in range(n) if spc[i] == lab] for lab in labs]
    regs = register_order(space)
    return [regs[:explicit_na], regs[explicit_na:]]


@st.composite
def s_sym_terms(draw, n, symmetry, groups, max_terms=4):
    terms = []
    for _ in range(draw(st.integers(1, max_terms))):
        ops = [[draw(st.sampled_from(DIAG_OPS)), draw(st.integers(0, n - 1))] for _ in range(draw(st.integers(0, 2)))]
        if symmetry == "Z2":
            k = draw(st.integers(0, 2)) * 2
            for _ in range(k):
                ops.append([draw(st.sampled_from(sorted(OFFDIAG))), draw(st.integers(0, n - 1))])
        else:
            for _ in range(draw(st.integers(0, 2))):
                g = groups[draw(st.integers(0, len(groups) - 1))]
                if not g:
                    continue
                ops.append(["+", g[draw(st.integers(0, len(g) - 1))]])
                ops.append(["-", g[draw(st.integers(0, len(g) - 1))]])
        if not ops:
            ops = [["n", draw(st.integers(0, n - 1))]]
        ops = list(draw(st.permutations(ops)))
        terms.append([draw(st.sampled_from(COEFFS)), draw(st.sampled_from([0.0, 0.0, 0.5, -1.0])), ops])
    return terms


@st.composite
def s_sector(draw, tier):
    symmetry = draw(st.sampled_from(["Z2", "U1", "U1U1", "U1U1"]))
    max_n = 5 if tier == "quick" else 7
    space = draw(s_space(min_n=2, max_n=max_n,
                         species="maybe" if symmetry != "U1U1" else draw(st.sampled_from(["two", "two", None]))))
    n = space["n"]

    def mid(m):
        # fillings biased to the middle: proper sectors of dimension > 1 by construction
        a, b = draw(st.integers(0, m)), draw(st.integers(0, m))
        return a if abs(2 * a - m) <= abs(2 * b - m) else b

    case = {"space": space, "symmetry": symmetry, "hs": True, "where": draw(st.sampled_from(["hs", "call"])),
            "sym_given": draw(st.booleans()), "jw": draw(st.booleans()), "pauli": False,
            "how": draw(st.sampled_from(["ctor", "iadd"])), "toggle": False, "prebuild": 0,
            "route": draw(st.sampled_from(["dense", "dense", "sparse", "matvec", "matvec_par", "linop", "size"])),
            "vseed": draw(st.integers(0, 2 ** 31 - 1)), "dtype": draw(st.sampled_from([None, None, "complex128"]))}
    na = None
    if symmetry == "Z2":
        case["sector"] = draw(st.sampled_from(["even", "odd", 0, 1]))
    elif symmetry == "U1":
        case["sector"] = mid(n)
    else:
        if space["species"] is None:
            na = draw(st.integers(1, n - 1))
            form = "explicit"
        else:
            form = draw(st.sampled_from(["dict", "tuple", "explicit"]))
        groups = charge_groups(space, symmetry, na)
        case["form"] = form
        case["fill"] = [mid(len(g)) for g in groups]
        case["na"] = na
    case["terms"] = draw(s_sym_terms(n, symmetry, charge_groups(space, symmetry, na)))
    return case


def sector_spec(case):
    """-> (sector argument for quimb, predicate on register-ordered bits, sort key)"""
    space, symmetry = case["space"], case["symmetry"]
    n = space["n"]
    regs = register_order(space)
    reg_of = {si: r for r, si in enumerate(regs)}
    if symmetry == "Z2":
        p = {"even": 0, "odd": 1}.get(case["sector"], case["sector"])
        return case["sector"], (lambda bits: sum(bits) % 2 == p), (lambda bits: tuple(bits))
    if symmetry == "U1":
        k = case["sector"]
        return k, (lambda bits: sum(bits) == k), (lambda bits: tuple(bits))
    groups = charge_groups(space, symmetry, case.get("na"))
    ga, gb = [sorted(reg_of[i] for i in g) for g in groups]
    ka, kb = case["fill"]
    form = case["form"]
    if form == "dict":
        labs = sorted(set(species_of(space)))
        sector = {labs[0]: ka, labs[1]: kb}
    elif form == "tuple":
        sector = (ka, kb)
    else:
        sector = ((len(ga), ka), (len(gb), kb))
    return (sector, (lambda bits: sum(bits[r] for r in ga) == ka and sum(bits[r] for r in gb) == kb),
            (lambda bits: tuple(bits[r] for r in ga) + tuple(bits[r] for r in gb)))


def sector_indices(n, pred, key):
    cfgs = [bits for bits in itertools.product((0, 1), repeat=n) if pred(bits)]
    cfgs.sort(key=key)
    return [int("".join(map(str, b)), 2) for b in cfgs], cfgs


def run_sector(case):
    symmetry = case["symmetry"]
    sector, pred, key = sector_spec(case)
    n = case["space"]["n"]
    idx, cfgs = sector_indices(n, pred, key)
    sym_arg = symmetry if (case["sym_given"] or (symmetry == "Z2" and case["sector"] in (0, 1))) else None
    if case["where"] == "hs":
        b, ctx = setup(case, hs_kw={"sector": sector, "symmetry": sym_arg})
        kw = {}
    else:
        b, ctx = setup(case)
        kw = {"sector": sector, "symmetry": sym_arg}
    d = len(idx)
    rest = [i for i in range(2 ** n) if i not in set(idx)]
    if rest and np.abs(ctx.H[np.ix_(rest, idx)]).max() > 1e-12 * ctx.floor:
        raise Reject("operator leaves the sector (generator bug)")
    hs = b.hilbert_space
    size = hs.size if case["where"] == "hs" else hs.get_size(**kw)
    if int(size) != d:
        raise Violation("sector-size", got=int(size), want=d, symmetry=symmetry)
    route = case["route"]
    dt = case["dtype"]
    tf = lambda A: A[np.ix_(idx, idx)]
    info = dict(route="sector:" + route, symmetry=symmetry, where=case["where"])
    if route == "size":
        if case["where"] == "hs":
            # the default sector's enumeration is the documented lexicographic one
            for r, bits in enumerate(cfgs):
                fc = hs.rank_to_flatconfig(r)
                if [int(v) for v in fc] != list(bits):
                    raise Violation("sector-enumeration", rank=r, got=[int(v) for v in fc], want=list(bits), symmetry=symmetry)
                if int(hs.flatconfig_to_rank(np.array(bits, dtype=np.uint8))) != r:
                    raise Violation("sector-rank", rank=r, symmetry=symmetry)
        e = 0.0
    elif route == "dense":
        e = check_matrix(b.build_dense(dtype=dt, **kw), ctx, EXACT64, transform=tf, **info)
    elif route == "sparse":
        e = check_matrix(b.build_sparse_matrix(dtype=dt, **kw).toarray(), ctx, EXACT64, transform=tf, **info)
    else:
        vdt = np.dtype(b.get_dtype(dt))
        x = make_vec(case["vseed"], d, vdt)
        if route == "linop":
            got = b.aslinearoperator(dtype=dt, **kw) @ x
        else:
            got = b.matvec(x, parallel=2 if route == "matvec_par" else False, **kw)
        xs = np.asarray(x, dtype=complex)
        e = check_matrix(np.asarray(got), ctx, EXACT64 * 10, transform=lambda A: tf(A) @ xs,
                         scale=float(np.linalg.norm(xs)) / 2 ** (n / 2), **info)
    proper = d < 2 ** n
    return {"nt": bool(proper and d >= 2), "cls": ctx.cls + ["sym=" + symmetry, "where=" + case["where"], "route=" + route,
            "dim=%d" % min(d, 40) if d < 4 else "dim>=4"] + (["form=" + case["form"]] if symmetry == "U1U1" else []) +
            (["interleaved-species"] if symmetry == "U1U1" and key(tuple(range(n))) != tuple(range(n)) else []), "err": e}



# ---------------------------------------------------------------------------
# 10. rank <-> configuration: exhaustive over all sectors up to a size bound
# ---------------------------------------------------------------------------
def enum_rank(tier):
    N = 8 if tier == "quick" else 10
    NU = 4 if tier == "quick" else 5
    for n in range(1, N + 1):
        yield {"sym": "none", "n": n}
        for p in ("even", "odd"):
            yield {"sym": "Z2", "n": n, "sector": p}
        for k in range(n + 1):
            yield {"sym": "U1", "n": n, "sector": k}
    for na in range(1, NU + 1):
        for nb in range(1, NU + 1):
            for ka in range(na + 1):
                for kb in range(nb + 1):
                    yield {"sym": "U1U1", "n": na + nb, "sector": [[na, ka], [nb, kb]]}


def rank_sector(case):
    """-> (quimb sector arg, symmetry arg, numba sector tuple, numba symmetry id, predicate, formula size)"""
    n, sym = case["n"], case["sym"]
    if sym == "none":
        return None, None, (n,), 0, (lambda b: True), 2 ** n
    if sym == "Z2":
        p = {"even": 0, "odd": 1}[case["sector"]]
        return case["sector"], "Z2", (n, p), 1, (lambda b: sum(b) % 2 == p), 2 ** (n - 1)
    if sym == "U1":
        k = case["sector"]
        return k, "U1", (n, k), 2, (lambda b: sum(b) == k), math.comb(n, k)
    (na, ka), (nb, kb) = case["sector"]
    return (((na, ka), (nb, kb)), "U1U1", (na, ka, nb, kb), 3,
            (lambda b: sum(b[:na]) == ka and sum(b[na:]) == kb), math.comb(na, ka) * math.comb(nb, kb))


def check_bijection(n, size, want_size, pred, unrank, rank, **info):
    """unrank: [0,size) -> bits, rank: bits -> int; lexicographic, in-sector, inverse, onto."""
    if int(size) != want_size:
        raise Violation("size-formula", got=int(size), want=want_size, **info)
    expected = [b for b in itertools.product((0, 1), repeat=n) if pred(b)]  # lexicographic by construction
    if len(expected) != want_size:
        raise AssertionError("oracle: formula disagrees with brute force")
    for r, want in enumerate(expected):
        fc = unrank(r)
        got = tuple(int(v) for v in fc)
        if len(got) != n or any(v not in (0, 1) for v in got) or not pred(got):
            raise Violation("unrank-outside-sector", rank=r, got=list(got), **info)
        if got != want:
            raise Violation("unrank-not-lexicographic", rank=r, got=list(got), want=list(want), **info)
        back = int(rank(np.array(want, dtype=np.uint8)))
        if back != r:
            raise Violation("rank-not-inverse", rank=r, got=back, config=list(want), **info)
    return len(expected)


def run_rank(case):
    from quimb.operator import HilbertSpace

    sector, sym, _, _, pred, want = rank_sector(case)
    n = case["n"]
    hs = HilbertSpace(n, sector=sector, symmetry=sym)
    cells = check_bijection(n, hs.size, want, pred, hs.rank_to_flatconfig, hs.flatconfig_to_rank, api="HilbertSpace", sym=case["sym"])
    # the dict spelling agrees with the flat one
    for r in sorted({0, want // 2, want - 1}):
        cfg = hs.rank_to_config(r)
        if [int(cfg[s]) for s in range(n)] != [int(v) for v in hs.rank_to_flatconfig(r)] or int(hs.config_to_rank(cfg)) != r:
            raise Violation("config-dict-roundtrip", rank=r, sym=case["sym"])
    if int(hs.get_size()) != want or (sector is not None and int(HilbertSpace(n).get_size(sector, sym)) != want):
        raise Violation("size-formula", api="get_size", sym=case["sym"])
    return {"nt": want >= 2, "n": cells, "nt_n": cells if want >= 2 else 0, "cls": ["sym=" + case["sym"], "n=%d" % n], "err": 0.0}


def run_rank_kernels(case):
    """the module-level dispatchers of quimb.operator.configcore ('public api' section)."""
    from quimb.operator import configcore as cc

    _, _, sec, symid, pred, want = rank_sector(case)
    n = case["n"]
    sec = np.array(sec, dtype=np.int64)
    try:
        cc.flatconfig_to_rank(np.zeros(n, dtype=np.uint8) if symid != 2 else np.array([1] * sec[1] + [0] * (n - sec[1]), dtype=np.uint8), sec, symid)
    except Exception as e:
        if type(e).__name__ == "TypingError":
            raise Violation("crash", exc="TypingError", where="configcore.flatconfig_to_rank", api="configcore") from e
        raise
    cells = check_bijection(n, want, want, pred, lambda r: cc.rank_to_flatconfig(r, sec, symid),
                            lambda fc: cc.flatconfig_to_rank(fc, sec, symid), api="configcore", sym=case["sym"])
    return {"nt": want >= 2, "n": cells, "nt_n": cells if want >= 2 else 0, "cls": ["sym=" + case["sym"]], "err": 0.0}


def run_unrank_kernels(case):
    """configcore.rank_to_flatconfig alone (kept apart so that the broken inverse does not hide it)."""
    from quimb.operator import configcore as cc

    _, _, sec, symid, pred, want = rank_sector(case)
    n = case["n"]
    sec = np.array(sec, dtype=np.int64)
    cells = check_bijection(n, want, want, pred, lambda r: cc.rank_to_flatconfig(r, sec, symid),
                            lambda fc: {tuple(b): i for i, b in enumerate(
                                [b for b in itertools.product((0, 1), repeat=n) if pred(b)])}[tuple(int(v) for v in fc)],
                            api="configcore.rank_to_flatconfig", sym=case["sym"])
    return {"nt": want >= 2, "n": cells, "nt_n": cells if want >= 2 else 0, "cls": ["sym=" + case["sym"]], "err": 0.0}


# ---------------------------------------------------------------------------
# 11. rank <-> configuration for any site labelling / ordering / species / local dimensions
# ---------------------------------------------------------------------------
@st.composite
def s_rank_labelled(draw, tier):
    sym = draw(st.sampled_from(["none", "mixed", "Z2", "U1", "U1U1", "U1U1"]))
    space = draw(s_space(min_n=2 if sym == "U1U1" else 1, max_n=6 if tier == "quick" else 8,
                         species="two" if sym == "U1U1" else "maybe"))
    n = space["n"]
    case = {"space": space, "sym": sym}
    if sym == "mixed":
        case["dims"] = draw(st.lists(st.sampled_from([1, 2, 2, 3, 4]), min_size=n, max_size=n))
    elif sym == "Z2":
        case["sector"] = draw(st.sampled_from(["even", "odd", 0, 1]))
    elif sym == "U1":
        case["sector"] = draw(st.integers(0, n))
    elif sym == "U1U1":
        groups = charge_groups(space, "U1U1")
        case["form"] = draw(st.sampled_from(["dict", "tuple", "explicit"]))
        case["fill"] = [draw(st.integers(0, len(g))) for g in groups]
    return case


def run_rank_labelled(case):
    space, sym = case["space"], case["sym"]
    n = space["n"]
    labels = space_labels(space)
    regs = register_order(space)
    lab_reg = [labels[i] for i in regs]
    if sym == "mixed":
        dims = case["dims"]
        hs = build_hs(space, dims=dims)
        dreg = [dims[i] for i in regs]
        expected = list(itertools.product(*[range(d) for d in dreg]))
        want = int(np.prod(dreg))
        pred = None
    else:
        if sym == "none":
            sector, pred, key, sarg = None, (lambda b: True), (lambda b: tuple(b)), None
        else:
            c2 = dict(case, symmetry=sym)
            sector, pred, key = sector_spec(c2)
            sarg = sym
        hs = build_hs(space, sector=sector, symmetry=sarg if sym != "none" else None)
        expected = sorted([b for b in itertools.product((0, 1), repeat=n) if pred(b)], key=key)
        want = len(expected)
    if list(hs.sites) != lab_reg:
        raise Violation("ordering", got=[repr(s) for s in hs.sites], want=[repr(s) for s in lab_reg], order=space["order"])
    for i, lab in enumerate(lab_reg):
        if hs.site_to_reg(lab) != i or hs.reg_to_site(i) != lab or not hs.has_site(lab):
            raise Violation("site-reg-maps", site=repr(lab))
    if int(hs.size) != want:
        raise Violation("size-formula", got=int(hs.size), want=want, sym=sym)
    seen = set()
    for r, bits in enumerate(expected):
        fc = tuple(int(v) for v in hs.rank_to_flatconfig(r))
        if fc != tuple(bits):
            raise Violation("unrank-order", rank=r, got=list(fc), want=list(bits), sym=sym,
                            in_sector=bool(pred(fc)) if pred else None)
        seen.add(fc)
        if int(hs.flatconfig_to_rank(np.array(bits, dtype=np.uint8))) != r:
            raise Violation("rank-not-inverse", rank=r, sym=sym)
        cfg = hs.rank_to_config(r)
        if [int(cfg[lab]) for lab in lab_reg] != list(bits) or set(cfg) != set(lab_reg):
            raise Violation("rank_to_config", rank=r, sym=sym)
        # the dict spelling does not depend on the order of its keys
        if int(hs.config_to_rank({lab: b for lab, b in reversed(list(zip(lab_reg, bits)))})) != r:
            raise Violation("config_to_rank", rank=r, sym=sym)
    if len(seen) != want:
        raise Violation("unrank-not-injective", sym=sym)
    nt = want >= 2 and (regs != sorted(regs) or sym not in ("none",))
    inter = sym == "U1U1" and key(tuple(range(n))) != tuple(range(n))
    return {"nt": bool(nt), "n": want, "nt_n": want if nt else 0,
            "cls": ["sym=" + sym, "order=" + space["order"], "labels=" + space["kind"]] + (["interleaved-species"] if inter else []) +
            (["form=" + case["form"]] if sym == "U1U1" else []), "err": 0.0}



# ---------------------------------------------------------------------------
# 12. graph models of quimb.operator.models against their documented formulas
# ---------------------------------------------------------------------------
@st.composite
def s_graph(draw, max_nodes):
    nn = draw(st.integers(2, max_nodes))
    kind = draw(st.sampled_from(["int", "coord", "str"]))
    edges = [[i, draw(st.integers(0, i - 1))] for i in range(1, nn)]  # a spanning tree: every node is used
    for _ in range(draw(st.integers(0, 3))):
        a, b = draw(st.integers(0, nn - 1)), draw(st.integers(0, nn - 1))
        if a != b:
            edges.append([a, b])  # may repeat / reverse an edge (documented: treated as one edge)
    return {"nn": nn, "kind": kind, "edges": edges}


def graph_nodes(g):
    if g["kind"] == "int":
        return [3 * i + 1 for i in range(g["nn"])]
    if g["kind"] == "coord":
        return [(i // 2, i % 2) for i in range(g["nn"])]
    return _STRS[:g["nn"]]


PVALS = [1.0, -1.0, 0.5, 2.0, 0.0, 0.3, -0.7, 1.5]


@st.composite
def s_param(draw, nparts, keys, allow_parts=True):
    """scalar | tuple of parts | per-key dict (JSON: {'form':..., 'v':...})"""
    form = draw(st.sampled_from(["scalar", "scalar", "dict"] + (["parts"] if allow_parts and nparts > 1 else [])))
    if form == "scalar":
        return {"form": form, "v": draw(st.sampled_from(PVALS))}
    if form == "parts":
        return {"form": form, "v": [draw(st.sampled_from(PVALS)) for _ in range(nparts)]}
    return {"form": form, "v": [draw(st.sampled_from(PVALS)) for _ in keys]}


def param_arg(p, keys, flip=False):
    if p["form"] == "scalar":
        return p["v"]
    if p["form"] == "parts":
        return tuple(p["v"])
    d = {}
    for k, v in zip(keys, p["v"]):
        d[(k[1], k[0]) if (flip and isinstance(k, tuple) and len(k) == 2 and False) else k] = v
    return d


def param_val(p, idx, nparts):
    """value(s) for key number idx as a tuple of nparts numbers."""
    if p["form"] == "scalar":
        return (p["v"],) * nparts
    if p["form"] == "parts":
        return tuple(p["v"])
    return (p["v"][idx],) * nparts


@st.composite
def s_models(draw, tier):
    model = draw(st.sampled_from(["heis", "hubbard", "spinless"]))
    g = draw(s_graph(3 if model == "hubbard" else 5))
    nodes = list(range(g["nn"]))
    uedges = sorted({tuple(sorted(e)) for e in g["edges"]})
    case = {"model": model, "graph": g, "route": draw(st.sampled_from(["dense", "dense", "sparse", "mpo_terms", "sector"])),
            "pauli": draw(st.sampled_from([False, False, True])) if model != "heis" else False,
            "hs_given": draw(st.booleans()), "operm": list(draw(st.permutations(list(range(g["nn"] * (2 if model == "hubbard" else 1))))))}
    if model == "heis":
        case["order"] = draw(st.sampled_from(["none", "seq", "key"]))
        case["j"] = draw(s_param(3, uedges))
        case["b"] = draw(s_param(3, nodes))
        if draw(st.booleans()) and case["j"]["form"] == "parts":
            case["j"]["v"][1] = case["j"]["v"][0]  # the jx == jy branch (built from + and -)
    elif model == "hubbard":
        case["order"] = draw(st.sampled_from(["interleaved", "interleaved", "blocked", "none", "seq", "key"]))
        case["t"] = draw(s_param(2, uedges))
        case["U"] = draw(s_param(1, nodes, allow_parts=False))
        case["mu"] = draw(s_param(2, nodes))
        case["fill"] = [draw(st.integers(0, g["nn"])), draw(st.integers(0, g["nn"]))]
        case["form"] = draw(st.sampled_from(["dict", "tuple", "explicit", "U1", "Z2"]))
    else:
        case["order"] = draw(st.sampled_from(["none", "seq", "key"]))
        case["t"] = draw(s_param(1, uedges, allow_parts=False))
        case["V"] = draw(s_param(1, uedges, allow_parts=False))
        case["mu"] = draw(s_param(1, nodes, allow_parts=False))
        case["delta"] = draw(st.sampled_from([{"form": "scalar", "v": 0.0}, draw(s_param(1, uedges, allow_parts=False))]))
        case["fill"] = [draw(st.integers(0, g["nn"]))]
    return case


def run_models(case):
    import quimb.operator as qop

    g = case["graph"]
    model = case["model"]
    nodes = graph_nodes(g)
    srt = sorted(range(g["nn"]), key=lambda i: nodes[i])  # documented: sites are the sorted unique nodes
    uedges = sorted({tuple(sorted(e, key=lambda i: nodes[i])) for e in g["edges"]}, key=lambda e: (nodes[e[0]], nodes[e[1]]))
    jedges = sorted({tuple(sorted(e)) for e in g["edges"]})  # key order used when the case was drawn
    eidx = {e: k for k, e in enumerate(jedges)}
    edges_arg = [(nodes[a], nodes[b]) for a, b in g["edges"]]
    ekeys = [(nodes[a], nodes[b]) for a, b in jedges]
    nkeys = [nodes[i] for i in range(g["nn"])]
    if model == "hubbard":
        sites = [("↑", nodes[i]) for i in srt] + [("↓", nodes[i]) for i in srt]
    else:
        sites = [nodes[i] for i in srt]
    n = len(sites)
    order = case["order"]
    perm = case["operm"]
    if order == "none":
        oarg, regsites = None, list(sites)
    elif order in ("seq", "key"):
        seq = [sites[k] for k in perm]
        oarg = seq if order == "seq" else {s: k for k, s in enumerate(seq)}.__getitem__
        regsites = seq
    elif order == "blocked":
        oarg, regsites = order, sorted(sites, key=lambda s: (s[0], s[1:]))
    else:
        oarg, regsites = order, sorted(sites, key=lambda s: (s[1:], s[0]))
    reg = {s: r for r, s in enumerate(regsites)}
    # reference term list in this module's format (canonical index == register)
    T = []

    def add(c, *ops):
        T.append([float(c), 0.0, [[op, reg[s]] for op, s in ops]])

    if model == "heis":
        for e in uedges:
            a, b = nodes[e[0]], nodes[e[1]]
            jx, jy, jz = param_val(case["j"], eidx[tuple(sorted(e))], 3)
            for jj, sop in zip((jx, jy, jz), ("sx", "sy", "sz")):
                add(jj, (sop, a), (sop, b))
        for i in range(g["nn"]):
            bv = param_val(case["b"], i, 3)
            bx, by, bz = bv if case["b"]["form"] == "parts" else (0.0, 0.0, bv[0])
            for bb, sop in zip((bx, by, bz), ("sx", "sy", "sz")):
                add(-bb, (sop, nodes[i]))
        kw = dict(j=param_arg(case["j"], ekeys), b=param_arg(case["b"], nkeys))
        fn = qop.heisenberg_from_edges
        jw = False
        u1_ok = all(param_val(case["j"], k, 3)[0] == param_val(case["j"], k, 3)[1] for k in range(len(jedges))) and             (case["b"]["form"] != "parts" or (case["b"]["v"][0] == 0 and case["b"]["v"][1] == 0))
        sectors = [("U1", case.get("fill", [n // 2])[0] if False else n // 2)] if u1_ok else []
        if not u1_ok and case["b"]["form"] != "parts":
            sectors = [("Z2", "even")]
    elif model == "hubbard":
        for e in uedges:
            a, b = nodes[e[0]], nodes[e[1]]
            tu, td = param_val(case["t"], eidx[tuple(sorted(e))], 2)
            for tt, sp_ in ((tu, "↑"), (td, "↓")):
                add(-tt, ("+", (sp_, a)), ("-", (sp_, b)))
                add(-tt, ("+", (sp_, b)), ("-", (sp_, a)))
        for i in range(g["nn"]):
            c = nodes[i]
            add(param_val(case["U"], i, 1)[0], ("n", ("↑", c)), ("n", ("↓", c)))
            mu_u, mu_d = param_val(case["mu"], i, 2)
            add(-mu_u, ("n", ("↑", c)))
            add(-mu_d, ("n", ("↓", c)))
        kw = dict(t=param_arg(case["t"], ekeys), U=param_arg(case["U"], nkeys), mu=param_arg(case["mu"], nkeys),
                  pauli_decompose=bool(case["pauli"]))
        fn = qop.fermi_hubbard_from_edges
        jw = True
        ka, kb = case["fill"]
        form = case["form"]
        sectors = [{"dict": ("U1U1", {"↑": ka, "↓": kb}), "tuple": ("U1U1", (ka, kb)),
                    "explicit": ("U1U1", ((g["nn"], ka), (g["nn"], kb))), "U1": ("U1", min(ka + kb, n)),
                    "Z2": ("Z2", "odd" if (ka + kb) % 2 else "even")}[form]]
    else:
        dl_zero = True
        for e in uedges:
            a, b = nodes[e[0]], nodes[e[1]]
            k = eidx[tuple(sorted(e))]
            tt = param_val(case["t"], k, 1)[0]
            add(-tt, ("+", a), ("-", b))
            add(-tt, ("+", b), ("-", a))
            add(param_val(case["V"], k, 1)[0], ("n", a), ("n", b))
            dl = param_val(case["delta"], k, 1)[0]
            dl_zero = dl_zero and dl == 0
            add(dl, ("+", a), ("+", b))
            add(dl, ("-", b), ("-", a))
        for i in range(g["nn"]):
            add(-param_val(case["mu"], i, 1)[0], ("n", nodes[i]))
        kw = dict(t=param_arg(case["t"], ekeys), V=param_arg(case["V"], ekeys), mu=param_arg(case["mu"], nkeys),
                  delta=param_arg(case["delta"], ekeys), pauli_decompose=bool(case["pauli"]))
        fn = qop.fermi_hubbard_spinless_from_edges
        jw = True
        sectors = [("U1", case["fill"][0])] if dl_zero else [("Z2", "even" if case["fill"][0] % 2 == 0 else "odd")]
    ctx = Ctx()
    ctx.stale = None
    ctx.H, ctx.Hbug, ctx.floor, ctx.nonunit, _ = reference(T, {r: r for r in range(n)}, n, jw)
    route = case["route"]
    sec_kw = {}
    tf = None
    d = 2 ** n
    if route == "sector":
        if not sectors:
            raise Reject("model instance has no term-wise symmetry")
        sym, sector = sectors[0]
        sec_kw = {"sector": sector, "symmetry": sym}
        if sym != "Z2" and kw.get("pauli_decompose"):
            # single Pauli strings do not conserve particle number (only their sums do): outside the term-wise domain
            kw["pauli_decompose"] = False
        if sym == "U1U1":
            if order == "none":
                ga = [reg[s] for s in sites[: g["nn"]]]
                gb = [reg[s] for s in sites[g["nn"]:]]
            ga = sorted(reg[s] for s in sites if s[0] == "↑")
            gb = sorted(reg[s] for s in sites if s[0] == "↓")
            ka, kb = case["fill"]
            pred = lambda b: sum(b[r] for r in ga) == ka and sum(b[r] for r in gb) == kb
            key = lambda b: tuple(b[r] for r in ga) + tuple(b[r] for r in gb)
        elif sym == "U1":
            pred, key = (lambda b, k=sector: sum(b) == k), tuple
        else:
            pp = 0 if sector == "even" else 1
            pred, key = (lambda b: sum(b) % 2 == pp), tuple
        idx, _ = sector_indices(n, pred, key)
        d = len(idx)
        tf = lambda A: A[np.ix_(idx, idx)]
        rest = sorted(set(range(2 ** n)) - set(idx))
        if rest and np.abs(ctx.H[np.ix_(rest, idx)]).max() > 1e-12 * ctx.floor:
            raise Reject("operator leaves the sector")
    if case["hs_given"]:
        hkw = {"species": (lambda s: s[0])} if model == "hubbard" else {}
        hs = qop.HilbertSpace(sites, order=oarg, **hkw, **sec_kw)
        H = fn(edges_arg, hilbert_space=hs, **kw)
    else:
        H = fn(edges_arg, order=oarg, **kw, **sec_kw)
    if list(H.hilbert_space.sites) != regsites:
        raise Violation("ordering", got=[repr(x) for x in H.hilbert_space.sites], want=[repr(x) for x in regsites], model=model)
    info = dict(route="model:" + route, model=model)
    if route in ("dense", "sector"):
        e = check_matrix(H.build_dense(), ctx, EXACT64, transform=tf, **info)
    elif route == "sparse":
        e = check_matrix(H.build_sparse_matrix().toarray(), ctx, EXACT64, **info)
    else:
        e = check_matrix(eval_terms(H.terms, reg, n), ctx, EXACT64, **info)
    return {"nt": True, "cls": ["model=" + model, "order=" + order, "route=" + route, "nodes=" + g["kind"]] +
            (["sym=" + sectors[0][0], "form=" + case.get("form", "-")] if route == "sector" else []) +
            (["pauli"] if case["pauli"] else []) + (["proper-sector"] if d < 2 ** n else []), "err": e}



# ---------------------------------------------------------------------------
# 13. spin-chain builders: MPO_ham_* / ham_1d_* / ham_* / SpinHam1D against the documented formulas
# ---------------------------------------------------------------------------
def spin_ops(S2):
    """textbook spin-S matrices (S2 = 2S), basis m = S, S-1, ..., -S."""
    S = S2 / 2.0
    ms = [S - k for k in range(S2 + 1)]
    D = S2 + 1
    Sz = np.diag(ms).astype(complex)
    Sp = np.zeros((D, D), dtype=complex)
    for k in range(1, D):
        m = ms[k]
        Sp[k - 1, k] = math.sqrt(S * (S + 1) - m * (m + 1))
    Sm = Sp.conj().T
    return {"x": (Sp + Sm) / 2, "y": (Sp - Sm) / 2j, "z": Sz, "+": Sp, "-": Sm, "i": np.eye(D, dtype=complex)}


def chain_sum(L, D, one, two, cyclic):
    """sum_i one(i) on site i + sum_bonds two(i) on (i, i+1 mod L); one/two return matrices or None."""
    H = np.zeros((D ** L, D ** L), dtype=complex)
    mag = 0.0
    for i in range(L):
        h = one(i)
        if h is not None:
            H += embed(h, [D] * L, [i])
            mag += float(np.linalg.norm(h, 2))
    for i in range(L if cyclic else L - 1):
        h = two(i)
        if h is not None:
            H += embed(h, [D] * L, [i, (i + 1) % L])
            mag += float(np.linalg.norm(h, 2))
    return H, max(mag, 1e-300) * D ** (L / 2)


JV = [1.0, -1.0, 0.5, 2.0, 0.3, -0.7, 0.0]


@st.composite
def s_spin_models(draw, tier):
    model = draw(st.sampled_from(["heis", "heis", "ising", "XY", "XXZ", "mbl", "j1j2"]))
    maxL = 5 if tier == "quick" else 6
    cyc = draw(st.booleans())
    L = draw(st.integers(5 if (model == "j1j2" and cyc) else (3 if cyc else 2), max(maxL, 5)))
    case = {"model": model, "L": L, "cyclic": cyc, "S2": 1, "route": draw(st.sampled_from(["mpo", "local1d", "matrix", "matrix_sparse"]))}
    if model == "j1j2":
        case["route"] = draw(st.sampled_from(["matrix", "matrix_sparse"]))
    if case["route"] in ("mpo", "local1d") and L <= 4 and draw(st.integers(0, 2)) == 0:
        case["S2"] = 2
    v = lambda: draw(st.sampled_from(JV))
    if model == "heis":
        case["j"] = draw(st.sampled_from(["scalar", "vec", "vec_xy_equal"]))
        case["jv"] = [v(), v(), v()]
        case["b"] = [v(), v(), v()]
        case["bvec"] = draw(st.booleans())  # only the matrix-side generator takes a field vector
    elif model == "ising":
        case["jv"], case["b"] = [v()], [v()]
    elif model == "XY":
        case["j"] = draw(st.sampled_from(["scalar", "vec"]))
        case["jv"], case["b"] = [v(), v()], [v()]
    elif model == "XXZ":
        case["jv"] = [v(), v()]  # delta, jxy
    elif model == "mbl":
        case["j"] = draw(st.sampled_from(["scalar", "vec"]))
        case["jv"] = [v(), v(), v()]
        case["dh"] = draw(st.sampled_from([0.5, 1.0, 2.5]))
        case["dh_dim"] = draw(st.sampled_from([1, 2, 3, "y", "xz"]))
        case["dh_dist"] = draw(st.sampled_from(["s", "g", "qp"]))
        case["seed"] = draw(st.integers(0, 10 ** 6))
    else:
        case["jv"], case["b"] = [v(), v()], [v()]
    case["stype"] = draw(st.sampled_from(["csr", "csc", "coo"]))
    if case["route"] == "local1d":
        # a LocalHam1D is made of pair terms: a chain with no coupling at all is outside its domain
        case["jv"] = [x if x != 0 else 1.0 for x in case["jv"]]
    return case


def local1d_dense(ham, L, D):
    tot = np.zeros((D ** L, D ** L), dtype=complex)
    for (a, b), h in ham.terms.items():
        tot += embed(np.asarray(h), [D] * L, [a, b])
    return tot


def run_spin_models(case):
    import quimb as qu
    from quimb.tensor import tensor_builder as qtn  # (MPO_ham_XXZ is not re-exported by quimb.tensor)

    model, L, cyc, S2, route = case["model"], case["L"], case["cyclic"], case["S2"], case["route"]
    if route.startswith("matrix"):
        S2 = 1
    D = S2 + 1
    sp_ = spin_ops(S2)
    SS = lambda a, b: np.kron(sp_[a], sp_[b])
    mkw = dict(S=S2 / 2, cyclic=cyc)
    skw = dict(cyclic=cyc, sparse=True, stype=case["stype"]) if route == "matrix_sparse" else dict(cyclic=cyc)
    ref = None
    if model == "heis":
        jx, jy, jz = case["jv"]
        if case["j"] == "scalar":
            jy = jz = jx
            jarg = jx
        else:
            if case["j"] == "vec_xy_equal":
                jy = jx
            jarg = (jx, jy, jz)
        bx, by, bz = case["b"] if (case["bvec"] and route.startswith("matrix")) else (0.0, 0.0, case["b"][2])
        ref = chain_sum(L, D, lambda i: -(bx * sp_["x"] + by * sp_["y"] + bz * sp_["z"]),
                        lambda i: jx * SS("x", "x") + jy * SS("y", "y") + jz * SS("z", "z"), cyc)
        build = {"mpo": lambda: qtn.MPO_ham_heis(L, j=jarg, bz=bz, **mkw), "local1d": lambda: qtn.ham_1d_heis(L, j=jarg, bz=bz, **mkw),
                 "matrix": lambda: qu.ham_heis(L, j=jarg, b=(bx, by, bz) if case["bvec"] else bz, **skw)}
    elif model == "ising":
        (j,), (bx,) = case["jv"], case["b"]
        ref = chain_sum(L, D, lambda i: -bx * sp_["x"], lambda i: j * SS("z", "z"), cyc)
        build = {"mpo": lambda: qtn.MPO_ham_ising(L, j=j, bx=bx, **mkw), "local1d": lambda: qtn.ham_1d_ising(L, j=j, bx=bx, **mkw),
                 "matrix": lambda: qu.ham_ising(L, jz=j, bx=bx, **skw)}
    elif model == "XY":
        jx, jy = case["jv"]
        (bz,) = case["b"]
        if case["j"] == "scalar" or route.startswith("matrix"):
            jy = jx
            jarg = jx
        else:
            jarg = (jx, jy)
        ref = chain_sum(L, D, lambda i: -bz * sp_["z"], lambda i: jx * SS("x", "x") + jy * SS("y", "y"), cyc)
        build = {"mpo": lambda: qtn.MPO_ham_XY(L, j=jarg, bz=bz, **mkw), "local1d": lambda: qtn.ham_1d_XY(L, j=jarg, bz=bz, **mkw),
                 "matrix": lambda: qu.ham_XY(L, jx, bz, **skw)}
    elif model == "XXZ":
        delta, jxy = case["jv"]
        ref = chain_sum(L, D, lambda i: None, lambda i: jxy * (SS("x", "x") + SS("y", "y")) + delta * SS("z", "z"), cyc)
        build = {"mpo": lambda: qtn.MPO_ham_XXZ(L, delta, jxy=jxy, **mkw), "local1d": lambda: qtn.ham_1d_XXZ(L, delta, jxy=jxy, **mkw),
                 "matrix": lambda: qu.ham_XXZ(L, delta, jxy=jxy, **skw)}
    elif model == "j1j2":
        j1, j2 = case["jv"]
        (bz,) = case["b"]
        dot = lambda: SS("x", "x") + SS("y", "y") + SS("z", "z")
        H, mag = chain_sum(L, D, lambda i: bz * sp_["z"], lambda i: j1 * dot(), cyc)
        for i in range(L if cyc else L - 2):
            H += embed(j2 * dot(), [D] * L, [i, (i + 2) % L])
            mag += abs(j2) * D ** (L / 2)
        ref = (H, mag)
        build = {"matrix": lambda: qu.ham_j1j2(L, j1=j1, j2=j2, bz=bz, **skw)}
    else:  # mbl: no closed formula for the noise -> the three builders must agree, and the noise must be on-site, bounded fields
        jx, jy, jz = case["jv"]
        jarg = jx if case["j"] == "scalar" else (jx, jy, jz)
        if case["j"] == "scalar":
            jy = jz = jx
        okw = dict(seed=case["seed"], dh_dist=case["dh_dist"], dh_dim=case["dh_dim"])
        if case["dh_dist"] == "qp" and case["dh_dim"] != 1:
            okw["dh_dim"] = 1  # documented restriction of the quasi-periodic noise
        build = {"mpo": lambda: qtn.MPO_ham_mbl(L, case["dh"], j=jarg, S=S2 / 2, cyclic=cyc, **okw),
                 "local1d": lambda: qtn.ham_1d_mbl(L, case["dh"], j=jarg, S=S2 / 2, cyclic=cyc, **okw),
                 "matrix": lambda: qu.ham_mbl(L, case["dh"], j=jarg, **skw, **okw)}
        clean = chain_sum(L, D, lambda i: None, lambda i: jx * SS("x", "x") + jy * SS("y", "y") + jz * SS("z", "z"), cyc)
    key = "matrix" if route.startswith("matrix") else route
    obj = build[key]()
    if route == "mpo":
        got = np.asarray(obj.to_dense())
    elif route == "local1d":
        got = local1d_dense(obj, L, D)
    elif route == "matrix_sparse":
        import scipy.sparse as sp

        if not sp.issparse(obj) or obj.format != case["stype"]:
            raise Violation("sparse-format", got=getattr(obj, "format", repr(type(obj))), want=case["stype"], model=model)
        got = obj.toarray()
    else:
        got = np.asarray(obj)
    info = dict(route="spin:" + route, model=model, cyclic=cyc)
    if model == "mbl":
        # (a) noise = got - clean chain must be a sum of on-site fields h_i . S_i with |h| bounded as documented
        noise = got - clean[0]
        rec = np.zeros_like(noise)
        hmax = 0.0
        for i in range(L):
            for a in "xyz":
                Sa = embed(sp_[a], [D] * L, [i])
                h = np.trace(Sa.conj().T @ noise) / np.trace(Sa.conj().T @ Sa)
                rec += h * Sa
                hmax = max(hmax, abs(h))
                dims_on = {1: "z", 2: "xy", 3: "xyz"}.get(okw["dh_dim"], okw["dh_dim"])
                if a not in dims_on and abs(h) > 1e-9:
                    raise Violation("mbl-noise-direction", direction=a, **info)
        e = rel_err(rec, noise, floor=clean[1] + case["dh"] * L * D ** (L / 2))
        if not e <= EXACT64:
            raise Violation("value", err=e, clause="noise-not-onsite", **info)
        if case["dh_dist"] in ("s", "qp") and hmax > case["dh"] * (1 + 1e-9):
            raise Violation("mbl-noise-bound", got=float(hmax), want=case["dh"], **info)
        # (b) same seed -> the other builders give the same operator
        other = "matrix" if key != "matrix" else "mpo"
        o2 = build[other]()
        got2 = np.asarray(o2.to_dense()) if other == "mpo" else np.asarray(o2.toarray() if hasattr(o2, "toarray") else o2)
        if S2 == 1:
            e2 = rel_err(got, got2, floor=clean[1] + case["dh"] * L * D ** (L / 2))
            if not e2 <= EXACT64:
                raise Violation("value", err=e2, clause="builders-disagree", other=other, **info)
            e = max(e, e2)
    else:
        if got.shape != ref[0].shape:
            raise Violation("shape", got=list(got.shape), want=list(ref[0].shape), **info)
        e = rel_err(got, ref[0], floor=ref[1])
        if not e <= EXACT64:
            raise Violation("value", err=e, **info)
    return {"nt": L >= 3, "cls": ["model=" + model, "route=" + route, "S2=%d" % S2] + (["cyclic"] if cyc else []), "err": e}


# ---------------------------------------------------------------------------
# 14. SpinHam1D with custom (default + site specific) terms
# ---------------------------------------------------------------------------
SOPS = ["x", "y", "z", "+", "-", "i", "X", "Z"]


@st.composite
def s_spinham(draw, tier):
    cyc = draw(st.sampled_from([False, False, True]))
    L = draw(st.integers(3 if cyc else 2, 5))
    S2 = draw(st.sampled_from([1, 1, 2])) if L <= 4 else 1
    pool = SOPS + (["arr", "arr", "arr"] if draw(st.sampled_from([False, False, True])) else [])
    t1 = lambda: [draw(st.sampled_from(JV[:-1])), draw(st.sampled_from([0.0, 0.0, 0.5])), draw(st.sampled_from(pool)),
                  draw(st.integers(0, 10 ** 6))]
    t2 = lambda: t1() + [draw(st.sampled_from(pool)), draw(st.integers(0, 10 ** 6))]
    case = {"L": L, "cyclic": cyc, "S2": S2, "one": [t1() for _ in range(draw(st.integers(0, 2)))],
            "two": [t2() for _ in range(draw(st.integers(1, 3)))], "var_one": [], "var_two": [],
            "route": draw(st.sampled_from(["mpo", "sparse", "sparse_dense", "local1d"])),
            "how": draw(st.sampled_from(["iadd", "add_term", "setitem"]))}
    for i in sorted(set(draw(st.lists(st.integers(0, L - 1), max_size=2)))):
        case["var_one"].append([i, [t1() for _ in range(draw(st.integers(1, 2)))]])
    for i in sorted(set(draw(st.lists(st.integers(0, L - 2), max_size=2)))):
        case["var_two"].append([i, [t2() for _ in range(draw(st.integers(1, 3)))]])
    # bond keys written as (i+1, i): the first operator then sits on site i+1 (as LocalHam1D reads such a key)
    case["rev"] = [draw(st.sampled_from([False, False, True])) for _ in case["var_two"]]
    # history: build a representation after the first `pre_at` edits, then go on editing (stale instance caches)
    nedit = len(case["one"]) + len(case["two"]) + sum(len(ts) if case["how"] != "setitem" else 1 for _, ts in case["var_one"] + case["var_two"])
    case["pre"] = draw(st.sampled_from([None, "mpo", "mpo", "sparse", "local1d", "all"]))
    case["pre_at"] = draw(st.integers(1, max(1, nedit)))
    return case


def run_spinham(case):
    import quimb.tensor as qtn

    L, cyc, S2 = case["L"], case["cyclic"], case["S2"]
    D = S2 + 1
    sp_ = spin_ops(S2)

    def opmat(name, seed):
        if name == "arr":
            rng = np.random.default_rng(seed)
            return rng.normal(size=(D, D)) + 1j * rng.normal(size=(D, D))
        return sp_[name.lower()]

    def oparg(name, seed):
        return opmat(name, seed) if name == "arr" else name

    def coeff(t):
        return complex(t[0], t[1]) if t[1] else t[0]

    one_m = lambda ts: sum(coeff(t) * opmat(t[2], t[3]) for t in ts) if ts else None
    two_m = lambda ts: sum(coeff(t) * np.kron(opmat(t[2], t[3]), opmat(t[4], t[5])) for t in ts) if ts else None
    v1 = {i: ts for i, ts in case["var_one"]}
    v2 = {i: ts for i, ts in case["var_two"]}
    # documented: site specific terms override the default ones on that site / bond
    H, mag = chain_sum(L, D, lambda i: one_m(v1.get(i, case["one"])), lambda i: two_m(v2.get(i, case["two"])), cyc)
    b = qtn.SpinHam1D(S=S2 / 2, cyclic=cyc)
    rev = dict(zip([i for i, _ in case["var_two"]], case.get("rev") or [False] * len(case["var_two"])))
    edits = []
    for t in case["one"]:
        if case["how"] == "add_term":
            edits.append(lambda t=t: b.add_term(coeff(t), oparg(t[2], t[3])))
        else:
            edits.append(lambda t=t: b.__iadd__((coeff(t), oparg(t[2], t[3]))))
    for t in case["two"]:
        if case["how"] == "add_term":
            edits.append(lambda t=t: b.add_term(coeff(t), oparg(t[2], t[3]), oparg(t[4], t[5])))
        else:
            edits.append(lambda t=t: b.__iadd__((coeff(t), oparg(t[2], t[3]), oparg(t[4], t[5]))))

    def set1(i, ts):
        b[i] = [(coeff(t), oparg(t[2], t[3])) for t in ts]

    def add1(i, t):
        b[i] += coeff(t), oparg(t[2], t[3])

    def set2(i, ts):
        if rev.get(i):
            b[i + 1, i] = [(coeff(t), oparg(t[4], t[5]), oparg(t[2], t[3])) for t in ts]
        else:
            b[i, i + 1] = [(coeff(t), oparg(t[2], t[3]), oparg(t[4], t[5])) for t in ts]

    def add2(i, t):
        if rev.get(i):
            b[i + 1, i] += coeff(t), oparg(t[4], t[5]), oparg(t[2], t[3])
        else:
            b[i, i + 1] += coeff(t), oparg(t[2], t[3]), oparg(t[4], t[5])

    for i, ts in case["var_one"]:
        if case["how"] == "setitem":
            edits.append(lambda i=i, ts=ts: set1(i, ts))
        else:
            edits += [lambda i=i, t=t: add1(i, t) for t in ts]
    for i, ts in case["var_two"]:
        if case["how"] == "setitem":
            edits.append(lambda i=i, ts=ts: set2(i, ts))
        else:
            edits += [lambda i=i, t=t: add2(i, t) for t in ts]
    pre = case.get("pre")
    prebuilt = False
    for k, ed in enumerate(edits):
        ed()
        if pre and k + 1 == case.get("pre_at") and k + 1 < len(edits):
            prebuilt = True
            for what, fn in (("mpo", lambda: b.build_mpo(L)), ("sparse", lambda: b.build_sparse(L)),
                             ("local1d", lambda: b.build_local_ham(L))):
                if pre in (what, "all"):
                    try:
                        fn()  # only its side effects on the instance matter here
                    except Exception:
                        pass
    route = case["route"]
    if route == "mpo":
        got = np.asarray(b.build_mpo(L).to_dense())
    elif route == "sparse":
        got = b.build_sparse(L).toarray()
    elif route == "sparse_dense":
        got = b.build_sparse(L, sparse=False)
        got = got.toarray() if hasattr(got, "toarray") else np.asarray(got)  # (container type is ikron's business)
    else:
        try:
            ham = b.build_local_ham(L)
        except TypeError as e:
            arrs = any(t[2] == "arr" or t[4] == "arr" for ts in [case["two"]] + [ts for _, ts in case["var_two"]] for t in ts)
            if arrs and "bitwise_and" in str(e):
                # documented: operators may be "actual arrays"; two plain ndarrays are combined with `&`
                raise Violation("crash", exc="TypeError", where="SpinHam1D._get_spin_op", array_operands=True) from e
            raise
        got = local1d_dense(ham, L, D)
    anyrev = any(rev.values())
    info = dict(route="spinham:" + route, cyclic=cyc, var_one=bool(v1), var_two=bool(v2), reversed_key=anyrev,
                rebuilt_after_edit=prebuilt)
    if got.shape != H.shape:
        raise Violation("shape", got=list(got.shape), want=list(H.shape), **info)
    e = rel_err(got, H, floor=mag)
    if not e <= EXACT64:
        model = False
        if cyc and route.startswith("sparse"):
            # model of defect C19-h: the wrap-around bond is placed on sites [L-1, L]; ikron ignores the
            # out-of-range index, leaving factor * s1 alone on the last site
            Hm, _ = chain_sum(L, D, lambda i: one_m(v1.get(i, case["one"])), lambda i: two_m(v2.get(i, case["two"])), False)
            for t in case["two"]:
                Hm = Hm + embed(coeff(t) * opmat(t[2], t[3]), [D] * L, [L - 1])
            model = rel_err(got, Hm, floor=mag) <= EXACT64
        dropped = False
        if anyrev and not model and not route.startswith("local"):
            # model of defect C19-j: a term stored under the key (i+1, i) is never looked up -> that bond keeps the defaults
            v2d = {i: ts for i, ts in v2.items() if not rev.get(i)}
            Hd, _ = chain_sum(L, D, lambda i: one_m(v1.get(i, case["one"])), lambda i: two_m(v2d.get(i, case["two"])), cyc)
            dropped = rel_err(got, Hd, floor=mag) <= EXACT64
        raise Violation("value", err=e, c19h_model=bool(model), c19j_model=bool(dropped), **info)
    return {"nt": bool(v1 or v2 or cyc or len(case["two"]) > 1), "cls": ["route=" + route, "S2=%d" % S2, "how=" + case["how"]] +
            (["cyclic"] if cyc else []) + (["var_one"] if v1 else []) + (["var_two"] if v2 else []) +
            (["reversed-key"] if anyrev else []) + (["rebuilt-after-edit:" + str(pre)] if prebuilt else []), "err": e}


SUBCHECKS = [
    SubCheck("dense", run_dense, s_dense, examples=(300, 3000), shards=(2, 6),
             rule="build_dense (dtype auto/explicit incl. single precision, parallel) == H_ref; nt as RULE"),
    SubCheck("sparse", run_sparse, s_sparse, examples=(300, 3000), shards=(1, 4),
             rule="build_sparse_matrix in 7 formats == H_ref and has the requested format; nt as RULE"),
    SubCheck("matvec", run_matvec, s_matvec, examples=(300, 3000), shards=(2, 6),
             rule="matvec (out=, dtype=, parallel) and aslinearoperator @/matvec/matmat == H_ref @ x; nt as RULE"),
    SubCheck("mpo", run_mpo, s_mpo, examples=(300, 3000), shards=(2, 6), needs_deps=True,
             rule="build_mpo().to_dense() == H_ref; nt as RULE"),
    SubCheck("local_terms", run_local, s_local, examples=(300, 3000), shards=(1, 4),
             rule="build_local_terms / build_local_ham re-embedded and summed == H_ref; nt as RULE"),
    SubCheck("ikron", run_ikron, s_ikron, examples=(250, 2500), shards=(1, 4),
             rule="build_matrix_ikron dense/sparse == H_ref; nt as RULE"),
    SubCheck("coupling", run_coupling, s_coupling, examples=(250, 2500), shards=(1, 4),
             rule="flatconfig_coupling / config_coupling of (all or 16 sampled) basis configurations == columns of H_ref; nt as RULE"),
    SubCheck("terms_final", run_terms_final, s_terms_final, examples=(400, 4000), shards=(1, 4),
             rule="the simplified / Jordan-Wigner / Pauli-decomposed term list (.terms) evaluates to H_ref and is canonical; nt as RULE"),
    SubCheck("sector", run_sector, s_sector, examples=(250, 4000), shards=(2, 6),
             rule="Z2/U1/U1U1 sectors (default or per call, every sector spelling, species blocked or interleaved): dense/sparse/matvec/linop == H_ref[idx][:, idx], size, enumeration; nt: proper sector of dimension >= 2"),
    SubCheck("rank_exhaustive", run_rank, enum=enum_rank, exhaustive=True, shards=(2, 4),
             rule="every rank of every sector of none/Z2/U1 (nsites<=8 quick, 10 thorough) and U1U1 (<=4+4 / 5+5) through HilbertSpace: size == formula, unrank lexicographic and in sector, rank(unrank(r)) == r, onto; nt: sector size >= 2"),
    SubCheck("unrank_kernels", run_unrank_kernels, enum=enum_rank, exhaustive=True, shards=(1, 2),
             rule="configcore.rank_to_flatconfig(r, sector, symmetry) over the same exhaustive grid"),
    SubCheck("rank_kernels", run_rank_kernels, enum=enum_rank, exhaustive=True, shards=(1, 2), min_accept=0.0,  # wholly behind C19-c while it is open
             rule="configcore.flatconfig_to_rank / rank_to_flatconfig dispatchers over the same exhaustive grid"),
    SubCheck("rank_labelled", run_rank_labelled, s_rank_labelled, examples=(500, 4000), shards=(1, 4),
             rule="rank<->config for 6 labellings x 7 orderings x species (blocked/interleaved) x sector spellings x mixed local dimensions, all ranks; nt: size>=2 and (non-identity ordering or a symmetry)"),
    SubCheck("models", run_models, s_models, examples=(400, 4000), shards=(1, 4),
             rule="heisenberg_from_edges / fermi_hubbard_from_edges / fermi_hubbard_spinless_from_edges on random graphs (scalar, per-spin, per-edge parameters; orderings; sectors; Pauli decomposition) == documented formula with textbook Jordan-Wigner; all nt"),
    SubCheck("spin_models", run_spin_models, s_spin_models, examples=(350, 4000), shards=(1, 4),
             rule="MPO_ham_* / ham_1d_* / ham_* (heis, ising, XY, XXZ, mbl, j1j2; open/cyclic; S=1/2 and 1) == documented formula with textbook spin matrices (mbl: builders agree for one seed, noise is bounded on-site fields); nt: L>=3"),
    SubCheck("spinham_custom", run_spinham, s_spinham, examples=(350, 4000), shards=(1, 4),
             rule="SpinHam1D with default and site/bond specific terms (strings and arrays, complex factors): build_mpo / build_sparse / build_local_ham == sum of embedded terms; nt: specific terms or cyclic or >1 coupling"),
    SubCheck("rewrite_fns", run_rewrite_fns, s_rewrite_fns, examples=(400, 4000), shards=(1, 4),
             rule="module-level jordan_wigner_transform / simplify / pauli_decompose on integer sites, with default and explicit register maps; nt: repeated site or JW"),
]
