"""C17 — eigen / singular / exponential solvers return genuine, correctly selected results.

Every sub-check is one entry point / backend / mode.  Oracles are numpy only:
residual of the eigen-equation against the dense matrix, Gram matrix of the
returned vectors, and the *selection oracle*: the multiset of returned values
must be the documented rule (SA, LA, LM, SM, nearest-to-sigma, window) applied
to numpy.linalg.eigvalsh / eigvals of the dense matrix, where values that tie
at the selection boundary are accepted either way.
"""
from __future__ import annotations

import math

import numpy as np
from hypothesis import strategies as st

from .. import arrays as A_
from ..core import EXACT32, EXACT64, INV64, Reject, SubCheck, Violation, fro, rel_err

RULE = ("cases are constructed Hermitian / general / rectangular matrices (gauss, prescribed well separated spectrum, "
        "exactly degenerate kron(1_m,h) with permuted rows, degenerate up to rounding U diag U+, permuted block diagonal, "
        "shifted PSD; sizes 2-150 incl. both sides of the auto-selection thresholds d^2/k = 2000 / 10000) x representation "
        "(ndarray, qarray, csr/csc/coo/bsr, LinearOperator with matvec only, Lazy) x backend (numpy, scipy, lobpcg, auto) x "
        "selection rule x k x sort x return_vecs, all drawn by Hypothesis; arrays come from default_rng(seed); iterative "
        "solvers get an explicit v0 from the case seed; non-trivial = degenerate or block-structured spectrum, or a size "
        "across a backend threshold, or a selection rule other than the default smallest-algebraic")
ASSUMPTIONS = [
    "numpy.linalg.eigvalsh / eigvals / svd and scipy.linalg.eigvalsh(A, B) of the dense matrix are the trusted spectra",
    "iterative backends are only asked for k <= d-2 and spectra whose distinct values are separated by >= 0.4 (unit scale)",
    "sigma is only combined with which in {None, 'TR'} and is placed strictly inside a spectral gap (or outside the spectrum)",
    "non-convergence reported by the backend (ArpackNoConvergence, lobpcg's 'not reaching the requested tolerance' warning) is a counted rejection",
    "ARPACK which='SM' without shift-invert (scipy documents shift-invert for that purpose) is only held to the strict selection "
    "oracle while its Krylov dimension spans the space (d <= 20); beyond that only genuineness of the returned pairs is demanded",
    "a single-vector Krylov solver cannot see multiplicities: on degenerate spectra a missing copy of a degenerate level is reported "
    "under its own clause (finding C17-h) while skipped levels / non-eigenvalues stay ordinary violations",
    "shift-invert through a LinearOperator (inner gmres solve) and the numpy backend on a LinearOperator are not claimed (rejected)",
    "rsvd / estimate_rank are only held to exactness on exact rank-r inputs with singular values in [0.5, 2]; estimate_rank(use_sli=True) "
    "(scipy's randomised, unseeded estimator, documented ~8 too high) is not checked",
    "the matrix exponential oracle is an own scaling-and-squaring Taylor series (Hermitian: numpy eigh), |A|_2 <= 3",
    "lobpcg is run with explicit tol=1e-10, maxiter=400 (its default 30 iterations promise no accuracy)",
]


def Q():
    import quimb as qu

    return qu


# ---------------------------------------------------------------------------
# matrix construction (pure functions of the case)
# ---------------------------------------------------------------------------

def _g(rng, cplx, *s):
    x = rng.normal(size=s)
    if cplx:
        x = x + 1j * rng.normal(size=s)
    return x


def _sep_spectrum(rng, n, offset=None):
    """n distinct values, consecutive gaps in [0.5, 1.5], straddling zero."""
    lam = np.cumsum(rng.uniform(0.5, 1.5, size=n))
    lam = lam - lam[int(rng.integers(n))] + rng.uniform(0.1, 0.4) * (1 if rng.integers(2) else -1)
    return lam


def _from_spectrum(rng, cplx, lam):
    n = len(lam)
    u, _ = np.linalg.qr(_g(rng, cplx, n, n))
    h = (u * lam) @ u.conj().T
    return (h + h.conj().T) / 2


def _perm_sim(rng, H):
    p = rng.permutation(H.shape[0])
    return np.ascontiguousarray(H[np.ix_(p, p)])


def _block_diag(blocks):
    n = sum(b.shape[0] for b in blocks)
    out = np.zeros((n, n), dtype=np.result_type(*[b.dtype for b in blocks]))
    i = 0
    for b in blocks:
        m = b.shape[0]
        out[i:i + m, i:i + m] = b
        i += m
    return out


HKINDS = ("gauss", "spectrum", "degenerate", "near_degenerate", "block", "block_chain", "psd", "identity")
HKINDS_ITER = ("spectrum", "spectrum", "degenerate", "near_degenerate", "block_sep", "psd_sep")


def make_herm(m):
    """m = {"d","dtype","kind","seed","mult"} -> dense Hermitian ndarray (its size may be rounded to fit the kind)."""
    d, kind = int(m["d"]), m["kind"]
    dt = np.dtype(m["dtype"])
    cplx = dt.kind == "c"
    rng = np.random.default_rng(int(m["seed"]))
    mult = max(1, min(int(m.get("mult", 2)), d))
    if kind == "gauss":
        a = _g(rng, cplx, d, d)
        H = (a + a.conj().T) / 2
    elif kind == "spectrum":
        H = _from_spectrum(rng, cplx, _sep_spectrum(rng, d))
    elif kind == "degenerate":
        # exact multiplicity `mult` (bitwise identical diagonal blocks) + a few simple eigenvalues; rows permuted
        b = max(1, d // mult)
        e = d - b * mult
        lam = _sep_spectrum(rng, b + e)
        rng.shuffle(lam)
        h0 = _from_spectrum(rng, cplx, lam[:b])
        blocks = [h0] * mult
        if e:
            blocks.append(_from_spectrum(rng, cplx, lam[b:]))
        H = _perm_sim(rng, _block_diag(blocks))
    elif kind == "near_degenerate":
        # multiplicities up to rounding: U diag(repeated) U+
        nb = max(1, math.ceil(d / mult))
        lam = np.repeat(_sep_spectrum(rng, nb), mult)[:d]
        H = _from_spectrum(rng, cplx, lam)
    elif kind in ("block", "block_sep"):
        sizes = []
        left = d
        while left > 0:
            s = int(min(left, rng.integers(1, max(2, d // 2 + 1))))
            sizes.append(s)
            left -= s
        if kind == "block_sep":
            lam = _sep_spectrum(rng, d)
            rng.shuffle(lam)
            blocks, i = [], 0
            for s in sizes:
                blocks.append(_from_spectrum(rng, cplx, lam[i:i + s]))
                i += s
        else:
            blocks = []
            for s in sizes:
                a = _g(rng, cplx, s, s)
                blocks.append((a + a.conj().T) / 2)
        H = _perm_sim(rng, _block_diag(blocks))
    elif kind == "block_chain":
        # sparsely connected blocks (chains + a few extra couplings, some zero diagonals), rows permuted: the connected
        # components can only be found by merging partial groups
        sizes, left = [], d
        while left > 0:
            sz = int(min(left, rng.integers(1, max(2, d // 2 + 2))))
            sizes.append(sz)
            left -= sz
        blocks = []
        for sz in sizes:
            a = _g(rng, cplx, sz, sz)
            mask = (np.abs(np.subtract.outer(np.arange(sz), np.arange(sz))) == 1) | (rng.random((sz, sz)) < 0.1)
            mask = mask | mask.T | (np.eye(sz, dtype=bool) & (rng.random(sz) < 0.5))
            blocks.append(((a + a.conj().T) / 2) * mask)
        H = _perm_sim(rng, _block_diag(blocks))
    elif kind == "psd":
        a = _g(rng, cplx, d, d)
        H = a @ a.conj().T / d + 0.5 * np.eye(d)
    elif kind == "psd_sep":
        lam = _sep_spectrum(rng, d)
        H = _from_spectrum(rng, cplx, lam - lam.min() + 0.3)
    elif kind == "identity":
        H = float(rng.uniform(0.5, 2.0)) * np.eye(d) * (1 if rng.integers(2) else -1)
    else:
        raise ValueError(kind)
    if not cplx:
        H = np.real(H)
    return np.ascontiguousarray(H.astype(dt))


def make_metric(d, dtype, seed):
    """well conditioned positive definite metric (cond <= ~6)."""
    rng = np.random.default_rng(int(seed) + 7)
    cplx = np.dtype(dtype).kind == "c"
    lam = rng.uniform(0.5, 3.0, size=d)
    B = _from_spectrum(rng, cplx, lam)
    if not cplx:
        B = np.real(B)
    return np.ascontiguousarray(B.astype(dtype))


def to_rep(M, rep):
    import scipy.sparse as sp
    import scipy.sparse.linalg as spla

    qu = Q()
    if rep == "dense":
        return M.copy()
    if rep == "qarray":
        return qu.qarray(M.copy())
    if rep in ("csr", "csc", "coo", "bsr"):
        return getattr(sp, rep + "_matrix")(M)
    if rep == "linop":
        Mc = M.copy()
        return spla.LinearOperator(shape=M.shape, matvec=lambda v: Mc @ v, rmatvec=lambda v: Mc.conj().T @ v, dtype=M.dtype)
    if rep == "aslinop":
        return spla.aslinearoperator(M.copy())
    if rep == "lazy":
        return qu.Lazy(lambda: M.copy(), shape=M.shape)
    if rep == "lazy_sparse":
        return qu.Lazy(lambda: sp.csr_matrix(M), shape=M.shape)
    raise ValueError(rep)


def seeded_vec(seed, d, cplx, k=None):
    rng = np.random.default_rng(int(seed) + 13)
    s = (d,) if k is None else (d, k)
    return _g(rng, cplx, *s)


# ---------------------------------------------------------------------------
# oracles
# ---------------------------------------------------------------------------

def multiset_subset(a, b, tol):
    """every element of a is matched to a distinct element of b within tol; returns (ok, max distance)."""
    a = np.asarray(a).ravel()
    b = np.asarray(b).ravel()
    if a.size > b.size:
        return False, float("inf")
    if np.iscomplexobj(a) or np.iscomplexobj(b):
        used = np.zeros(b.size, bool)
        worst = 0.0
        for x in a:
            dist = np.abs(b - x)
            dist[used] = np.inf
            j = int(np.argmin(dist))
            if not dist[j] <= tol:
                return False, float(dist[j])
            used[j] = True
            worst = max(worst, float(dist[j]))
        return True, worst
    a = np.sort(a.astype(float))
    b = np.sort(b.astype(float))
    j = 0
    worst = 0.0
    for x in a:
        while j < b.size and b[j] < x - tol:
            j += 1
        if j >= b.size or abs(b[j] - x) > tol:
            return False, float("inf")
        worst = max(worst, abs(b[j] - x))
        j += 1
    return True, worst


def rule_key(ref, rule, sigma=None):
    ref = np.asarray(ref)
    if rule == "SA":
        return ref.real
    if rule == "LA":
        return -ref.real
    if rule == "LM":
        return -np.abs(ref)
    if rule == "SM":
        return np.abs(ref)
    if rule == "TR":
        return np.abs(ref - sigma)
    if rule == "SR":
        return ref.real
    if rule == "LR":
        return -ref.real
    if rule == "SI":
        return ref.imag
    if rule == "LI":
        return -ref.imag
    raise ValueError(rule)


def check_selection(got, ref, sel, k, sigma, vtol, **info):
    """returned multiset == rule applied to ref; ties at the boundary (within 10*vtol) either way."""
    rule = sel
    info.setdefault("rule", sel)
    got = np.asarray(got).ravel()
    ref = np.asarray(ref).ravel()
    kk = min(int(k), ref.size)
    if got.size != kk:
        raise Violation("count", got=int(got.size), want=kk, **info)
    if kk == 0:
        return 0.0
    key = rule_key(ref, rule, sigma)
    ks = np.sort(key)
    kb = ks[kk - 1]
    band = 10 * vtol
    may = ref[key <= kb + band]
    must = ref[key < kb - band]
    ok, e1 = multiset_subset(got, may, vtol)
    if not ok:
        raise Violation("selection", clause="value-outside-requested-part", **info)
    ok, e2 = multiset_subset(must, got, vtol)
    if not ok:
        raise Violation("selection", clause="requested-value-missing", **info)
    return max(e1, e2)


def is_degenerate(ref, scale):
    r = np.sort(np.asarray(ref).real)
    return bool(r.size > 1 and np.min(np.diff(r)) < 1e-8 * max(scale, 1e-300))


def check_pairs(Ad, Bd, lk, vk, tol, gram=True, **info):
    """eigen-equation residual and (B-)orthonormality. returns max error."""
    lk = np.asarray(lk)
    vk = np.asarray(vk)
    d = Ad.shape[0]
    if vk.ndim != 2 or vk.shape[0] != d or vk.shape[1] != lk.size:
        raise Violation("shape", got=list(vk.shape), want=[d, int(lk.size)], **info)
    if not (np.all(np.isfinite(lk)) and np.all(np.isfinite(vk))):
        raise Violation("nonfinite", **info)
    Ac = Ad.astype(np.complex128)
    vc = vk.astype(np.complex128)
    bv = vc if Bd is None else Bd.astype(np.complex128) @ vc
    scale = max(fro(Ac), 1e-300)
    res = fro(Ac @ vc - bv * lk.astype(np.complex128)) / (scale * max(1.0, math.sqrt(max(lk.size, 1))))
    if not res <= tol:
        raise Violation("residual", err=res, tol=tol, **info)
    e = res
    if gram and lk.size:
        gm = vc.conj().T @ bv
        ge = fro(gm - np.eye(lk.size)) / math.sqrt(lk.size)
        if not ge <= tol:
            raise Violation("gram", err=ge, tol=tol, **info)
        e = max(e, ge)
    return e


def check_ascending(lk, **info):
    lk = np.asarray(lk)
    if lk.size > 1 and not np.all(np.diff(lk.real) >= 0):
        raise Violation("sorted", **info)


def resolved_backend(A, k, sigma, B, backend):
    if backend is not None and backend.upper() != "AUTO":
        return backend.upper()
    from quimb.linalg.base_linalg import choose_backend

    return choose_backend(A, k, sigma is not None, B=B)


def call_solver(fn, **info):
    """call the entry point; non-convergence reported by the iterative backend (ARPACK exception, lobpcg's
    'not reaching the requested tolerance' warning) is a counted rejection."""
    import warnings

    import scipy.sparse.linalg as spla

    try:
        with warnings.catch_warnings(record=True) as wlist:
            warnings.simplefilter("always")
            out = fn()
    except spla.ArpackNoConvergence as e:
        raise Reject("arpack-no-convergence") from e
    for w in wlist:
        if "not reaching the requested tolerance" in str(w.message):
            raise Reject("lobpcg-no-convergence (backend warning)")
    return out


def _levels(ref, band):
    r = np.sort(np.asarray(ref, dtype=float))
    groups = [[r[0]]]
    for x in r[1:]:
        if x - groups[-1][-1] <= band:
            groups[-1].append(x)
        else:
            groups.append([x])
    return np.array([np.mean(g) for g in groups])


def check_selection_levels(got, ref, sel, k, sigma, vtol, **info):
    """Weaker oracle for single-vector Krylov solvers on degenerate spectra: every returned value is a genuine eigenvalue
    (multiplicity respected) and no distinct *level* of the requested part is skipped; copies of a level may be missing."""
    info.setdefault("rule", sel)
    got = np.asarray(got, dtype=float).ravel()
    ref = np.asarray(ref, dtype=float).ravel()
    if got.size != min(int(k), ref.size):
        raise Violation("count", got=int(got.size), want=min(int(k), ref.size), **info)
    ok, e = multiset_subset(got, ref, vtol)
    if not ok:
        raise Violation("selection", clause="value-not-in-spectrum", **info)
    band = 10 * vtol
    lev = _levels(ref, band)
    key = rule_key(lev, sel, sigma)
    idx = {int(np.argmin(np.abs(lev - x))) for x in got}
    t = len(idx)
    kb = np.sort(key)[t - 1]
    must = {int(i) for i in np.nonzero(key < kb - band)[0]}
    may = {int(i) for i in np.nonzero(key <= kb + band)[0]}
    if not (must <= idx <= may):
        raise Violation("selection", clause="level-skipped", **info)
    return e


def select_oracle(got, ref, sel, k, sigma, vtol, krylov=False, deg=False, weak=False, **info):
    """strict selection oracle; for a single-vector Krylov backend on a degenerate spectrum a failure that is only a
    missing copy of a degenerate level is reported under its own clause (known finding C17-h); `weak` (documented
    unreliable mode: ARPACK which='SM' without shift-invert beyond its Krylov dimension) only demands genuine values."""
    if weak:
        g = np.asarray(got).ravel()
        if g.size != min(int(k), np.size(ref)):
            raise Violation("count", got=int(g.size), want=min(int(k), int(np.size(ref))), **info)
        ok, e = multiset_subset(g, ref, vtol)
        if not ok:
            raise Violation("selection", clause="value-not-in-spectrum", **dict(info, rule=sel))
        return e
    try:
        return check_selection(got, ref, sel, k, sigma, vtol, **info)
    except Violation as v:
        if krylov and deg and v.reason == "selection" and not np.iscomplexobj(ref):
            check_selection_levels(np.real(got), ref, sel, k, sigma, vtol, **info)
            raise Violation("selection", clause="degenerate-copy-missed", **dict(info, rule=sel)) from v
        raise


def sigma_from(ref, gi, frac):
    """a target strictly inside the gi-th gap between *distinct* reference values (gi=-1 / >=n: outside)."""
    u = np.unique(np.round(np.sort(ref.real), 9))
    rng_ = max(u[-1] - u[0], 1.0)
    if u.size < 2 or gi < 0:
        return float(u[0] - (0.2 + frac) * 0.2 * rng_)
    if gi >= u.size - 1:
        return float(u[-1] + (0.2 + frac) * 0.2 * rng_)
    return float(u[gi] + frac * (u[gi + 1] - u[gi]))


TARGETS = ["gap", "gap", "zero_f", "zero_f", "zero_i", "int", "near", "neg"]


def s_target(draw):
    return {"target": draw(st.sampled_from(TARGETS)), "tint": draw(st.sampled_from([-3, -2, -1, 1, 2, 3, 5]))}


def target_from(case, ref, d, dmin):
    """The target sigma of a case, as a pure function of (case, reference spectrum).  Forms: inside a spectral gap /
    outside the spectrum ('gap'), exactly 0.0 ('zero_f'), the int 0 ('zero_i'), a non-zero int ('int'), next to (4-8 % of
    the local gap away from) an eigenvalue ('near'), strictly negative ('neg').  The generated spectra straddle zero and
    keep zero >= 0.1 away from every eigenvalue (separated kinds); `dmin` is the distance from the spectrum that an
    inverting (shift-invert) backend needs - the value is moved, deterministically, until it is respected."""
    ref = np.sort(np.asarray(ref).real)
    form = case.get("target", "gap")
    gi = case["gap"] % (d + 1) - 1
    frac = case["frac"]

    def clear(x):
        return float(np.min(np.abs(ref - x))) >= dmin

    if form in ("zero_f", "zero_i"):
        sig = 0.0 if form == "zero_f" else 0
        if clear(sig):
            return sig
        form = "gap"
    if form == "int":
        t = int(case.get("tint", 1))
        for c in (t, 0, t + 1, t - 1, t + 2, t - 2):
            if clear(c):
                return int(c)
        form = "gap"
    if form == "near":
        u = np.unique(np.round(ref, 9))
        i = gi % u.size
        gaps = [abs(u[j] - u[i]) for j in (i - 1, i + 1) if 0 <= j < u.size]
        g = min(gaps) if gaps else 1.0
        sig = float(u[i] + (0.04 + 0.04 * frac) * min(g, 1.0) * (1 if gi % 2 else -1))
        if clear(sig):
            return sig
        form = "gap"
    sig = sigma_from(ref, gi, frac)
    if form == "neg" and sig > 0:
        sig = -sig
    n = 0
    while not clear(sig) and n < 50:
        sig += 1.7 * dmin + 1e-3
        n += 1
    return float(sig)


def target_cls(case, sigma):
    return ["target=" + case.get("target", "gap"), "sigma" + ("==0" if sigma == 0 else "<0" if sigma < 0 else ">0"),
            "sigma:" + type(sigma).__name__]


# ---------------------------------------------------------------------------
# 1. full Hermitian decomposition (k < 0: dense numpy path)
# ---------------------------------------------------------------------------

@st.composite
def s_herm_matrix(draw, dmin, dmax, kinds, dtypes=A_.DTYPES64):
    return {"d": draw(st.integers(dmin, dmax)), "dtype": draw(st.sampled_from(dtypes)), "kind": draw(st.sampled_from(kinds)),
            "seed": draw(A_.seeds), "mult": draw(st.sampled_from([2, 2, 3, 4]))}


@st.composite
def s_eigh_full(draw, tier):
    return {"mat": draw(s_herm_matrix(1, 24 if tier == "quick" else 48, HKINDS, A_.DTYPES)),
            "fn": draw(st.sampled_from(["eigh", "eigvalsh", "eigvecsh", "eigensystem", "eigensystem_vals"])),
            "rep": draw(st.sampled_from(["dense", "qarray", "dense", "qarray", "csr", "csc"])), "sort": draw(st.sampled_from([True, True, False, None]))}


def run_eigh_full(case):
    qu = Q()
    m = case["mat"]
    H = make_herm(m)
    d = H.shape[0]
    single = np.dtype(m["dtype"]).itemsize in (4, 8) and np.dtype(m["dtype"]).name in ("float32", "complex64")
    tol = EXACT32 if single else EXACT64
    ref = np.linalg.eigvalsh(H.astype(np.complex128))
    scale = max(float(np.max(np.abs(ref))), 1e-300)
    A = to_rep(H, case["rep"])
    kw = {} if case["sort"] is None else {"sort": case["sort"]}
    fn = case["fn"]
    info = dict(fn=fn, sort=case["sort"], dtype="complex" if H.dtype.kind == "c" else "real")
    lk = vk = None
    info["sparse"] = case["rep"] in ("csr", "csc")
    try:
        if fn == "eigh":
            lk, vk = qu.eigh(A, **kw)
        elif fn == "eigvalsh":
            lk = qu.eigvalsh(A, **kw)
        elif fn == "eigvecsh":
            vk = qu.eigvecsh(A, **kw)
        elif fn == "eigensystem":
            lk, vk = qu.eigensystem(A, isherm=True, **kw)
        else:
            lk = qu.eigensystem(A, isherm=True, return_vecs=False, **kw)
    except np.linalg.LinAlgError as e:
        if info["sparse"]:
            # documented (eigensystem): "A : operator"; the partial route and eigh_window densify a sparse operator
            raise Violation("refused-documented-input", exc="LinAlgError", **info) from e
        raise
    err = 0.0
    if lk is not None:
        lk = np.asarray(lk)
        if lk.shape != (d,):
            raise Violation("count", got=list(lk.shape), want=[d], **info)
        ok, e = multiset_subset(lk, ref, tol * scale)
        if not ok:
            raise Violation("selection", clause="spectrum-differs", **info)
        err = max(err, e / scale)
        if case["sort"] is not False:
            check_ascending(lk, **info)
    if vk is not None:
        vk = np.asarray(vk)
        if vk.shape != (d, d):
            raise Violation("shape", got=list(vk.shape), want=[d, d], **info)
        if lk is None:
            # vectors only: each column must be an eigenvector (Rayleigh quotient as its value)
            vc = vk.astype(np.complex128)
            lk2 = np.real(np.sum(vc.conj() * (H.astype(np.complex128) @ vc), axis=0))
            err = max(err, check_pairs(H, None, lk2, vk, tol, **info))
            if case["sort"] is not False:
                if lk2.size > 1 and not np.all(np.diff(lk2) >= -tol * scale):
                    raise Violation("sorted", **info)
            ok, e = multiset_subset(lk2, ref, 10 * tol * scale)
            if not ok:
                raise Violation("selection", clause="spectrum-differs", **info)
        else:
            err = max(err, check_pairs(H, None, lk, vk, tol, **info))
            # documented: ev @ diag(el) @ ev.H == A
            vc = vk.astype(np.complex128)
            err = max(err, rel_err((vc * lk) @ vc.conj().T, H, floor=fro(H)))
            if not err <= tol:
                raise Violation("reconstruct", err=err, **info)
    deg = is_degenerate(ref, scale)
    return {"nt": d >= 2 and (deg or m["kind"] in ("block", "degenerate", "near_degenerate", "identity") or case["sort"] is False),
            "cls": ["fn=" + fn, "kind=" + m["kind"], "dtype=" + m["dtype"], "sort=" + str(case["sort"]), "rep=" + case["rep"]] + (["degenerate"] if deg else []),
            "err": err}


# ---------------------------------------------------------------------------
# 2-5. partial Hermitian eigenproblems per backend
# ---------------------------------------------------------------------------

WHICH_H = ["SA", "LA", "LM", "SM", "TR", "sigma", "sigma", None]


def _partial_common(draw, which_pool, reps, fns=("eigh", "eigh", "eigvalsh", "eigvecsh", "eigensystem_partial")):
    return {"which": draw(st.sampled_from(which_pool)), "rep": draw(st.sampled_from(reps)),
            "fn": draw(st.sampled_from(fns)), "sort": draw(st.sampled_from([True, True, None, False])),
            "gap": draw(st.integers(-1, 40)), "frac": draw(st.sampled_from([0.3, 0.5, 0.62, 0.8])),
            "v0seed": draw(A_.seeds), **s_target(draw)}


@st.composite
def s_eigh_numpy(draw, tier):
    mat = draw(s_herm_matrix(2, 24 if tier == "quick" else 40, HKINDS))
    c = _partial_common(draw, WHICH_H, ["dense", "qarray", "csr", "csc", "coo", "bsr", "lazy", "lazy_sparse"])
    c.update(mat=mat, backend=draw(st.sampled_from(["numpy", "NUMPY"])), k=draw(st.integers(0, mat["d"] + 1)))
    return c


@st.composite
def s_eigh_scipy(draw, tier):
    mat = draw(s_herm_matrix(8, 40 if tier == "quick" else 72, HKINDS_ITER))
    c = _partial_common(draw, WHICH_H + ["LMsigma"], ["dense", "qarray", "csr", "csc", "coo", "bsr", "linop", "aslinop", "lazy", "lazy_sparse"])
    c.update(mat=mat, backend="scipy", k=draw(st.integers(1, min(6, mat["d"] - 3))))
    return c


@st.composite
def s_eigh_lobpcg(draw, tier):
    mat = draw(s_herm_matrix(12, 40 if tier == "quick" else 64, HKINDS_ITER))
    c = _partial_common(draw, ["SA", "LA", None], ["dense", "qarray", "csr", "csc", "linop", "aslinop", "lazy"])
    c.update(mat=mat, backend="lobpcg", k=draw(st.integers(1, 4)), v0form=draw(st.sampled_from(["2d", "2d", "none", "1d"])))
    return c


@st.composite
def s_eigh_auto(draw, tier):
    # sizes on both sides of choose_backend's thresholds: d^2/k < 2000 (no sigma) / 10000 (sigma)
    k = draw(st.sampled_from([1, 1, 2, 3]))
    which = draw(st.sampled_from(WHICH_H))
    thr = 10000 if which in ("TR", "sigma") else 2000
    d0 = math.isqrt(thr * k)
    d = max(8, d0 + draw(st.sampled_from([-9, -2, -1, 0, 1, 2, 3, 7])))
    mat = {"d": d, "dtype": draw(st.sampled_from(A_.DTYPES64)), "kind": draw(st.sampled_from(HKINDS_ITER)),
           "seed": draw(A_.seeds), "mult": draw(st.sampled_from([2, 2, 3]))}
    c = _partial_common(draw, [which], ["dense", "qarray", "csr", "csc", "linop", "lazy"])
    c.update(mat=mat, backend=draw(st.sampled_from([None, None, "auto", "AUTO"])), k=k)
    return c


def run_eigh_partial(case):
    qu = Q()
    m = case["mat"]
    H = make_herm(m)
    d = H.shape[0]
    cplx = H.dtype.kind == "c"
    k = int(case["k"])
    ref = np.linalg.eigvalsh(H.astype(np.complex128))
    scale = max(float(np.max(np.abs(ref))), 1e-300)
    which = case["which"]
    targeted = which in ("TR", "sigma", "LMsigma")
    rep = case["rep"]
    A = to_rep(H, rep)
    backend = case["backend"]
    # labelling only (never used by the oracle); only `sigma is not None` enters the documented auto-selection rule
    bres = resolved_backend(A if not rep.startswith("lazy") else H, max(k, 1), 0.0 if targeted else None, None, backend)
    iterative = bres in ("SCIPY", "LOBPCG")
    sigma = None
    kw = {}
    if targeted:
        # an inverting backend needs the target off the spectrum; the dense backend takes any target
        sigma = target_from(case, ref, d, 0.03 if iterative else 0.0)
        kw["sigma"] = sigma
        rule = "TR"
        if which == "TR":
            kw["which"] = "TR"
        elif which == "LMsigma":
            # scipy eigsh (referenced by the docstring): with sigma, which refers to 1/(lambda-sigma) -> 'LM' == nearest sigma
            if bres != "SCIPY":
                raise Reject("sigma with which='LM' is only defined (by scipy) for the shift-invert backend")
            kw["which"] = "LM"
    elif which is None:
        rule = "SA"
    else:
        rule = which
        kw["which"] = which
    if case["sort"] is not None:
        kw["sort"] = case["sort"]
    if backend is not None:
        kw["backend"] = backend
    if iterative:
        if k > d - 2 or k < 1:
            raise Reject("iterative solver needs 1 <= k <= d-2")
        if rep in ("linop", "aslinop") and sigma is not None:
            raise Reject("shift-invert through a LinearOperator uses an inner iterative solve (not claimed)")
    if bres == "NUMPY" and rep in ("linop", "aslinop"):
        raise Reject("numpy backend on a LinearOperator")
    if bres == "SCIPY" or backend is None or (backend or "").upper() == "AUTO":
        kw["v0"] = seeded_vec(case["v0seed"], d, cplx)
    if bres == "LOBPCG":
        kw.update(tol=1e-10, maxiter=400)
        vf = case.get("v0form", "2d")
        if vf == "2d":
            kw["v0"] = seeded_vec(case["v0seed"], d, cplx, k)
        elif vf == "1d":
            kw["v0"] = seeded_vec(case["v0seed"], d, cplx)
        if m["kind"] in ("degenerate",) and vf != "2d":
            pass
    tol = INV64 if iterative else EXACT64
    deg = is_degenerate(ref, scale)
    info = dict(backend_resolved=bres, dtype="complex" if cplx else "real", degenerate=deg, rule=rule, rep=rep, fn=case["fn"])
    # scipy documents shift-invert as the way to small-magnitude eigenvalues; plain which='SM' is only exact while the
    # Krylov dimension (ncv = max(2k+1, 20)) spans the whole space
    weak_sm = bres == "SCIPY" and rule == "SM" and d > 20
    fn = case["fn"]
    lk = vk = None

    def go():
        if fn == "eigh":
            return qu.eigh(A, k=k, **kw)
        if fn == "eigvalsh":
            return qu.eigvalsh(A, k=k, **kw), None
        if fn == "eigvecsh":
            return None, qu.eigvecsh(A, k=k, **kw)
        return qu.eigensystem_partial(A, k, True, **kw)

    if bres == "LOBPCG" and case.get("v0form") == "1d" and k > 1:
        # documented: v0 "None or 1D-array like" (eigensystem_partial); lobpcg wrapper says it fleshes the block out
        try:
            lk, vk = call_solver(go)
        except TypeError as e:
            raise Violation("refused-documented-input", exc="TypeError", v0="1d", **info) from e
    else:
        lk, vk = call_solver(go)
    err = 0.0
    kk = min(k, d)
    if lk is not None:
        lk = np.asarray(lk)
        if np.iscomplexobj(lk) and np.max(np.abs(lk.imag), initial=0.0) > tol * scale:
            raise Violation("complex-eigenvalues", **info)
        err = max(err, select_oracle(lk.real, ref, rule, k, sigma, tol * scale, krylov=bres == "SCIPY", deg=deg, weak=weak_sm, **info) / scale)
        if case["sort"] is not False:
            check_ascending(lk, **info)
        elif bres == "NUMPY" and lk.size > 1:
            # documented (eigs_numpy): sorted according to `which` when not re-sorted ascending
            ky = rule_key(lk.real, rule, sigma)
            if not np.all(np.diff(ky) >= -10 * tol * scale):
                raise Violation("sorted", order="which", **info)
    if vk is not None:
        vk = np.asarray(vk)
        if vk.ndim != 2 or vk.shape != (d, kk):
            raise Violation("shape", got=list(vk.shape), want=[d, kk], **info)
        if lk is None:
            vc = vk.astype(np.complex128)
            lk2 = np.real(np.sum(vc.conj() * (H.astype(np.complex128) @ vc), axis=0))
            err = max(err, check_pairs(H, None, lk2, vk, tol, **info))
            err = max(err, select_oracle(lk2, ref, rule, k, sigma, 10 * tol * scale, krylov=bres == "SCIPY", deg=deg, weak=weak_sm, **info) / scale)
        else:
            err = max(err, check_pairs(H, None, lk.real, vk, tol, **info))
    thr = 10000 if sigma is not None else 2000
    near_thr = backend is None or (backend or "").upper() == "AUTO"
    return {"nt": bool(kk >= 1 and (deg or m["kind"].startswith("block") or near_thr or rule != "SA")),
            "cls": ["res=" + bres, "rule=" + rule + ("(sigma only)" if which == "sigma" else ""), "rep=" + rep, "fn=" + fn,
                    "kind=" + m["kind"], "cplx" if cplx else "real", "sort=" + str(case["sort"])]
                   + (["degenerate"] if deg else []) + (["SM-weak"] if weak_sm else []) + (target_cls(case, sigma) if sigma is not None else [])
                   + (["which=LM+sigma"] if which == "LMsigma" else []) + ([f"auto:{'below' if d * d / max(k, 1) < thr else 'above'}"] if near_thr else [])
                   + (["v0=" + case["v0form"]] if "v0form" in case else []),
            "err": err}


# ---------------------------------------------------------------------------
# 6. generalized problems A v = lambda B v with a positive definite metric
# ---------------------------------------------------------------------------

@st.composite
def s_eigh_generalized(draw, tier):
    backend = draw(st.sampled_from(["numpy", "scipy", "lobpcg", None]))
    mat = draw(s_herm_matrix(10, 36 if tier == "quick" else 60, ("spectrum", "gauss", "psd_sep", "block_sep", "degenerate")))
    which = draw(st.sampled_from(["SA", "LA", None] if backend == "lobpcg" else ["SA", "LA", "LM", None, "TR", "sigma", "sigma"]))
    return {"mat": mat, "backend": backend, "k": draw(st.integers(1, 4)), "which": which,
            "rep": draw(st.sampled_from(["dense", "qarray", "csr", "csc"])),
            "brep": draw(st.sampled_from(["dense", "dense", "qarray", "csr", "csc"])),
            "fn": draw(st.sampled_from(["eigh", "eigh", "eigvalsh"])), "gap": draw(st.integers(-1, 40)),
            "frac": draw(st.sampled_from([0.3, 0.5, 0.7])), "v0seed": draw(A_.seeds), **s_target(draw)}


def run_eigh_generalized(case):
    import scipy.linalg as sla

    qu = Q()
    m = case["mat"]
    H = make_herm(m)
    d = H.shape[0]
    cplx = H.dtype.kind == "c"
    Bd = make_metric(d, m["dtype"], m["seed"])
    k = int(case["k"])
    ref = sla.eigvalsh(H.astype(np.complex128), Bd.astype(np.complex128))
    scale = max(float(np.max(np.abs(ref))), 1e-300)
    which = case["which"]
    kw, sigma = {}, None
    A = to_rep(H, case["rep"])
    B = to_rep(Bd, case["brep"])
    backend = case["backend"]
    if backend is not None:
        kw["backend"] = backend
    bres = resolved_backend(A, k, 0.0 if which in ("TR", "sigma") else None, B, backend)
    iterative = bres in ("SCIPY", "LOBPCG")
    if which in ("TR", "sigma"):
        sigma = target_from(case, ref, d, 0.01 if iterative else 0.0)
        kw["sigma"] = sigma
        rule = "TR"
        if which == "TR":
            kw["which"] = "TR"
    elif which is None:
        rule = "SA"
    else:
        rule = which
        kw["which"] = which
    if iterative and k > d - 2:
        raise Reject("iterative solver needs k <= d-2")
    if bres == "SCIPY" or backend is None:
        kw["v0"] = seeded_vec(case["v0seed"], d, cplx)
    if bres == "LOBPCG":
        kw.update(tol=1e-10, maxiter=400, v0=seeded_vec(case["v0seed"], d, cplx, k))
    tol = INV64 if iterative else EXACT64
    deg = is_degenerate(ref, scale)
    info = dict(backend_resolved=bres, dtype="complex" if cplx else "real", degenerate=deg, rule=rule, rep=case["rep"],
                brep=case["brep"], b_sparse=case["brep"] in ("csr", "csc"), fn=case["fn"], generalized=True)

    def go():
        if case["fn"] == "eigh":
            return qu.eigh(A, k=k, B=B, **kw)
        return qu.eigvalsh(A, k=k, B=B, **kw), None

    try:
        lk, vk = call_solver(go)
    except ValueError as e:
        # documented (eigensystem_partial): B "sparse, dense or linear operator"
        if "object arrays" in str(e):
            raise Violation("refused-documented-input", exc="ValueError", **info) from e
        raise
    lk = np.asarray(lk)
    err = select_oracle(lk.real, ref, rule, k, sigma, tol * scale, krylov=bres == "SCIPY", deg=deg, **info) / scale
    check_ascending(lk, **info)
    if vk is not None:
        # B-orthonormality: v+ B v = 1
        err = max(err, check_pairs(H, Bd, lk.real, np.asarray(vk), tol * 10, **info))
    return {"nt": True, "cls": ["res=" + bres, "rule=" + rule, "rep=" + case["rep"], "brep=" + case["brep"], "kind=" + m["kind"],
                                "cplx" if cplx else "real"] + (["degenerate"] if deg else []) + (target_cls(case, sigma) if sigma is not None else []),
            "err": err}


# ---------------------------------------------------------------------------
# 7. eigen-solve inside the subspace of a projector P (documented option of every backend)
# ---------------------------------------------------------------------------

@st.composite
def s_eigh_projected(draw, tier):
    mat = draw(s_herm_matrix(12, 36, ("spectrum", "gauss", "degenerate", "block_sep")))
    return {"mat": mat, "p": draw(st.integers(8, 11)), "k": draw(st.integers(1, 3)),
            "backend": draw(st.sampled_from(["numpy", "scipy", "lobpcg", None])), "which": draw(st.sampled_from(["SA", "LA"])),
            "rep": draw(st.sampled_from(["dense", "csr", "lazy"])), "prep": draw(st.sampled_from(["dense", "csr", "lazy"])),
            "pkind": draw(st.sampled_from(["isometry", "selection", "isometry_cplx", "isometry_cplx"])), "v0seed": draw(A_.seeds)}


def run_eigh_projected(case):
    qu = Q()
    m = case["mat"]
    H = make_herm(m)
    d = H.shape[0]
    cplx = H.dtype.kind == "c"
    p, k = int(case["p"]), int(case["k"])
    rng = np.random.default_rng(int(m["seed"]) + 3)
    if case["pkind"] == "isometry":
        Pd = np.linalg.qr(_g(rng, cplx, d, p))[0].astype(H.dtype)
    elif case["pkind"] == "isometry_cplx":
        # genuinely complex isometry (also on a real matrix): P+ != P^T
        Pd = np.linalg.qr(_g(rng, True, d, p))[0].astype(np.complex128)
        cplx = True
    else:
        Pd = np.eye(d, dtype=H.dtype)[:, np.sort(rng.choice(d, size=p, replace=False))]
    Hp = Pd.conj().T @ H @ Pd
    ref = np.linalg.eigvalsh(Hp.astype(np.complex128))
    scale = max(float(np.max(np.abs(np.linalg.eigvalsh(H.astype(np.complex128))))), 1e-300)
    A = to_rep(H, case["rep"])
    P = to_rep(Pd, case["prep"])
    kw = {"which": case["which"]}
    backend = case["backend"]
    if backend is not None:
        kw["backend"] = backend
    bres = resolved_backend(H, k, None, None, backend)
    if bres == "SCIPY":
        kw["v0"] = seeded_vec(case["v0seed"], p, cplx)
    if bres == "LOBPCG":
        kw.update(tol=1e-10, maxiter=400, v0=seeded_vec(case["v0seed"], p, cplx, k))
    iterative = bres in ("SCIPY", "LOBPCG")
    tol = INV64 if iterative else EXACT64
    deg = is_degenerate(ref, scale)
    info = dict(backend_resolved=bres, dtype="complex" if cplx else "real", degenerate=deg, rule=case["which"], projected=True)
    lk, vk = call_solver(lambda: qu.eigh(A, k=k, P=P, **kw))
    lk, vk = np.asarray(lk), np.asarray(vk)
    err = select_oracle(lk.real, ref, case["which"], k, None, tol * scale, krylov=bres == "SCIPY", deg=deg, **info) / scale
    check_ascending(lk, **info)
    if vk.shape != (d, k):
        raise Violation("shape", got=list(vk.shape), want=[d, k], **info)
    # returned vectors live in the range of P and solve the projected problem
    w = Pd.conj().T @ vk
    if fro(Pd @ w - vk) > tol * math.sqrt(k):
        raise Violation("outside-subspace", **info)
    err = max(err, check_pairs(Hp, None, lk.real, w, tol, **info))
    return {"nt": True, "cls": ["res=" + bres, "pkind=" + case["pkind"], "rep=" + case["rep"], "prep=" + case["prep"]]
            + (["degenerate"] if deg else []), "err": err}


# ---------------------------------------------------------------------------
# 8/9. general (non-Hermitian) problems
# ---------------------------------------------------------------------------

GKINDS = ("gauss", "normal", "similar_real", "similar_cplx", "triangular", "degenerate_normal")


def make_general(m):
    """dense general matrix + whether its spectrum is known to be well conditioned."""
    d, kind = int(m["d"]), m["kind"]
    dt = np.dtype(m["dtype"])
    cplx = dt.kind == "c"
    rng = np.random.default_rng(int(m["seed"]))
    if kind == "gauss":
        M = _g(rng, cplx, d, d) / math.sqrt(d)
    elif kind == "normal":
        # unitary similarity of a complex diagonal with well separated entries
        lam = _sep_spectrum(rng, d) + 1j * _sep_spectrum(rng, d)[rng.permutation(d)]
        u = np.linalg.qr(_g(rng, True, d, d))[0]
        M = (u * lam) @ u.conj().T
        cplx = True
    elif kind == "degenerate_normal":
        nb = max(1, math.ceil(d / 2))
        lam = np.repeat(_sep_spectrum(rng, nb) + 1j * _sep_spectrum(rng, nb), 2)[:d]
        u = np.linalg.qr(_g(rng, True, d, d))[0]
        M = (u * lam) @ u.conj().T
        cplx = True
    elif kind in ("similar_real", "similar_cplx"):
        # non-normal, cond(S) <= 3: S = U diag(1..3) V+
        lam = _sep_spectrum(rng, d).astype(complex)
        if kind == "similar_cplx":
            lam = lam + 1j * _sep_spectrum(rng, d)[rng.permutation(d)]
            cplx = True
        u = np.linalg.qr(_g(rng, cplx, d, d))[0]
        v = np.linalg.qr(_g(rng, cplx, d, d))[0]
        sv = rng.uniform(1.0, 3.0, size=d)
        S = (u * sv) @ v.conj().T
        Si = (v / sv) @ u.conj().T
        M = (S * lam) @ Si
    elif kind == "triangular":
        M = np.triu(_g(rng, cplx, d, d)) * 0.3
        M[np.diag_indices(d)] = _sep_spectrum(rng, d)
    else:
        raise ValueError(kind)
    if not cplx:
        M = np.real(M)
        return np.ascontiguousarray(M.astype(dt if dt.kind != "c" else dt))
    return np.ascontiguousarray(M.astype(np.complex128 if dt.itemsize >= 8 and dt.name != "complex64" else np.complex64))


@st.composite
def s_general_matrix(draw, dmin, dmax, kinds=GKINDS):
    return {"d": draw(st.integers(dmin, dmax)), "dtype": draw(st.sampled_from(A_.DTYPES64)), "kind": draw(st.sampled_from(kinds)),
            "seed": draw(A_.seeds)}


@st.composite
def s_eig_full(draw, tier):
    return {"mat": draw(s_general_matrix(1, 20 if tier == "quick" else 40)),
            "fn": draw(st.sampled_from(["eig", "eigvals", "eigvecs", "eigensystem"])),
            "rep": draw(st.sampled_from(["dense", "qarray", "dense", "csr"])), "sort": draw(st.sampled_from([True, None, False]))}


def _eig_cond_tol(M):
    """value tolerance for a non-normal matrix: eps * |M| * cond(eigenvectors) (Bauer-Fike), floored at 1e-9 |M|."""
    w, v = np.linalg.eig(M.astype(np.complex128))
    c = np.linalg.cond(v)
    return w, float(max(1e-9, 1e-13 * c)) * max(fro(M), 1e-300), c


def run_eig_full(case):
    qu = Q()
    m = case["mat"]
    M = make_general(m)
    d = M.shape[0]
    ref, vtol, cond = _eig_cond_tol(M)
    if cond > 1e4:
        raise Reject("ill conditioned eigenbasis")
    A = to_rep(M, case["rep"])
    kw = {} if case["sort"] is None else {"sort": case["sort"]}
    fn = case["fn"]
    info = dict(fn=fn, sort=case["sort"], kind=m["kind"])
    lk = vk = None
    info["sparse"] = case["rep"] == "csr"
    try:
        if fn == "eig":
            lk, vk = qu.eig(A, **kw)
        elif fn == "eigvals":
            lk = qu.eigvals(A, **kw)
        elif fn == "eigvecs":
            vk = qu.eigvecs(A, **kw)
        else:
            lk, vk = qu.eigensystem(A, isherm=False, **kw)
    except np.linalg.LinAlgError as e:
        if info["sparse"]:
            raise Violation("refused-documented-input", exc="LinAlgError", **info) from e
        raise
    err = 0.0
    scale = max(fro(M), 1e-300)
    if lk is not None:
        lk = np.asarray(lk)
        if lk.shape != (d,):
            raise Violation("count", got=list(lk.shape), want=[d], **info)
        ok, e = multiset_subset(lk, ref, vtol)
        if not ok:
            raise Violation("selection", clause="spectrum-differs", **info)
        err = max(err, e / scale)
        if case["sort"] is not False:
            check_ascending(lk, **info)
    if vk is not None:
        vk = np.asarray(vk)
        if vk.shape != (d, d):
            raise Violation("shape", got=list(vk.shape), want=[d, d], **info)
        vc = vk.astype(np.complex128)
        if lk is None:
            nn = np.sum(np.abs(vc) ** 2, axis=0)
            if np.any(nn < 1e-20):
                raise Violation("zero-vector", **info)
            l2 = np.sum(vc.conj() * (M.astype(np.complex128) @ vc), axis=0) / nn
        else:
            l2 = lk
        err = max(err, check_pairs(M, None, l2, vk, 1e-9 * max(1.0, cond), gram=False, **info))
        # a genuine eigenbasis: columns normalised and linearly independent
        if np.max(np.abs(np.sqrt(np.sum(np.abs(vc) ** 2, axis=0)) - 1)) > 1e-9:
            raise Violation("unnormalised", **info)
        if np.linalg.cond(vc) > 1e3 * max(cond, 1.0):
            raise Violation("dependent-vectors", **info)
    return {"nt": d >= 2 and (m["kind"] != "gauss" or case["sort"] is False),
            "cls": ["fn=" + fn, "kind=" + m["kind"], "sort=" + str(case["sort"]), "dtype=" + m["dtype"]], "err": err}


@st.composite
def s_eig_partial(draw, tier):
    backend = draw(st.sampled_from(["numpy", "scipy", None]))
    which = draw(st.sampled_from(["LM", "SM", "LR", "SR", "LI", "SI", "TR", "sigma", "sigma"]))
    kinds = ("similar_real", "triangular_real") if which in ("TR", "sigma") else ("normal", "similar_real", "similar_cplx", "gauss")
    if backend in ("scipy", None) and which == "SM":
        kinds = ("normal", "similar_real", "similar_cplx")
    mat = draw(s_general_matrix(10, 36 if tier == "quick" else 60, kinds))
    if backend is None:
        mat["d"] = draw(st.sampled_from([40, 43, 44, 45, 46, 50])) if which not in ("TR", "sigma") else draw(st.sampled_from([30, 99, 100, 101]))
    return {"mat": mat, "backend": backend, "which": which, "k": 1 if backend is None else draw(st.integers(1, 5)),
            "fn": draw(st.sampled_from(["eig", "eig", "eigvals", "eigensystem_partial"])), "rep": draw(st.sampled_from(["dense", "qarray", "csr", "csc", "linop"])),
            "gap": draw(st.integers(-1, 40)), "frac": draw(st.sampled_from([0.3, 0.62, 0.8])), "v0seed": draw(A_.seeds), **s_target(draw)}


def run_eig_partial(case):
    qu = Q()
    m = dict(case["mat"])
    if m["kind"] == "triangular_real":
        m["kind"], m["dtype"] = "triangular", "float64"
    M = make_general(m)
    d = M.shape[0]
    cplx = M.dtype.kind == "c"
    ref, vtol, cond = _eig_cond_tol(M)
    if cond > 1e3:
        raise Reject("ill conditioned eigenbasis")
    k = int(case["k"])
    which = case["which"]
    kw, sigma = {}, None
    if which in ("TR", "sigma"):
        # real spectrum by construction: 'real part nearest sigma' (numpy rule) == 'nearest sigma' (shift-invert)
        if np.max(np.abs(ref.imag)) > 1e-9 * max(fro(M), 1.0):
            raise Reject("target rule only compared on real spectra")
        rule = "TR"
        if which == "TR":
            kw["which"] = "TR"
    else:
        rule = which
        kw["which"] = which
    rep = case["rep"]
    A = to_rep(M, rep)
    backend = case["backend"]
    if backend is not None:
        kw["backend"] = backend
    bres = resolved_backend(A, k, 0.0 if rule == "TR" else None, None, backend)
    if rule == "TR":
        sigma = target_from(case, ref.real, d, 0.03 if bres == "SCIPY" else 0.0)
        kw["sigma"] = sigma
    if bres == "NUMPY" and rep == "linop":
        raise Reject("numpy backend on a LinearOperator")
    if bres == "SCIPY":
        if k > d - 3:
            raise Reject("ARPACK needs k < d-1")
        if rep == "linop" and sigma is not None:
            raise Reject("shift-invert through a LinearOperator (not claimed)")
        if rule == "SM" and np.min(np.abs(ref)) < 0.05:
            raise Reject("SM without shift needs eigenvalues away from zero")
        # a real matrix must be asked for conjugate pairs together: leave k as drawn, compare modulo conjugation below
        kw["v0"] = seeded_vec(case["v0seed"], d, cplx)
    tol = INV64 if bres == "SCIPY" else EXACT64
    info = dict(backend_resolved=bres, rule=rule, rep=rep, kind=m["kind"], herm=False, fn=case["fn"])
    if case["fn"] == "eig":
        lk, vk = call_solver(lambda: qu.eig(A, k=k, **kw))
    elif case["fn"] == "eigensystem_partial":
        lk, vk = call_solver(lambda: qu.eigensystem_partial(A, k, False, **kw))
    else:
        lk, vk = call_solver(lambda: qu.eigvals(A, k=k, **kw)), None
    lk = np.asarray(lk)
    scale = max(fro(M), 1e-300)
    vt = max(vtol, tol * scale * 1e-2)
    refsel = ref
    if not cplx and bres == "SCIPY" and rule in ("LI", "SI"):
        # real matrix: members of a conjugate pair are the same Ritz pair for ARPACK's real driver
        raise Reject("imaginary-part rules on a real matrix are conjugation ambiguous")
    if not cplx and np.max(np.abs(ref.imag)) > vt and rule in ("LM", "SM", "LR", "SR"):
        # conjugate pairs tie exactly under these rules: handled by the tie band of the selection oracle
        pass
    weak_sm = bres == "SCIPY" and rule == "SM" and d > 20  # see run_eigh_partial
    err = select_oracle(lk, refsel, rule, k, sigma, vt, weak=weak_sm, **info) / scale
    check_ascending(lk, **info)
    if vk is not None:
        vk = np.asarray(vk)
        err = max(err, check_pairs(M, None, lk, vk, tol * max(1.0, cond), gram=False, **info))
        nn = np.sqrt(np.sum(np.abs(vk.astype(np.complex128)) ** 2, axis=0))
        if np.any(nn < 1e-6):
            raise Violation("zero-vector", **info)
    return {"nt": True, "cls": ["res=" + bres, "rule=" + rule + ("(sigma only)" if which == "sigma" else ""), "rep=" + rep, "kind=" + m["kind"],
                                "fn=" + case["fn"]] + (target_cls(case, sigma) if sigma is not None else []), "err": err}


# ---------------------------------------------------------------------------
# 10. groundstate / groundenergy / bound_spectrum
# ---------------------------------------------------------------------------

@st.composite
def s_ground(draw, tier):
    backend = draw(st.sampled_from(["numpy", "scipy", "lobpcg", None, "auto"]))
    if backend in (None, "auto"):
        d = draw(st.sampled_from([12, 30, 43, 44, 45, 46, 60]))
        kinds = HKINDS_ITER
    elif backend == "numpy":
        d = draw(st.integers(2, 30))
        kinds = HKINDS
    else:
        d = draw(st.integers(12, 48))
        kinds = HKINDS_ITER
    return {"mat": {"d": d, "dtype": draw(st.sampled_from(A_.DTYPES64)), "kind": draw(st.sampled_from(kinds)), "seed": draw(A_.seeds),
                    "mult": draw(st.sampled_from([2, 3]))},
            "backend": backend, "fn": draw(st.sampled_from(["groundstate", "groundenergy", "bound_spectrum"])),
            "rep": draw(st.sampled_from(["dense", "qarray", "csr", "csc", "linop", "lazy"])), "v0seed": draw(A_.seeds)}


def run_ground(case):
    qu = Q()
    m = case["mat"]
    H = make_herm(m)
    d = H.shape[0]
    cplx = H.dtype.kind == "c"
    ref = np.linalg.eigvalsh(H.astype(np.complex128))
    scale = max(float(np.max(np.abs(ref))), 1e-300)
    rep, backend, fn = case["rep"], case["backend"], case["fn"]
    A = to_rep(H, rep)
    kw = {}
    if backend is not None or fn == "bound_spectrum":
        if backend is not None:
            kw["backend"] = backend
    bres = resolved_backend(A if rep != "lazy" else H, 1, None, None, backend)
    if bres == "NUMPY" and rep == "linop":
        raise Reject("numpy backend on a LinearOperator")
    if bres in ("SCIPY", "LOBPCG") and d < 8:
        raise Reject("iterative solver needs k <= d-2")
    if bres == "SCIPY" or backend in (None, "auto"):
        kw["v0"] = seeded_vec(case["v0seed"], d, cplx)
    if bres == "LOBPCG":
        kw.update(tol=1e-10, maxiter=400, v0=seeded_vec(case["v0seed"], d, cplx, 1))
    tol = INV64 if bres in ("SCIPY", "LOBPCG") else EXACT64
    info = dict(backend_resolved=bres, fn=fn, rep=rep, dtype="complex" if cplx else "real")
    if fn == "groundenergy":
        e0 = call_solver(lambda: qu.groundenergy(A, **kw))
        if np.ndim(e0) != 0:
            raise Violation("shape", got=list(np.shape(e0)), want=[], **info)
        err = abs(float(np.real(e0)) - ref[0]) / scale
        if not err <= tol:
            raise Violation("selection", clause="not-the-smallest", err=err, **info)
    elif fn == "bound_spectrum":
        lo, hi = call_solver(lambda: qu.bound_spectrum(A, **kw))
        err = max(abs(float(np.real(lo)) - ref[0]), abs(float(np.real(hi)) - ref[-1])) / scale
        if not err <= tol:
            raise Violation("selection", clause="not-the-extremes", err=err, **info)
    else:
        v = np.asarray(call_solver(lambda: qu.groundstate(A, **kw)))
        if v.shape != (d, 1):
            raise Violation("shape", got=list(v.shape), want=[d, 1], **info)
        vc = v.astype(np.complex128)
        e0 = float(np.real(vc.conj().T @ H.astype(np.complex128) @ vc)[0, 0])
        err = check_pairs(H, None, np.array([e0]), v, tol, **info)
        # lowest eigenvalue: Rayleigh quotient of a normalised eigenvector of the lowest level
        e2 = abs(e0 - ref[0]) / scale
        if not e2 <= tol:
            raise Violation("selection", clause="not-the-smallest", err=e2, **info)
        err = max(err, e2)
    deg = is_degenerate(ref, scale)
    return {"nt": bool(deg or backend in (None, "auto") or m["kind"].startswith("block")),
            "cls": ["res=" + bres, "fn=" + fn, "rep=" + rep, "kind=" + m["kind"]] + (["degenerate"] if deg else []), "err": err}


# ---------------------------------------------------------------------------
# 11. relative spectral windows
# ---------------------------------------------------------------------------

@st.composite
def s_window(draw, tier):
    rep = draw(st.sampled_from(["dense", "qarray", "csr", "csc"]))
    if rep in ("dense", "qarray"):
        d = draw(st.integers(4, 40))
        backend = draw(st.sampled_from([None, "numpy", "scipy"]))
    else:
        backend = draw(st.sampled_from([None, "AUTO", "numpy", "scipy"]))
        d = draw(st.sampled_from([12, 20, 30, 44, 46, 60, 99, 101])) if backend in (None, "AUTO") else draw(st.integers(12, 48))
    return {"mat": {"d": d, "dtype": draw(st.sampled_from(A_.DTYPES64)), "kind": draw(st.sampled_from(HKINDS_ITER)),
                    "seed": draw(A_.seeds), "mult": draw(st.sampled_from([2, 3]))},
            "rep": rep, "backend": backend, "w0": draw(st.sampled_from([0.0, 0.1, 0.25, 0.33, 0.5, 0.5, 0.7, 0.9, 1.0])),
            "k": draw(st.integers(1, 6)), "wsz": draw(st.sampled_from([None, 0.05, 0.1, 0.2, 0.3, 0.5, 1.0])),
            "fn": draw(st.sampled_from(["eigh_window", "eigvalsh_window", "eigvecsh_window"])), "v0seed": draw(A_.seeds)}


def run_window(case):
    qu = Q()
    m = case["mat"]
    H = make_herm(m)
    d = H.shape[0]
    cplx = H.dtype.kind == "c"
    ref = np.linalg.eigvalsh(H.astype(np.complex128))
    R = float(ref[-1] - ref[0])
    scale = max(float(np.max(np.abs(ref))), 1e-300)
    rep, backend, fn = case["rep"], case["backend"], case["fn"]
    k, w0, wsz = int(case["k"]), float(case["w0"]), case["wsz"]
    A = to_rep(H, rep)
    dense_path = rep in ("dense", "qarray") or (backend or "AUTO").upper() == "NUMPY"
    kw = {}
    if backend is not None:
        kw["backend"] = backend
    if wsz is not None:
        kw["w_sz"] = wsz
    bres = "NUMPY(full)" if dense_path else resolved_backend(A, k, 0.0, None, backend)
    if not dense_path:
        if k > d - 3:
            raise Reject("iterative solver needs k <= d-2")
        kw["v0"] = seeded_vec(case["v0seed"], d, cplx)
    tol = EXACT64 if dense_path or bres == "NUMPY" else INV64
    deg = is_degenerate(ref, scale)
    info = dict(backend_resolved=bres, fn=fn, rep=rep, dtype="complex" if cplx else "real", degenerate=deg, window=True)
    lk = vk = None
    if fn == "eigh_window":
        lk, vk = call_solver(lambda: qu.eigh_window(A, w0, k, **kw))
    elif fn == "eigvalsh_window":
        lk = call_solver(lambda: qu.eigvalsh_window(A, w0, k, **kw))
    else:
        vk = call_solver(lambda: qu.eigvecsh_window(A, w0, k, **kw))
    w = 1.1 if wsz is None else float(wsz)
    c = ref[0] + w0 * R
    lo, hi = c - w * R / 2, c + w * R / 2
    vt = tol * scale
    band = 10 * vt
    inside_may = ref[(ref > lo - band) & (ref < hi + band)]
    inside_must = ref[(ref > lo + band) & (ref < hi - band)]
    if lk is None:
        vc = np.asarray(vk).astype(np.complex128)
        lk = np.real(np.sum(vc.conj() * (H.astype(np.complex128) @ vc), axis=0))
        vt, band = 10 * vt, 10 * band
    lk = np.asarray(lk).real
    # (1) nothing from outside the window
    ok, e1 = multiset_subset(lk, inside_may, vt)
    if not ok:
        raise Violation("selection", clause="value-outside-window", **info)
    # (2) accepted outcomes: everything inside the window (dense route), or the k values nearest the centre that lie inside
    ok_all, _ = multiset_subset(inside_must, lk, vt)
    if not ok_all:
        dist = np.abs(ref - c)
        kb = np.sort(dist)[min(k, d) - 1]
        tie = R / 104729 * 2 + band  # documented offset_const moves the target by R/104729
        need = ref[(dist < kb - tie) & (ref > lo + band) & (ref < hi - band)]
        ok_k, _ = multiset_subset(need, lk, vt)
        if not ok_k or lk.size > k:
            if bres == "SCIPY" and deg and lk.size <= k and multiset_subset(np.unique(np.round(need / band)) * band, lk, 2 * band)[0]:
                # every required level is present, only a copy of a degenerate level is missing (single-vector Krylov)
                raise Violation("selection", clause="degenerate-copy-missed", got=int(lk.size), **info)
            raise Violation("selection", clause="requested-value-missing", got=int(lk.size), **info)
    if lk.size > 1 and not np.all(np.diff(lk) >= (-band if fn == "eigvecsh_window" else 0.0)):
        raise Violation("sorted", **info)
    err = e1 / scale
    if vk is not None:
        err = max(err, check_pairs(H, None, lk, np.asarray(vk), tol, **info))
    return {"nt": bool(lk.size >= 1 and (wsz is not None or deg)), "cls": ["res=" + bres, "fn=" + fn, "rep=" + rep, "kind=" + m["kind"],
                                                                         "wsz=" + str(wsz), "n=" + str(min(int(lk.size), 7))]
            + (["degenerate"] if deg else []), "err": err}


# ---------------------------------------------------------------------------
# 12/13. singular value decompositions
# ---------------------------------------------------------------------------

RKINDS = ("gauss", "rank_k", "degenerate", "spread", "isometry", "sep")


def make_rect(m):
    mm, nn, kind = int(m["m"]), int(m["n"]), m["kind"]
    if kind == "sep":
        rng = np.random.default_rng(int(m["seed"]))
        cplx = np.dtype(m["dtype"]).kind == "c"
        k = min(mm, nn)
        u = np.linalg.qr(_g(rng, cplx, mm, k))[0]
        v = np.linalg.qr(_g(rng, cplx, nn, k))[0]
        sv = np.sort(np.cumsum(rng.uniform(0.3, 1.0, size=k)))[::-1]
        return np.ascontiguousarray(((u * sv) @ v.conj().T).astype(m["dtype"]))
    return A_.make_matrix(m["seed"], kind, mm, nn, m["dtype"], rank=m.get("rank"))


def check_triplets(M, U, sv, VH, tol, **info):
    M = M.astype(np.complex128)
    U = np.asarray(U).astype(np.complex128)
    VH = np.asarray(VH).astype(np.complex128)
    sv = np.asarray(sv)
    k = sv.size
    if U.shape != (M.shape[0], k) or VH.shape != (k, M.shape[1]):
        raise Violation("shape", got=[list(U.shape), list(VH.shape)], want=[[M.shape[0], k], [k, M.shape[1]]], **info)
    scale = max(fro(M), 1e-300)
    r1 = fro(M @ VH.conj().T - U * sv) / scale
    r2 = fro(M.conj().T @ U - VH.conj().T * sv) / scale
    g1 = fro(U.conj().T @ U - np.eye(k)) / max(1.0, math.sqrt(k))
    g2 = fro(VH @ VH.conj().T - np.eye(k)) / max(1.0, math.sqrt(k))
    for nm, e in (("residual", max(r1, r2)), ("gram", max(g1, g2))):
        if not e <= tol:
            raise Violation(nm, err=e, tol=tol, **info)
    return max(r1, r2, g1, g2)


def check_desc(sv, **info):
    sv = np.asarray(sv)
    if sv.size > 1 and not np.all(np.diff(sv) <= 0):
        raise Violation("sorted", **info)
    if sv.size and np.min(sv) < 0:
        raise Violation("negative-singular-value", **info)


@st.composite
def s_rect(draw, lo, hi, kinds=RKINDS, dtypes=A_.DTYPES64):
    return {"m": draw(st.integers(lo, hi)), "n": draw(st.integers(lo, hi)), "kind": draw(st.sampled_from(kinds)),
            "dtype": draw(st.sampled_from(dtypes)), "seed": draw(A_.seeds), "rank": draw(st.integers(1, 6))}


@st.composite
def s_svd_full(draw, tier):
    return {"mat": draw(s_rect(1, 24, RKINDS + ("zeros", "identity"), A_.DTYPES)), "return_vecs": draw(st.booleans()),
            "rep": draw(st.sampled_from(["dense", "qarray"]))}


def run_svd_full(case):
    qu = Q()
    m = case["mat"]
    M = make_rect(m)
    single = m["dtype"] in ("float32", "complex64")
    tol = EXACT32 if single else EXACT64
    ref = np.linalg.svd(M.astype(np.complex128), compute_uv=False)
    scale = max(float(ref[0]) if ref.size else 0.0, 1e-300)
    A = to_rep(M, case["rep"])
    info = dict(fn="svd", kind=m["kind"], return_vecs=case["return_vecs"])
    out = qu.svd(A, return_vecs=case["return_vecs"])
    if case["return_vecs"]:
        U, sv, VH = out
    else:
        U, sv, VH = None, out, None
    sv = np.asarray(sv)
    if sv.shape != ref.shape:
        raise Violation("count", got=list(sv.shape), want=list(ref.shape), **info)
    check_desc(sv, **info)
    err = float(np.max(np.abs(sv - ref), initial=0.0)) / scale
    if not err <= tol:
        raise Violation("selection", clause="singular-values-differ", err=err, **info)
    if U is not None:
        err = max(err, check_triplets(M, U, sv, VH, tol, **info))
        err = max(err, rel_err((np.asarray(U) * sv) @ np.asarray(VH), M, floor=fro(M)))
        if not err <= tol:
            raise Violation("reconstruct", err=err, **info)
    return {"nt": min(M.shape) >= 2 and m["kind"] in ("rank_k", "degenerate", "isometry", "zeros", "identity"),
            "cls": ["kind=" + m["kind"], "dtype=" + m["dtype"], "vecs=" + str(case["return_vecs"])], "err": err}


@st.composite
def s_svds(draw, tier):
    backend = draw(st.sampled_from(["numpy", "scipy", "AUTO", "auto", None]))
    if backend in ("AUTO", "auto", None):
        # choose_backend(A, k) looks at A.shape[0]**2 / k < 2000
        k = draw(st.sampled_from([1, 2]))
        mm = math.isqrt(2000 * k) + draw(st.sampled_from([-6, -1, 0, 1, 2, 5]))
        mat = {"m": mm, "n": draw(st.sampled_from([12, 30, mm])), "kind": draw(st.sampled_from(["sep", "degenerate", "gauss"])),
               "dtype": draw(st.sampled_from(A_.DTYPES64)), "seed": draw(A_.seeds), "rank": 3}
    else:
        mat = draw(s_rect(8, 36, ("sep", "gauss", "degenerate", "sep")))
        k = draw(st.integers(1, 5))
    return {"mat": mat, "backend": backend, "k": k, "return_vecs": draw(st.booleans()),
            "rep": draw(st.sampled_from(["dense", "qarray", "csr", "csc", "linop", "aslinop"])), "v0seed": draw(A_.seeds)}


def run_svds(case):
    qu = Q()
    m = case["mat"]
    M = make_rect(m)
    mm, nn = M.shape
    cplx = M.dtype.kind == "c"
    k = int(case["k"])
    rep, backend = case["rep"], case["backend"]
    A = to_rep(M, rep)
    ref = np.linalg.svd(M.astype(np.complex128), compute_uv=False)
    scale = max(float(ref[0]), 1e-300)
    kw = {}
    if backend is not None:
        kw["backend"] = backend
    from quimb.linalg.base_linalg import choose_backend

    bres = backend.upper() if backend not in (None, "auto", "AUTO") else choose_backend(A, k, False)
    if bres == "NUMPY" and rep in ("linop", "aslinop"):
        raise Reject("numpy backend on a LinearOperator")
    if bres == "SCIPY":
        if k > min(mm, nn) - 2:
            raise Reject("ARPACK needs k < min(shape)-1")
        kw["v0"] = seeded_vec(case["v0seed"], min(mm, nn), cplx)
    tol = INV64 if bres == "SCIPY" else EXACT64
    deg = bool(ref.size > 1 and np.min(np.abs(np.diff(ref))) < 1e-8 * scale)
    info = dict(fn="svds", backend_resolved=bres, rep=rep, dtype="complex" if cplx else "real", degenerate=deg, return_vecs=case["return_vecs"])
    out = call_solver(lambda: qu.svds(A, k, return_vecs=case["return_vecs"], **kw))
    if case["return_vecs"]:
        U, sv, VH = out
    else:
        U, sv, VH = None, out, None
    sv = np.asarray(sv)
    kk = min(k, ref.size)
    if sv.shape != (kk,):
        raise Violation("count", got=list(sv.shape), want=[kk], **info)
    check_desc(sv, **info)
    err = float(np.max(np.abs(sv - ref[:kk]), initial=0.0)) / scale
    if not err <= tol:
        if bres == "SCIPY" and deg:
            check_selection_levels(sv, ref, "LA", kk, None, tol * scale, **info)
            raise Violation("selection", clause="degenerate-copy-missed", **info)
        raise Violation("selection", clause="not-the-largest", err=err, **info)
    if U is not None:
        err = max(err, check_triplets(M, U, sv, VH, tol, **info))
    auto = backend in (None, "auto", "AUTO")
    return {"nt": bool(deg or auto or rep not in ("dense", "qarray")), "cls": ["res=" + bres, "rep=" + rep, "kind=" + m["kind"],
            "vecs=" + str(case["return_vecs"])] + (["degenerate"] if deg else []) + (["auto"] if auto else []), "err": err}


# ---------------------------------------------------------------------------
# 14. norms
# ---------------------------------------------------------------------------

NTYPES = [2, "2", "spectral", "f", "fro", "t", "nuc", "tr", "trace"]


@st.composite
def s_norm(draw, tier):
    nt = draw(st.sampled_from(NTYPES))
    herm = draw(st.booleans())
    rep = draw(st.sampled_from(["dense", "qarray", "csr", "csc"] if nt not in ("t", "nuc", "tr", "trace") else ["dense", "qarray"]))
    if herm:
        mat = draw(s_herm_matrix(2, 60, ("gauss", "degenerate", "psd", "block", "spectrum")))
    else:
        mat = draw(s_rect(2, 60, ("gauss", "rank_k", "degenerate", "sep")))
        if nt in (2, "2", "spectral"):
            pass
    return {"ntype": nt, "herm": herm, "mat": mat, "rep": rep, "isherm_kw": draw(st.booleans()), "v0seed": draw(A_.seeds)}


def run_norm(case):
    qu = Q()
    m = case["mat"]
    M = make_herm(m) if case["herm"] else make_rect(m)
    if not case["herm"] and case["ntype"] in ("t", "nuc", "tr", "trace") and M.shape[0] != M.shape[1]:
        pass
    cplx = M.dtype.kind == "c"
    svals = np.linalg.svd(M.astype(np.complex128), compute_uv=False)
    nt = case["ntype"]
    A = to_rep(M, case["rep"])
    kw = {}
    cls = "2" if nt in (2, "2", "spectral") else "f" if nt in ("f", "fro") else "t"
    if cls == "2":
        want = float(svals[0])
        from quimb.linalg.base_linalg import choose_backend

        bres = choose_backend(A, 1, False)
        if bres == "SCIPY":
            if min(M.shape) < 4:
                raise Reject("ARPACK needs k < min(shape)-1")
            kw["v0"] = seeded_vec(case["v0seed"], min(M.shape), cplx)
        tol = INV64 if bres == "SCIPY" else EXACT64
    elif cls == "f":
        want, bres, tol = float(np.sqrt(np.sum(svals ** 2))), "-", EXACT64
    else:
        want, bres, tol = float(np.sum(svals)), "-", EXACT64
        if case["herm"] and case["isherm_kw"]:
            kw["isherm"] = True
    got = call_solver(lambda: qu.norm(A, nt, **kw))
    info = dict(fn="norm", ntype=str(nt), rep=case["rep"], backend_resolved=bres)
    if np.ndim(got) != 0 or not np.isfinite(got):
        raise Violation("shape", got=repr(got)[:50], **info)
    err = abs(float(np.real(got)) - want) / max(float(np.sqrt(np.sum(svals ** 2))), 1e-300)
    if not err <= tol:
        raise Violation("value", err=err, **info)
    return {"nt": True, "cls": ["ntype=" + str(nt), "rep=" + case["rep"], "res=" + bres, "herm" if case["herm"] else "rect"] + (["isherm=True"] if kw.get("isherm") else []),
            "err": err}


# ---------------------------------------------------------------------------
# 15-17. matrix functions
# ---------------------------------------------------------------------------

def expm_taylor(M):
    """own scaling-and-squaring Taylor series (independent of scipy's Pade implementation)."""
    M = np.asarray(M, dtype=np.complex128)
    n = M.shape[0]
    nrm = float(np.linalg.norm(M, 1)) if n else 0.0
    s = max(0, int(math.ceil(math.log2(max(nrm, 1e-300)))) + 2) if nrm > 0 else 0
    X = M / (2.0 ** s)
    out = np.eye(n, dtype=np.complex128)
    term = np.eye(n, dtype=np.complex128)
    for j in range(1, 26):
        term = term @ X / j
        out = out + term
    for _ in range(s):
        out = out @ out
    return out


def make_exp_arg(m):
    """matrix with |M|_2 == m['norm'] <= 3: Hermitian (times a real/imaginary/complex factor) or general."""
    d = int(m["d"])
    rng = np.random.default_rng(int(m["seed"]))
    cplx = np.dtype(m["dtype"]).kind == "c"
    kind = m["kind"]
    herm = False
    if kind in ("herm", "iherm", "neg_psd"):
        a = _g(rng, cplx, d, d)
        M = (a + a.conj().T) / 2
        if kind == "neg_psd":
            M = -(a @ a.conj().T)
        herm = True
    elif kind == "general":
        M = _g(rng, cplx, d, d)
    elif kind == "nilpotent":
        M = np.triu(_g(rng, cplx, d, d), 1)
    elif kind == "zero":
        M = np.zeros((d, d))
    elif kind == "sparse":
        M = _g(rng, cplx, d, d) * (rng.random((d, d)) < 0.2)
    else:
        raise ValueError(kind)
    n2 = np.linalg.norm(M, 2) if d and np.any(M) else 0.0
    if n2 > 0:
        M = M * (float(m["norm"]) / n2)
    if kind == "iherm":
        M = -1j * M
        herm = False
    dt = np.dtype(m["dtype"])
    if np.iscomplexobj(M) and dt.kind != "c":
        dt = np.dtype(np.complex128)
    return np.ascontiguousarray(M.astype(dt)), herm


EKINDS = ("herm", "iherm", "neg_psd", "general", "nilpotent", "zero", "sparse")


@st.composite
def s_exp_arg(draw, dmax):
    return {"d": draw(st.integers(1, dmax)), "dtype": draw(st.sampled_from(A_.DTYPES64)), "kind": draw(st.sampled_from(EKINDS)),
            "seed": draw(A_.seeds), "norm": draw(st.sampled_from([0.01, 0.5, 1.0, 2.0, 3.0]))}


@st.composite
def s_expm(draw, tier):
    # the three code routes are constructed, not hoped for: general dense, Hermitian shortcut (dense only), sparse
    route = draw(st.sampled_from(["dense", "herm", "herm", "sparse"]))
    mat = draw(s_exp_arg(16 if tier == "quick" else 32))
    if route == "herm":
        mat["kind"] = draw(st.sampled_from(["herm", "herm", "neg_psd"]))
        mat["dtype"] = draw(st.sampled_from(["complex128", "complex128", "float64"]))
        mat["d"] = max(2, mat["d"])
    rep = draw(st.sampled_from(["csr", "csc", "coo"] if route == "sparse" else ["dense", "qarray"]))
    return {"mat": mat, "rep": rep, "herm_flag": route == "herm" or draw(st.booleans())}


def run_expm(case):
    import scipy.sparse as sp

    qu = Q()
    m = case["mat"]
    M, herm = make_exp_arg(m)
    d = M.shape[0]
    A = to_rep(M, case["rep"])
    use_herm = bool(case["herm_flag"] and herm)
    info = dict(fn="expm", rep=case["rep"], herm=use_herm, kind=m["kind"])
    herm_route = use_herm and case["rep"] in ("dense", "qarray")
    got = qu.expm(A, herm=True) if use_herm else qu.expm(A)
    sparse_in = case["rep"] in ("csr", "csc", "coo")
    if sparse_in != sp.issparse(got):
        raise Violation("representation", got=type(got).__name__, **info)
    G = got.toarray() if sp.issparse(got) else np.asarray(got)
    if G.shape != (d, d):
        raise Violation("shape", got=list(G.shape), want=[d, d], **info)
    ref = expm_taylor(M)
    floor = math.exp(float(m["norm"])) if np.any(M) else 1.0
    err = rel_err(G, ref, floor=floor)
    if not err <= EXACT64:
        raise Violation("value", err=err, **info)
    return {"nt": d >= 2 and m["kind"] != "zero", "cls": ["kind=" + m["kind"], "rep=" + case["rep"], "herm=" + str(use_herm), "norm=" + str(m["norm"])]
            + (["herm-shortcut:" + ("cplx" if M.dtype.kind == "c" else "real")] if herm_route else []),
            "err": err}


@st.composite
def s_expm_multiply(draw, tier):
    return {"mat": draw(s_exp_arg(24 if tier == "quick" else 48)),
            "rep": draw(st.sampled_from(["dense", "qarray", "csr", "csc", "linop", "aslinop"])),
            "vform": draw(st.sampled_from(["1d", "ket", "qket", "block"])), "vseed": draw(A_.seeds),
            "backend": draw(st.sampled_from([None, "AUTO", "SCIPY", "scipy", "auto"])), "vcplx": draw(st.booleans())}


def run_expm_multiply(case):
    qu = Q()
    m = case["mat"]
    M, _ = make_exp_arg(m)
    d = M.shape[0]
    rng = np.random.default_rng(int(case["vseed"]))
    vf = case["vform"]
    shape = (d,) if vf == "1d" else (d, 3) if vf == "block" else (d, 1)
    v = _g(rng, case["vcplx"], *shape)
    if vf == "qket":
        v = qu.qarray(v)
    A = to_rep(M, case["rep"])
    kw = {}
    if case["backend"] is not None:
        kw["backend"] = case["backend"]
    if case["rep"] in ("linop", "aslinop"):
        kw["traceA"] = complex(np.trace(M)) if np.iscomplexobj(M) else float(np.trace(M))
    info = dict(fn="expm_multiply", rep=case["rep"], vform=vf, kind=m["kind"])
    try:
        got = np.asarray(qu.expm_multiply(A, v, **kw))
    except KeyError as e:
        # backend names are case-insensitive everywhere ('scipy' works here, bound_spectrum's own default is 'auto')
        raise Violation("refused-documented-input", exc="KeyError", backend=str(case["backend"]), **info) from e
    want = expm_taylor(M) @ np.asarray(v)
    if got.shape != want.shape:
        raise Violation("shape", got=list(got.shape), want=list(want.shape), **info)
    floor = (math.exp(float(m["norm"])) if np.any(M) else 1.0) * fro(v)
    err = rel_err(got, want, floor=floor)
    if not err <= EXACT64:
        raise Violation("value", err=err, **info)
    return {"nt": d >= 2 and m["kind"] != "zero", "cls": ["kind=" + m["kind"], "rep=" + case["rep"], "v=" + vf, "backend=" + str(case["backend"])],
            "err": err}


@st.composite
def s_sqrtm(draw, tier):
    kind = draw(st.sampled_from(["psd", "psd_sep", "spectrum", "gauss", "degenerate", "near_identity", "square_of", "rank_def"]))
    return {"d": draw(st.integers(1, 20)), "dtype": draw(st.sampled_from(A_.DTYPES64)), "kind": kind, "seed": draw(A_.seeds),
            "mult": 2, "herm_flag": draw(st.sampled_from([None, True, False])), "rep": draw(st.sampled_from(["dense", "qarray", "csr"]))}


def run_sqrtm(case):
    qu = Q()
    d, kind = int(case["d"]), case["kind"]
    cplx = np.dtype(case["dtype"]).kind == "c"
    rng = np.random.default_rng(int(case["seed"]) + 5)
    herm_in = kind in ("psd", "psd_sep", "spectrum", "gauss", "degenerate", "rank_def")
    if kind == "rank_def":
        a = _g(rng, cplx, d, max(1, d // 2))
        M = (a @ a.conj().T).astype(case["dtype"])
    elif herm_in:
        M = make_herm(case)
    elif kind == "near_identity":
        g = _g(rng, cplx, d, d)
        M = (np.eye(d) * rng.uniform(0.8, 2.0) + 0.3 * g / max(np.linalg.norm(g, 2), 1e-300)).astype(case["dtype"])
    else:  # square of a well conditioned matrix with spectrum in the right half plane
        g = _g(rng, cplx, d, d)
        r = np.eye(d) * 1.5 + 0.4 * g / max(np.linalg.norm(g, 2), 1e-300)
        M = (r @ r).astype(case["dtype"])
    hf = case["herm_flag"]
    if hf is True and not herm_in:
        hf = False
    if hf is None and not herm_in:
        hf = False  # default herm=True is only valid for Hermitian input
    if hf is False and herm_in and kind in ("rank_def",):
        raise Reject("general sqrtm of a singular matrix is not well defined")
    if hf is False and herm_in and kind in ("spectrum", "gauss", "degenerate"):
        hf = True  # indefinite: eigenvalues on the negative real axis (general algorithm's branch cut) -> Hermitian route only
    info = dict(fn="sqrtm", kind=kind, herm=hf, rep=case["rep"])
    A = to_rep(M, case["rep"])
    kw = {} if hf is None else {"herm": hf}
    if case["rep"] == "csr":
        # documented: no sparse sqrtm
        try:
            qu.sqrtm(A, **kw)
        except NotImplementedError:
            return {"nt": False, "cls": ["sparse-refused"], "err": 0.0}
        raise Violation("sparse-accepted", **info)
    S = np.asarray(qu.sqrtm(A, **kw))
    d = M.shape[0]
    if S.shape != (d, d):
        raise Violation("shape", got=list(S.shape), want=[d, d], **info)
    Sc = S.astype(np.complex128)
    err = rel_err(Sc @ Sc, M, floor=fro(M))
    tol = EXACT64 if hf is not False else INV64
    if not err <= tol:
        raise Violation("value", err=err, **info)
    return {"nt": d >= 2, "cls": ["kind=" + kind, "herm=" + str(hf), "cplx" if cplx else "real"], "err": err}


# ---------------------------------------------------------------------------
# 18. automatic block diagonalisation
# ---------------------------------------------------------------------------

@st.composite
def s_autoblock(draw, tier):
    return {"mat": draw(s_herm_matrix(1, 24 if tier == "quick" else 40, ("block", "block_chain", "block_chain", "block_sep", "degenerate", "gauss", "identity", "diag"))),
            "fn": draw(st.sampled_from(["eigh", "eigvalsh", "eigvecsh", "eigensystem"])), "sort": draw(st.sampled_from([True, None, False])),
            "rep": draw(st.sampled_from(["dense", "qarray"]))}


def run_autoblock(case):
    qu = Q()
    m = dict(case["mat"])
    if m["kind"] == "diag":
        rng = np.random.default_rng(int(m["seed"]))
        H = np.diag(rng.normal(size=int(m["d"]))).astype(m["dtype"])
    else:
        H = make_herm(m)
    d = H.shape[0]
    cplx = H.dtype.kind == "c"
    ref = np.linalg.eigvalsh(H.astype(np.complex128))
    scale = max(float(np.max(np.abs(ref))), 1e-300)
    A = to_rep(H, case["rep"])
    kw = {"autoblock": True}
    if case["sort"] is not None:
        kw["sort"] = case["sort"]
    fn = case["fn"]
    info = dict(fn=fn, autoblock=True, dtype="complex" if cplx else "real", sort=case["sort"])
    lk = vk = None
    try:
        if fn == "eigh":
            lk, vk = qu.eigh(A, **kw)
        elif fn == "eigvalsh":
            lk = qu.eigvalsh(A, **kw)
        elif fn == "eigvecsh":
            vk = qu.eigvecsh(A, **kw)
        else:
            lk, vk = qu.eigensystem(A, isherm=True, **kw)
    except Exception as e:  # numba TypingError is not importable without numba internals; classify by name
        if type(e).__name__ == "TypingError":
            raise Violation("refused-documented-input", exc="TypingError", **info) from e
        raise
    err = 0.0
    tol = EXACT64
    if lk is not None:
        lk = np.asarray(lk)
        if lk.shape != (d,):
            raise Violation("count", got=list(lk.shape), want=[d], **info)
        ok, e = multiset_subset(lk.real, ref, tol * scale)
        if not ok:
            raise Violation("selection", clause="spectrum-differs", **info)
        err = e / scale
        if case["sort"] is not False:
            check_ascending(lk, **info)
    if vk is not None:
        vk = np.asarray(vk)
        if vk.shape != (d, d):
            raise Violation("shape", got=list(vk.shape), want=[d, d], **info)
        vc = vk.astype(np.complex128)
        l2 = lk.real if lk is not None else np.real(np.sum(vc.conj() * (H.astype(np.complex128) @ vc), axis=0))
        err = max(err, check_pairs(H, None, l2, vk, tol, **info))
        if lk is None:
            ok, e = multiset_subset(l2, ref, 10 * tol * scale)
            if not ok:
                raise Violation("selection", clause="spectrum-differs", **info)
            if case["sort"] is not False and l2.size > 1 and not np.all(np.diff(l2) >= -tol * scale):
                raise Violation("sorted", **info)
    nblocks = "1" if m["kind"] == "gauss" else ">1"
    return {"nt": d >= 2 and m["kind"] != "gauss", "cls": ["fn=" + fn, "kind=" + m["kind"], "cplx" if cplx else "real", "sort=" + str(case["sort"]),
                                                             "blocks" + nblocks], "err": err}


# ---------------------------------------------------------------------------
# 19/20. randomised SVD and rank estimation
# ---------------------------------------------------------------------------

def adaptive_classes(k_start, k_incr, k_max, r, use_qb):
    """Replays rsvd_iterate's documented rank schedule (k_start, k_start, round(k_incr*k), ...) on an exact rank-r input
    - used ONLY to label a case, never as an oracle.  Returns (svd_mode, single_row): whether a continuation block is
    taken in 'SVD mode' (rank >= use_qb, or use_qb false), and whether the first QB block has a single row."""
    def steps():
        yield k_start
        st_ = k_start
        while True:
            yield st_
            st_ = round(k_incr * st_)
    g = steps()
    rank = next(g)
    svd_mode = False
    while rank <= r and rank < k_max:
        rank += min(next(g), k_max - rank)
        if not ((rank < use_qb) or (use_qb is True)):
            svd_mode = True
    return svd_mode, bool(use_qb) and k_start == 1 and k_max > 1


def make_lowrank(m):
    """exact rank r with singular values in [0.5, 2] (clear gap to zero)."""
    mm, nn, r = int(m["m"]), int(m["n"]), int(m["r"])
    r = max(1, min(r, mm, nn))
    rng = np.random.default_rng(int(m["seed"]))
    cplx = np.dtype(m["dtype"]).kind == "c"
    u = np.linalg.qr(_g(rng, cplx, mm, r))[0]
    v = np.linalg.qr(_g(rng, cplx, nn, r))[0]
    sv = np.sort(rng.uniform(0.5, 2.0, size=r))[::-1]
    return np.ascontiguousarray(((u * sv) @ v.conj().T).astype(m["dtype"])), sv, r


@st.composite
def s_lowrank(draw):
    big = draw(st.integers(0, 3)) == 0
    return {"m": draw(st.integers(40, 72) if big else st.integers(6, 48)), "n": draw(st.integers(40, 72) if big else st.integers(6, 48)),
            "r": draw(st.integers(18, 30) if big else st.integers(1, 8)),
            "dtype": draw(st.sampled_from(A_.DTYPES64)), "seed": draw(A_.seeds)}


@st.composite
def s_rsvd(draw, tier):
    return {"mat": draw(s_lowrank()), "mode": draw(st.sampled_from(["k", "k", "k+", "k-", "adapt+block", "adapt"])),
            "eps": draw(st.sampled_from([1e-3, 1e-6, 1e-9])), "compute_uv": draw(st.sampled_from([True, True, False])),
            "q": draw(st.sampled_from([0, 1, 2, 2])), "p": draw(st.sampled_from([0, 0, 2, 5])), "g0": draw(st.booleans()),
            "use_qb": draw(st.sampled_from([20, True, False, 4])), "k_start": draw(st.sampled_from([2, 1, 3])),
            "gseed": draw(A_.seeds)}


def _run_rsvd(case):
    qu = Q()
    m = case["mat"]
    M, sv_true, r = make_lowrank(m)
    mm, nn = M.shape
    cplx = M.dtype.kind == "c"
    mode = case["mode"]
    kw = {"q": case["q"], "p": case["p"], "compute_uv": case["compute_uv"]}
    qu.seed_rand(int(case["gseed"]) % (2 ** 31))
    info = dict(fn="rsvd", mode=mode, compute_uv=case["compute_uv"], flipped=mm < nn)
    if mode in ("k", "k+", "k-"):
        k = r if mode == "k" else min(r + 2, mm, nn) if mode == "k+" else max(1, r - 1)
        if case["g0"]:
            kw["G0"] = seeded_vec(case["gseed"], min(mm, nn), cplx, k + case["p"]).astype(M.dtype)
        out = qu.rsvd(M, int(k), **kw)
    else:
        k = None
        kw.update(mode=mode, use_qb=case["use_qb"], k_start=case["k_start"])
        out = qu.rsvd(M, float(case["eps"]), **kw)
    if case["compute_uv"]:
        if not (isinstance(out, tuple) and len(out) == 3):
            raise Violation("return-form", got=type(out).__name__, **info)
        U, sv, VH = out
    else:
        if isinstance(out, tuple):
            # documented: only the singular values when compute_uv=False
            raise Violation("return-form", got="tuple of %d" % len(out), **info)
        U, sv, VH = None, out, None
    sv = np.asarray(sv)
    if k is not None and sv.shape != (int(k),):
        raise Violation("count", got=list(sv.shape), want=[int(k)], **info)
    tol = 1e-7  # randomised range finder on an exact rank-r input: observed <= 2e-10
    ttol = INV64
    if k is None and case["k_start"] == 1 and case["q"] <= 1:
        # one-column adaptive blocks re-use one start vector: a single-vector Krylov recurrence whose new direction shrinks
        # geometrically; without power iterations ("q: increase for accuracy") digits are lost (observed <= 6e-6 at q=0,
        # 4e-15 at q=2, 1e-14 for k_start>=2) -> exactness is not claimed for this class, only 1e-2 (thorough tier max 6e-5)
        tol = ttol = 1e-2
    full = np.zeros(max(sv.size, r))
    full[:r] = sv_true
    # interlacing: singular values of a projection never exceed the true ones
    if sv.size > min(mm, nn) or np.any(sv > full[:sv.size] * (1 + 1e-9) + 1e-9):
        raise Violation("selection", clause="singular-value-too-large", **info)
    check_desc(sv, **info)
    err = 0.0
    exact = mode != "k-"
    if exact:
        kk = min(sv.size, r)
        if sv.size < r:
            raise Violation("count", got=int(sv.size), want=r, **info)
        err = float(np.max(np.abs(sv[:r] - sv_true))) / float(sv_true[0])
        if not err <= tol or (sv.size > r and float(np.max(sv[r:])) > tol * sv_true[0]):
            raise Violation("selection", clause="singular-values-differ", err=err, **info)
    if U is not None:
        U, VH = np.asarray(U), np.asarray(VH)
        if U.shape != (mm, sv.size) or VH.shape != (sv.size, nn):
            raise Violation("shape", got=[list(U.shape), list(VH.shape)], **info)
        if exact:
            e2 = rel_err((U.astype(np.complex128) * sv) @ VH.astype(np.complex128), M, floor=fro(M))
            if not e2 <= tol:
                raise Violation("reconstruct", err=e2, **info)
            err = max(err, e2)
        # the part carrying non-negligible singular values is a genuine triplet set
        keep = sv > max(1e-6, 10 * tol) * sv_true[0]
        if mode != "k-":
            err = max(err, check_triplets(M, U[:, keep], sv[keep], VH[keep, :], ttol, **info))
        else:
            Uk, Vk = U[:, keep].astype(np.complex128), VH[keep, :].astype(np.complex128)
            ge = max(fro(Uk.conj().T @ Uk - np.eye(Uk.shape[1])), fro(Vk @ Vk.conj().T - np.eye(Vk.shape[0])))
            if not ge <= ttol:
                raise Violation("gram", err=ge, **info)
    return {"nt": True, "cls": ["mode=" + mode, "uv=" + str(case["compute_uv"]), "flipped" if mm < nn else "tall", "q=%d" % case["q"], "p=%d" % case["p"],
                                "cplx" if cplx else "real"], "err": err}


def _relabel(case, inner, r, kmax, k_start, k_incr, use_qb, adaptive):
    """Failures of the two adaptive input classes found broken (known findings C17-f / C17-g) are relabelled by class so
    that they are matched narrowly; everything else keeps its own failing clause."""
    try:
        return inner(case)
    except Violation as v:
        if adaptive and v.reason != "return-form":
            svd_mode, single_row = adaptive_classes(k_start, k_incr, kmax, r, use_qb)
            if svd_mode:
                raise Violation("adaptive-svd-mode-inaccurate", clause=v.reason, fn=v.info.get("fn")) from v
        raise


def run_rsvd(case):
    m = case["mat"]
    r = max(1, min(int(m["r"]), int(m["m"]), int(m["n"])))
    return _relabel(case, _run_rsvd, r, min(int(m["m"]), int(m["n"])), case["k_start"], 1.4, case["use_qb"],
                    case["mode"] == "adapt")


@st.composite
def s_estimate_rank(draw, tier):
    return {"mat": draw(s_lowrank()), "eps": draw(st.sampled_from([1e-3, 1e-6, 1e-9])), "k_max": draw(st.sampled_from([None, None, 3, 6, 12])),
            "q": draw(st.sampled_from([0, 1, 2])), "p": draw(st.sampled_from([0, 2])), "use_qb": draw(st.sampled_from([20, True, False, 4])),
            "k_start": draw(st.sampled_from([2, 1, 4])), "k_incr": draw(st.sampled_from([1.4, 1.0, 2.0])),
            "get_vectors": draw(st.booleans()), "gseed": draw(A_.seeds)}


def _run_estimate_rank(case):
    qu = Q()
    m = case["mat"]
    M, sv_true, r = make_lowrank(m)
    mm, nn = M.shape
    if case["get_vectors"] and mm < nn:
        M = np.ascontiguousarray(M.T)  # documented restriction: vectors only for tall operators
        mm, nn = nn, mm
    qu.seed_rand(int(case["gseed"]) % (2 ** 31))
    # the first block (k_start) is taken in full, so only k_start <= k_max is a consistent request
    ks = case["k_start"] if case["k_max"] is None else min(case["k_start"], case["k_max"], min(mm, nn))
    kw = dict(k_max=case["k_max"], use_sli=False, q=case["q"], p=case["p"], use_qb=case["use_qb"], k_start=ks,
              k_incr=case["k_incr"], get_vectors=case["get_vectors"])
    info = dict(fn="estimate_rank", get_vectors=case["get_vectors"], k_max=case["k_max"])
    out = qu.estimate_rank(M, float(case["eps"]), **kw)
    if case["get_vectors"]:
        rank, VH = out
    else:
        rank, VH = out, None
    kmax = min(mm, nn) if case["k_max"] is None else min(case["k_max"], min(mm, nn))
    lo, hi = min(r, kmax), min(max(kmax, 1), r + 10)
    rank = int(rank)
    if not (lo <= rank <= max(hi, lo)):
        raise Violation("rank", got=rank, true=r, k_max=kmax, **{k: v for k, v in info.items() if k != "k_max"})
    err = 0.0
    if VH is not None:
        VH = np.asarray(VH).astype(np.complex128)
        if VH.shape != (rank, nn):
            raise Violation("shape", got=list(VH.shape), want=[rank, nn], **info)
        if r <= kmax:
            # the returned right vectors span the row space: A (1 - V V+) == 0
            Mc = M.astype(np.complex128)
            err = fro(Mc - (Mc @ VH.conj().T) @ VH) / fro(Mc)
            rtol = 1e-2 if (ks == 1 and case["q"] <= 1) else INV64  # single-vector Krylov class, see _run_rsvd
            if not err <= rtol:
                raise Violation("rowspace", err=err, **info)
    return {"nt": True, "cls": ["rank-true=%d" % (rank - r) if r <= kmax else "capped", "vecs=" + str(case["get_vectors"]),
                                "qb=" + str(case["use_qb"])], "err": err}


def run_estimate_rank(case):
    m = case["mat"]
    mn = min(int(m["m"]), int(m["n"]))
    r = max(1, min(int(m["r"]), mn))
    kmax = mn if case["k_max"] is None else min(case["k_max"], mn)
    ks = case["k_start"] if case["k_max"] is None else min(case["k_start"], case["k_max"], mn)
    return _relabel(case, _run_estimate_rank, r, kmax, ks, case["k_incr"], case["use_qb"], True)


# ---------------------------------------------------------------------------
# 21. operators that exist only through their action (lazy partial trace / partial transpose)
# ---------------------------------------------------------------------------

@st.composite
def s_lazy_linop(draw, tier):
    n = draw(st.integers(4, 6))
    dims = [draw(st.sampled_from([2, 2, 3])) for _ in range(n)]
    route = draw(st.sampled_from(["ptr", "ptr", "ppt"]))
    keep = draw(st.lists(st.integers(0, n - 1), min_size=3, max_size=n - 1, unique=True).map(sorted))
    na = draw(st.integers(1, len(keep) - 1))
    return {"dims": dims, "route": route, "keep": keep, "na": na, "dtype": draw(st.sampled_from(A_.DTYPES64)), "seed": draw(A_.seeds),
            "act": draw(st.sampled_from(["eigh", "eigh", "eigvalsh", "matvec", "groundenergy"])),
            "backend": draw(st.sampled_from(["scipy", "scipy", None, "lobpcg"])), "which": draw(st.sampled_from(["LA", "LA", "SA"])),
            "k": draw(st.integers(1, 3)), "v0seed": draw(A_.seeds)}


def run_lazy_linop(case):
    from quimb.linalg.approx_spectral import lazy_ptr_linop, lazy_ptr_ppt_linop

    from ..oracle import ptrace

    qu = Q()
    dims, keep = [int(x) for x in case["dims"]], [int(x) for x in case["keep"]]
    cplx = np.dtype(case["dtype"]).kind == "c"
    psi = A_.rand_state(case["seed"], int(np.prod(dims)), case["dtype"])
    rho = ptrace(psi, dims, keep)
    if case["route"] == "ptr":
        lo = lazy_ptr_linop(psi.reshape(-1, 1), dims, keep)
        Md = rho
    else:
        sysa, sysb = keep[:case["na"]], keep[case["na"]:]
        lo = lazy_ptr_ppt_linop(psi.reshape(-1, 1), dims, sysa, sysb)
        ds = [dims[i] for i in keep]
        r = rho.reshape(ds + ds)
        nk = len(ds)
        for p_, i in enumerate(keep):
            if i in sysa:
                r = np.swapaxes(r, p_, p_ + nk)
        Md = r.reshape(rho.shape)
    d = Md.shape[0]
    if tuple(lo.shape) != (d, d):
        raise Violation("shape", got=list(lo.shape), want=[d, d], route=case["route"])
    ref = np.linalg.eigvalsh(Md.astype(np.complex128))
    scale = max(float(np.max(np.abs(ref))), 1e-300)
    act, backend, which, k = case["act"], case["backend"], case["which"], int(case["k"])
    info = dict(route=case["route"], act=act, dtype="complex" if cplx else "real")
    if act == "matvec":
        v = seeded_vec(case["v0seed"], d, cplx)
        err = rel_err(lo @ v, Md @ v, floor=fro(Md) * fro(v))
        if not err <= EXACT64:
            raise Violation("value", err=err, **info)
        return {"nt": True, "cls": ["route=" + case["route"], "act=matvec"], "err": err}
    if d < 8:
        raise Reject("iterative solver needs k <= d-2")
    bres = resolved_backend(lo, k, None, None, backend)
    kw = {} if backend is None else {"backend": backend}
    if bres == "SCIPY":
        kw["v0"] = seeded_vec(case["v0seed"], d, cplx)
    else:
        kw.update(tol=1e-12, maxiter=600, v0=seeded_vec(case["v0seed"], d, cplx, k if act != "groundenergy" else 1))
    deg = is_degenerate(ref, scale)
    info.update(backend_resolved=bres, degenerate=deg, rule=which)
    tol = INV64
    if act == "groundenergy":
        e0 = call_solver(lambda: qu.groundenergy(lo, **kw))
        err = abs(float(np.real(e0)) - ref[0]) / scale
        if not err <= tol:
            raise Violation("selection", clause="not-the-smallest", err=err, **info)
    else:
        if act == "eigh":
            lk, vk = call_solver(lambda: qu.eigh(lo, k=k, which=which, **kw))
        else:
            lk, vk = call_solver(lambda: qu.eigvalsh(lo, k=k, which=which, **kw)), None
        lk = np.asarray(lk)
        err = select_oracle(lk.real, ref, which, k, None, tol * scale, krylov=bres == "SCIPY", deg=deg, **info) / scale
        check_ascending(lk, **info)
        if vk is not None:
            err = max(err, check_pairs(Md, None, lk.real, np.asarray(vk), tol, **info))
    return {"nt": True, "cls": ["route=" + case["route"], "act=" + act, "res=" + bres, "rule=" + which] + (["degenerate"] if deg else []), "err": err}


# ---------------------------------------------------------------------------
# 22. Lazy operators carrying scalar factors (constructor factor, *, reflected *, *=), into the partial solvers
# ---------------------------------------------------------------------------

FACTORS = [2, -1.5, 0.5, -1, 3.0, -0.25]


@st.composite
def s_lazy_scaled(draw, tier):
    backend = draw(st.sampled_from(["numpy", "scipy", "lobpcg", None]))
    mat = draw(s_herm_matrix(10, 36, ("spectrum", "psd_sep", "block_sep", "degenerate")))
    ops = draw(st.lists(st.tuples(st.sampled_from(["mul", "rmul", "imul", "mul", "rmul"]), st.sampled_from(FACTORS)), min_size=0, max_size=3))
    return {"mat": mat, "backend": backend, "k": draw(st.integers(1, 3)), "which": draw(st.sampled_from(["SA", "LA", None])),
            "inner": draw(st.sampled_from(["dense", "csr"])), "ctor_factor": draw(st.sampled_from([None, None, 2.0, -3])),
            "ops": [list(o) for o in ops], "fn": draw(st.sampled_from(["eigh", "eigvalsh", "groundenergy"])), "v0seed": draw(A_.seeds)}


def run_lazy_scaled(case):
    import scipy.sparse as sp

    qu = Q()
    m = case["mat"]
    H0 = make_herm(m)
    d = H0.shape[0]
    cplx = H0.dtype.kind == "c"
    build = (lambda: sp.csr_matrix(H0)) if case["inner"] == "csr" else (lambda: H0.copy())
    ckw = {} if case["ctor_factor"] is None else {"factor": case["ctor_factor"]}
    L = qu.Lazy(build, shape=H0.shape, **ckw)
    total = 1.0 if case["ctor_factor"] is None else float(case["ctor_factor"])
    for op, f in case["ops"]:
        if op == "mul":
            L = L * f
        elif op == "rmul":
            L = f * L
        else:
            L *= f
            if L is None:
                raise Violation("lazy-imul-returns-none", nops=len(case["ops"]))
        total *= float(f)
    H = total * H0
    ref = np.linalg.eigvalsh(H.astype(np.complex128))
    scale = max(float(np.max(np.abs(ref))), 1e-300)
    k, backend, which = int(case["k"]), case["backend"], case["which"]
    rule = which or "SA"
    bres = resolved_backend(H, k, None, None, backend)
    kw = {} if backend is None else {"backend": backend}
    if which is not None and case["fn"] != "groundenergy":
        kw["which"] = which
    if bres == "SCIPY" or backend is None:
        kw["v0"] = seeded_vec(case["v0seed"], d, cplx)
    if bres == "LOBPCG":
        kw.update(tol=1e-10, maxiter=400, v0=seeded_vec(case["v0seed"], d, cplx, 1 if case["fn"] == "groundenergy" else k))
    tol = INV64 if bres in ("SCIPY", "LOBPCG") else EXACT64
    deg = is_degenerate(ref, scale)
    nsc = len(case["ops"]) + (case["ctor_factor"] is not None)
    info = dict(backend_resolved=bres, dtype="complex" if cplx else "real", degenerate=deg, rule=rule, lazy_scalings=nsc, negative=total < 0)
    # the materialised operator must be the scaled matrix
    Md = L()
    Md = Md.toarray() if sp.issparse(Md) else np.asarray(Md)
    e0 = rel_err(Md, H, floor=fro(H))
    if not e0 <= EXACT64:
        raise Violation("lazy-factor", err=e0, **info)
    if case["fn"] == "groundenergy":
        e = call_solver(lambda: qu.groundenergy(L, **kw))
        err = abs(float(np.real(e)) - ref[0]) / scale
        if not err <= tol:
            raise Violation("selection", clause="not-the-smallest", err=err, **info)
    else:
        if case["fn"] == "eigh":
            lk, vk = call_solver(lambda: qu.eigh(L, k=k, **kw))
        else:
            lk, vk = call_solver(lambda: qu.eigvalsh(L, k=k, **kw)), None
        lk = np.asarray(lk)
        err = select_oracle(lk.real, ref, rule, k, None, tol * scale, krylov=bres == "SCIPY", deg=deg, **info) / scale
        check_ascending(lk, **info)
        if vk is not None:
            err = max(err, check_pairs(H, None, lk.real, np.asarray(vk), tol, **info))
    return {"nt": nsc >= 1, "cls": ["res=" + bres, "scalings=%d" % nsc, "neg" if total < 0 else "pos", "inner=" + case["inner"], "fn=" + case["fn"]]
            + ["op=" + o for o, _ in case["ops"]] + (["ctor-factor"] if case["ctor_factor"] is not None else []) + (["degenerate"] if deg else []),
            "err": max(err, e0)}


# ---------------------------------------------------------------------------
# 23. IdentityLinearOperator (scaled identity available only through its action)
# ---------------------------------------------------------------------------

def _ILO():
    from quimb.linalg.base_linalg import IdentityLinearOperator

    return IdentityLinearOperator


@st.composite
def s_identity_linop(draw, tier):
    return {"d": draw(st.integers(1, 24)), "factor": draw(st.sampled_from([1, 2, -3, 0.5, [0.0, 1.0], [1.5, -0.5], [-2.0, 0.25]])),
            "act": draw(st.sampled_from(["matvec", "rmatvec", "matmat", "H", "T", "adjoint_matmat", "metric_lobpcg", "dtype"])),
            "vseed": draw(A_.seeds), "mat": draw(s_herm_matrix(12, 30, ("spectrum", "psd_sep")))}


def run_identity_linop(case):
    qu = Q()
    f = case["factor"]
    f = complex(*f) if isinstance(f, list) else f
    d = int(case["d"])
    act = case["act"]
    info = dict(fn="IdentityLinearOperator", act=act, complex_factor=isinstance(f, complex),
                adjoint_action=act in ("rmatvec", "H", "adjoint_matmat", "T"))
    if act == "metric_lobpcg":
        # lobpcg is documented for generalized problems with matrix-free operators: A v = lambda (c 1) v
        if isinstance(f, complex) or f <= 0:
            raise Reject("a metric must be positive")
        H = make_herm(case["mat"])
        d = H.shape[0]
        cplx = H.dtype.kind == "c"
        ref = np.linalg.eigvalsh(H.astype(np.complex128)) / f
        lk, vk = call_solver(lambda: qu.eigh(H, k=2, B=_ILO()(d, f), backend="lobpcg", which="SA", tol=1e-10, maxiter=400,
                                               v0=seeded_vec(case["vseed"], d, cplx, 2)))
        scale = float(np.max(np.abs(ref)))
        err = check_selection(np.asarray(lk).real, ref, "SA", 2, None, INV64 * scale, **info) / scale
        err = max(err, check_pairs(H, f * np.eye(d), np.asarray(lk).real, np.asarray(vk), INV64 * 10, **info))
        return {"nt": True, "cls": ["act=" + act], "err": err}
    lo = _ILO()(d, f)
    M = f * np.eye(d)
    rng = np.random.default_rng(int(case["vseed"]))
    v = _g(rng, True, d)
    V = _g(rng, True, d, 3)
    if act == "matvec":
        got, want = lo @ v, M @ v
    elif act == "rmatvec":
        got, want = lo.rmatvec(v), M.conj().T @ v
    elif act == "matmat":
        got, want = lo @ V, M @ V
    elif act == "H":
        got, want = lo.H @ v, M.conj().T @ v
    elif act == "T":
        got, want = lo.T @ v, M.T @ v
    elif act == "adjoint_matmat":
        got, want = lo.H @ V, M.conj().T @ V
    else:
        if tuple(lo.shape) != (d, d) or np.dtype(lo.dtype).kind != np.asarray(f).dtype.kind:
            raise Violation("shape", got=[list(lo.shape), str(lo.dtype)], **info)
        got, want = lo @ np.ones(d), M @ np.ones(d)
    err = rel_err(np.asarray(got), want, floor=abs(f) * fro(v))
    if not err <= EXACT64:
        raise Violation("value", err=err, **info)
    return {"nt": isinstance(f, complex) or act in ("rmatvec", "H", "adjoint_matmat"), "cls": ["act=" + act, "factor=" + ("complex" if isinstance(f, complex) else type(f).__name__)],
            "err": err}


SUBCHECKS = [
    SubCheck("eigh_full", run_eigh_full, s_eigh_full, examples=(200, 3000), shards=(1, 4),
             rule="eigh/eigvalsh/eigvecsh/eigensystem with k<0 on 7 Hermitian kinds x 4 dtypes: spectrum == numpy, residual, Gram, "
                  "ascending unless sort=False, V diag V+ == A; nt: degenerate/block kind or sort=False"),
    SubCheck("eigh_numpy", run_eigh_partial, s_eigh_numpy, examples=(400, 5000), shards=(1, 4),
             rule="backend='numpy', k 0..d+1, SA/LA/LM/SM/TR+sigma/sigma alone, 8 representations; selection oracle with ties; "
                  "sort=False order == `which` order; nt: degenerate/block or rule != SA"),
    SubCheck("eigh_scipy", run_eigh_partial, s_eigh_scipy, examples=(300, 4000), shards=(2, 6),
             rule="backend='scipy' (ARPACK, explicit v0, tol=machine), k<=min(6,d-3), 10 representations incl. matvec-only operators; "
                  "nt: degenerate/block or rule != SA"),
    SubCheck("eigh_lobpcg", run_eigh_partial, s_eigh_lobpcg, examples=(200, 3000), shards=(1, 4),
             rule="backend='lobpcg' SA/LA, k<=4, explicit tol/maxiter, v0 as (d,k) block / 1-D / none; nt as eigh_scipy"),
    SubCheck("eigh_auto", run_eigh_partial, s_eigh_auto, examples=(200, 2500), shards=(2, 6),
             rule="backend None/'auto' at sizes d = isqrt(thr*k) + {-9..7} around both selection thresholds; all nt"),
    SubCheck("eigh_generalized", run_eigh_generalized, s_eigh_generalized, examples=(300, 4000), shards=(1, 4),
             rule="A v = lambda B v, B positive definite (cond<=6), numpy/scipy/lobpcg/auto, A and B dense/qarray/csr/csc; reference "
                  "scipy.linalg.eigvalsh(A,B); B-orthonormal vectors; all nt"),
    SubCheck("eigh_projected", run_eigh_projected, s_eigh_projected, examples=(150, 2500), shards=(1, 4),
             rule="P= option (isometry / basis selection, dense/sparse/Lazy) on every backend: values == spectrum of P+AP, vectors in range(P); all nt"),
    SubCheck("eig_full", run_eig_full, s_eig_full, examples=(200, 3000), shards=(1, 4),
             rule="eig/eigvals/eigvecs/eigensystem(isherm=False) k<0 on normal / non-normal (cond(S)<=3) / triangular / gauss matrices; "
                  "nt: structured kind or sort=False"),
    SubCheck("eig_partial", run_eig_partial, s_eig_partial, examples=(300, 4000), shards=(1, 4),
             rule="non-Hermitian k eigenpairs, numpy/scipy/auto, LM/SM/LR/SR/LI/SI and targets on real spectra; all nt"),
    SubCheck("ground", run_ground, s_ground, examples=(300, 4000), shards=(1, 4),
             rule="groundstate/groundenergy/bound_spectrum x backend x representation; nt: degenerate/block or auto backend"),
    SubCheck("eigh_window", run_window, s_window, examples=(300, 5000), shards=(2, 6),
             rule="eigh_window/eigvalsh_window/eigvecsh_window, dense and sparse routes, relative centre x width x k; returned values "
                  "lie inside the window and are all of it or the k nearest the centre; nt: explicit width or degenerate"),
    SubCheck("svd_full", run_svd_full, s_svd_full, examples=(150, 2500), shards=(1, 4),
             rule="svd(A, return_vecs) on 8 rectangular kinds x 4 dtypes: triplets, orthonormality, descending, reconstruction; nt: structured kind"),
    SubCheck("svds", run_svds, s_svds, examples=(300, 4000), shards=(1, 4),
             rule="svds numpy/scipy/auto (sizes around the selection threshold), dense/sparse/operator, k<=min-2 for ARPACK: "
                  "sigma == top-k numpy values, triplet equations; nt: degenerate or auto or non-dense"),
    SubCheck("norm", run_norm, s_norm, examples=(250, 4000), shards=(1, 4),
             rule="norm over the 9 spellings of 3 norm types, dense/sparse, Hermitian shortcut; all nt"),
    SubCheck("expm", run_expm, s_expm, examples=(200, 3000), shards=(1, 4),
             rule="expm dense/sparse, herm shortcut, 7 argument kinds (Hermitian, anti-Hermitian, nilpotent...) vs own Taylor series; nt: d>=2, non-zero"),
    SubCheck("expm_multiply", run_expm_multiply, s_expm_multiply, examples=(200, 3000), shards=(1, 4),
             rule="expm_multiply(mat, vec) with dense/sparse/operator mat and 1-D / ket / block vec vs Taylor expm @ vec; nt: d>=2, non-zero"),
    SubCheck("sqrtm", run_sqrtm, s_sqrtm, examples=(200, 3000), shards=(1, 4),
             rule="sqrtm herm=True (PSD, indefinite, rank deficient) / herm=False (spectrum in the right half plane): S@S == A; sparse refused; nt: d>=2"),
    SubCheck("autoblock", run_autoblock, s_autoblock, examples=(250, 4000), shards=(1, 4),
             rule="eigh/eigvalsh/eigvecsh/eigensystem(autoblock=True) on permuted block-diagonal / degenerate / diagonal matrices: spectrum == direct, "
                  "residual, Gram, order; nt: more than one block"),
    SubCheck("rsvd", run_rsvd, s_rsvd, examples=(300, 4000), shards=(1, 4),
             rule="rsvd on exact rank-r matrices (sigma in [0.5,2]), k=r / r+2 / r-1 and eps modes adapt+block / adapt, tall and wide, "
                  "compute_uv both: interlacing bound always; exact recovery unless k<r; all nt"),
    SubCheck("estimate_rank", run_estimate_rank, s_estimate_rank, examples=(200, 3000), shards=(1, 4),
             rule="estimate_rank(use_sli=False) on exact rank-r matrices: min(r,k_max) <= rank <= min(k_max, r+10) (documented resolution ~10), "
                  "returned vectors span the row space; all nt"),
    SubCheck("lazy_linop", run_lazy_linop, s_lazy_linop, examples=(200, 3000), shards=(1, 4),
             rule="lazy_ptr_linop / lazy_ptr_ppt_linop (operators defined only by a tensor-network action) fed to eigh/eigvalsh/groundenergy "
                  "(scipy, auto, lobpcg): action and selected spectrum == dense partial trace / partial transpose (numpy einsum oracle); all nt"),
    SubCheck("lazy_scaled", run_lazy_scaled, s_lazy_scaled, examples=(250, 4000), shards=(1, 4),
             rule="Lazy operators (dense / sparse constructor) carrying 0-4 scalar factors (constructor factor=, L*x, x*L, L*=x; negative factors flip "
                  "the spectrum) materialised and passed to eigh/eigvalsh/groundenergy on numpy/scipy/lobpcg/auto: operator == prod(factors)*M, "
                  "selection/residual against it; nt: at least one scaling"),
    SubCheck("identity_linop", run_identity_linop, s_identity_linop, examples=(150, 2500), shards=(1, 4),
             rule="IdentityLinearOperator with int/real/complex factor: matvec, rmatvec, matmat, .H, .T, adjoint matmat vs factor*eye, and as the "
                  "matrix-free metric of a lobpcg generalized problem; nt: complex factor or an adjoint action"),
]
