"""Reference semantics written only with numpy (never with the quimb path under test)."""
from __future__ import annotations

import itertools
import math

import numpy as np


# ---- tensor network denotation ---------------------------------------------

def einsum_value(tensors, output):
    """tensors: list of (array, labels); output: sequence of labels.
    Sum over every label not in output (incl. labels on >=3 tensors, labels
    repeated on one tensor).  Small networks go to one numpy.einsum call; larger
    ones are reduced by pairwise numpy.einsum calls in an order chosen by an
    own greedy size heuristic (independent of quimb / cotengra), keeping a label
    alive while any other tensor or the output still carries it."""
    if not tensors:
        return np.array(1.0)
    ids = {}
    ops = []
    for arr, labels in tensors:
        ops.append((np.asarray(arr), [ids.setdefault(l, len(ids)) for l in labels]))
    out = [ids[l] for l in output]
    if len(ops) <= 3:
        args = []
        for a, l in ops:
            args += [a, l]
        return np.einsum(*args, out)
    size = {}
    for a, l in ops:
        for d, i in zip(a.shape, l):
            size[i] = d
    ops = list(ops)
    while len(ops) > 1:
        best = None
        n = len(ops)
        for i in range(n):
            si = set(ops[i][1])
            for j in range(i + 1, n):
                sj = set(ops[j][1])
                shared = si & sj
                if not shared and best is not None and best[0][0] == 0:
                    continue
                others = set(out)
                for k in range(n):
                    if k != i and k != j:
                        others.update(ops[k][1])
                keep = [x for x in (si | sj) if x in others]
                sz = 1
                for x in keep:
                    sz *= size[x]
                key = (0 if shared else 1, sz)
                if best is None or key < best[0]:
                    best = (key, i, j, keep)
        _, i, j, keep = best
        (a, la), (b, lb) = ops[i], ops[j]
        keep = sorted(keep)
        c = np.einsum(a, la, b, lb, keep)
        ops = [o for k, o in enumerate(ops) if k not in (i, j)] + [(c, keep)]
    a, l = ops[0]
    return np.einsum(a, l, out)


def tn_tensors(tn):
    """(array, labels) list of a quimb network / tensor – reads only .data/.inds."""
    if hasattr(tn, "tensor_map"):
        return [(np.asarray(t.data), tuple(t.inds)) for t in tn.tensor_map.values()]
    return [(np.asarray(tn.data), tuple(tn.inds))]


def tn_value(tn, output):
    """Denotation of a quimb network over `output` labels incl. its exponent."""
    v = einsum_value(tn_tensors(tn), output)
    e = getattr(tn, "exponent", 0.0)
    if e:
        v = v * 10.0 ** float(e)
    return v


def tn_magnitude(tn):
    m = 1.0
    for arr, _ in tn_tensors(tn):
        m *= max(float(np.linalg.norm(np.asarray(arr, dtype=np.complex128).ravel())), 1e-300)
    e = getattr(tn, "exponent", 0.0)
    if e:
        m *= 10.0 ** float(e)
    return m


def outer_labels(tensors):
    cnt = {}
    for _, labels in tensors:
        for l in labels:
            cnt[l] = cnt.get(l, 0) + 1
    return [l for l, c in cnt.items() if c == 1]


# ---- dense linear algebra ----------------------------------------------------

def embed(op, dims, where):
    """Operator `op` acting on subsystems `where` (in that order) of a space with
    dimensions `dims`, as a dense matrix: kron with identity on the rest, then an
    explicit axis permutation back to subsystem order."""
    dims = [int(d) for d in dims]
    where = [int(w) for w in where]
    n = len(dims)
    dw = [dims[w] for w in where]
    rest = [i for i in range(n) if i not in where]
    dr = [dims[i] for i in rest]
    Dw = int(np.prod(dw)) if dw else 1
    Dr = int(np.prod(dr)) if dr else 1
    D = Dw * Dr
    full = np.kron(np.asarray(op).reshape(Dw, Dw), np.eye(Dr))
    full = full.reshape(dw + dr + dw + dr)
    order = where + rest
    perm = [order.index(i) for i in range(n)]
    full = full.transpose(perm + [n + p for p in perm])
    return full.reshape(D, D)


def kron_all(ops):
    out = np.array([[1.0]])
    for o in ops:
        out = np.kron(out, o)
    return out


def ptrace(rho_or_psi, dims, keep):
    """Reduced density matrix on subsystems `keep` (in the order given)."""
    dims = [int(d) for d in dims]
    keep = [int(k) for k in keep]
    n = len(dims)
    x = np.asarray(rho_or_psi)
    D = int(np.prod(dims))
    if x.ndim == 1 or (x.ndim == 2 and 1 in x.shape and x.size == D):
        psi = x.reshape(dims)
        a = list(range(n))
        b = [i + n if i in keep else i for i in range(n)]
        rho = np.einsum(psi, a, psi.conj(), b, [*keep, *[k + n for k in keep]])
    else:
        r = x.reshape(dims + dims)
        a = list(range(n)) + [i + n if i in keep else i for i in range(n)]
        rho = np.einsum(r, a, [*keep, *[k + n for k in keep]])
    dk = int(np.prod([dims[k] for k in keep])) if keep else 1
    return rho.reshape(dk, dk)


def iso_defect(arr, inds, left):
    """‖A†A − 1‖_F for the matrix with rows = labels `left`, cols = the rest...
    i.e. the tensor is an isometry *from the remaining labels into `left`*:
    contracting the `left` labels of A with conj(A) gives the identity."""
    inds = list(inds)
    left = [l for l in left]
    right = [i for i in inds if i not in left]
    perm = [inds.index(l) for l in left] + [inds.index(r) for r in right]
    a = np.transpose(np.asarray(arr), perm)
    dl = int(np.prod([a.shape[i] for i in range(len(left))])) if left else 1
    m = a.reshape(dl, -1)
    g = m.conj().T @ m
    return float(np.linalg.norm(g - np.eye(g.shape[0])))


def vn_entropy(evals, base=2.0):
    ev = np.asarray(evals, dtype=float)
    ev = ev[ev > 1e-15]
    return float(-np.sum(ev * np.log(ev)) / math.log(base))


def expm_herm(h, x):
    """exp(x * h) for Hermitian h via eigh (x may be complex)."""
    w, v = np.linalg.eigh(h)
    return (v * np.exp(x * w)) @ v.conj().T


class StateVector:
    """Tiny qubit simulator: psi[q0, q1, ...], gate matrices act on the listed
    qubits in the listed order (first listed qubit = most significant)."""

    def __init__(self, n, psi=None):
        self.n = n
        if psi is None:
            psi = np.zeros(2 ** n, dtype=complex)
            psi[0] = 1.0
        self.psi = np.asarray(psi, dtype=complex).reshape([2] * n)

    def copy(self):
        return StateVector(self.n, self.psi.copy())

    def apply(self, U, qubits):
        k = len(qubits)
        U = np.asarray(U, dtype=complex).reshape([2] * (2 * k))
        psi = np.tensordot(U, self.psi, axes=(list(range(k, 2 * k)), list(qubits)))
        # new axes 0..k-1 correspond to qubits; move them back
        self.psi = np.moveaxis(psi, list(range(k)), list(qubits))

    def dense(self):
        return self.psi.reshape(-1)

    def amplitude(self, bits):
        return self.psi[tuple(int(b) for b in bits)]


def controlled(U, ncontrols):
    """Block matrix diag(1, ..., 1, U): controls are the most significant qubits."""
    U = np.asarray(U, dtype=complex)
    d = U.shape[0]
    D = d * 2 ** ncontrols
    M = np.eye(D, dtype=complex)
    M[D - d:, D - d:] = U
    return M
