"""Coverage-guided driver (atheris / libFuzzer) for the history machines.

The same MachineSpec that Hypothesis' RuleBasedStateMachine walks is put into
*list-of-steps* form::

    case = {"init": <init>, "steps": [[name, args], ...]}

drawn by `st.tuples(init, st.lists(one_of(steps)))`; `fuzz_one_input` of that
@given test is handed to atheris, which mutates the byte buffer under coverage
feedback from the instrumented quimb methods.  The oracle (model comparison /
invariant after every step) runs inside the target, exactly as in replay.

atheris.Fuzz() never returns (libFuzzer exits the process), so counters are
flushed to the result file every few executions; the first unlisted violation
writes its replay file and result and exits the process immediately.
"""
from __future__ import annotations

import collections
import inspect
import json
import os
import sys
import time
import traceback

from . import core
from .core import HarnessError, Reject, Violation, case_hash, jsonable


def main(argv):
    from . import worker

    worker._env_setup()
    spec_in = json.loads(argv[1])
    out_path = spec_in["out"]
    core.with_deps()
    import atheris  # noqa

    mod, subs = worker.load_property(spec_in["property"])
    sub = subs[spec_in["subcheck"]]
    if sub.needs_deps:
        core.with_deps()
    mspec = sub.machine
    known = spec_in.get("known", [])
    t0 = time.time()
    st_ = {"executed": 0, "rejected_steps": 0, "steps": 0, "excluded_known": collections.Counter(), "nt": set(), "samples": [],
           "classes": collections.Counter(), "violation": None, "harness_error": None, "invalid": 0}

    # instrument the plain-python methods of the listed classes (per function: module-level instrumentation
    # breaks the numba kernels living in the same modules)
    ninst = 0
    for target in (sub.fuzz or {}).get("instrument", []):
        modname, clsname = target.split(":")
        m = __import__(modname, fromlist=[clsname])
        cls = getattr(m, clsname)
        for name, f in list(vars(cls).items()):
            if inspect.isfunction(f):
                try:
                    setattr(cls, name, atheris.instrument_func(f))
                    ninst += 1
                except Exception:
                    pass

    def flush(final=False):
        res = {
            "property": spec_in["property"], "subcheck": sub.name, "shard": spec_in["shard"], "mode": "fuzz",
            "executed": st_["executed"], "cells": st_["executed"], "rejected": 0, "reject_reasons": {},
            "excluded_known": dict(st_["excluded_known"]), "skipped_budget": 0, "nt_hashes": sorted(st_["nt"]),
            "nt_cells": len(st_["nt"]), "classes": dict(st_["classes"]), "samples": st_["samples"], "max_err": 0.0,
            "wall_s": round(time.time() - t0, 2), "exhaustive": False, "steps": st_["steps"], "step_rejects": st_["rejected_steps"],
            "instrumented_functions": ninst, "invalid_buffers": st_["invalid"],
            "violations": [st_["violation"]] if st_["violation"] else [], "harness_error": st_["harness_error"],
        }
        tmp = out_path + ".tmp"
        with open(tmp, "w") as f:
            json.dump(jsonable(res), f)
        os.replace(tmp, out_path)

    def guard(fn):
        try:
            fn()
            return True
        except Reject:
            st_["rejected_steps"] += 1
            return True
        except (Violation, HarnessError):
            raise
        except Exception as e:
            if type(e).__module__.startswith("hypothesis"):
                raise
            frames = core.quimb_frames(e.__traceback__)
            if not frames:
                raise HarnessError(f"{type(e).__name__}: {e}\n{traceback.format_exc()[-3000:]}") from e
            fr = frames[-1]
            raise Violation("crash", exc=type(e).__name__, where=f"{fr[0]}:{fr[1]}", msg=str(e)[:200]) from e

    def run_case(case):
        core.reset_quimb_state()
        st_["executed"] += 1
        box = {}
        try:
            guard(lambda: box.__setitem__("s", mspec.start(case["init"])))
            if "s" not in box:
                return
            state = box["s"]
            if mspec.invariant:
                guard(lambda: mspec.invariant(state))
            for name, args in case["steps"]:
                pre = mspec.preconditions.get(name)
                if pre is not None and not pre(state):
                    continue
                st_["steps"] += 1
                guard(lambda: mspec.ops[name][1](state, args))
                if mspec.invariant:
                    guard(lambda: mspec.invariant(state))
            out = (mspec.finish(state) if mspec.finish else {}) or {}
            if out.get("nt"):
                h = case_hash(case)
                if h not in st_["nt"]:
                    st_["nt"].add(h)
                    if len(st_["samples"]) < 2:
                        st_["samples"].append(jsonable(case))
            for c in out.get("cls") or []:
                st_["classes"][str(c)] += 1
        except Violation as v:
            key = jsonable(v.key())
            for kf in known:
                if all(key.get(k) == val for k, val in kf["match"].items()):
                    st_["excluded_known"][kf["id"]] += 1
                    return
            os.makedirs(spec_in["replay_dir"], exist_ok=True)
            path = os.path.join(spec_in["replay_dir"], f"{sub.name}-fuzz-s{spec_in['seed']}-{spec_in['shard']}.json")
            rec = {"property": spec_in["property"], "subcheck": sub.name, "tier": "thorough", "seed": spec_in["seed"],
                   "reason": v.reason, "info": jsonable(v.info), "case": jsonable(case), "driver": "atheris"}
            with open(path, "w") as f:
                json.dump(rec, f)
            # re-verify outside the fuzzer loop, then minimise the history (libFuzzer does not shrink)
            ok = False
            try:
                worker.replay_case(sub, rec["case"])
            except Violation:
                ok = True
            except Exception:
                pass
            if ok:
                try:
                    from .minimize import ddmin_steps

                    small, _n = ddmin_steps(sub, rec["case"], v.reason, max_replays=300)
                    if len(small["steps"]) < len(rec["case"]["steps"]):
                        rec["minimized_from_steps"] = len(rec["case"]["steps"])
                        rec["case"] = jsonable(small)
                        with open(path, "w") as f:
                            json.dump(rec, f)
                except Exception:
                    pass
            st_["violation"] = {"replay": path, "reason": v.reason, "reproduced": ok, "info": jsonable(v.info)}
            flush(True)
            os._exit(0)
        except HarnessError as e:
            st_["harness_error"] = str(e) + "\ncase: " + json.dumps(jsonable(case))[:2000]
            flush(True)
            os._exit(0)

    import hypothesis
    from hypothesis import HealthCheck, given, settings, strategies as st

    ti = 1
    max_steps = mspec.max_steps[ti]
    step = st.one_of(*[st.tuples(st.just(name), strat) for name, (strat, fn) in mspec.ops.items()])
    strat = st.tuples(mspec.init, st.lists(step, max_size=max_steps))

    @settings(database=None, deadline=None, suppress_health_check=list(HealthCheck))
    @given(strat)
    def test(x):
        init, steps = x
        run_case({"init": init, "steps": [[n, jsonable(a)] for n, a in steps]})
        if st_["executed"] % 25 == 0:
            flush()

    fuzz_one = test.hypothesis.fuzz_one_input

    def target(data):
        try:
            r = fuzz_one(data)
            if r is None and False:
                st_["invalid"] += 1
        except SystemExit:
            raise
        except BaseException as e:  # noqa: hypothesis control flow / unexpected
            if isinstance(e, (Violation, HarnessError)):
                raise
            st_["invalid"] += 1
        if time.time() - t0 > spec_in.get("max_seconds", 600):
            flush(True)
            os._exit(0)

    corpus = spec_in["corpus"]
    os.makedirs(corpus, exist_ok=True)
    # seed corpus: random buffers long enough to decode into multi-step histories (an empty corpus makes libFuzzer start
    # from 1-byte inputs that decode to empty step lists); contents are a pure function of the seed
    import numpy as np

    rng = np.random.default_rng(spec_in["seed"] * 1000 + spec_in["shard"])
    for i in range(48):
        with open(os.path.join(corpus, f"seed{i:02d}"), "wb") as f:
            f.write(rng.integers(0, 256, size=int(rng.integers(200, 3000)), dtype=np.uint8).tobytes())
    flush()
    args = [argv[0], f"-runs={spec_in['runs']}", f"-seed={spec_in['seed'] + 1 + spec_in['shard']}", "-max_len=4096", "-len_control=0",
            f"-max_total_time={int(spec_in.get('max_seconds', 600))}", "-print_final_stats=0", "-verbosity=0", corpus]
    atheris.Setup(args, target)
    import atexit

    try:
        atheris.Fuzz()
    finally:
        flush(True)


if __name__ == "__main__":
    main(sys.argv)
