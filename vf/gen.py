"""Hypothesis strategies producing JSON-able descriptions of quimb objects, and
builders turning a description into the concrete object."""
from __future__ import annotations

import numpy as np
from hypothesis import strategies as st

from . import arrays as A

LABELS = list("abcdefgh")
TAGS = ["X", "Y", "Z", "W", "V"]


# ---------------------------------------------------------------------------
# generic labelled networks (hypergraph geometry)
# ---------------------------------------------------------------------------

@st.composite
def networks(draw, min_tensors=1, max_tensors=6, max_rank=4, dims=(1, 2, 3), hyper=True, repeat=True,
             dtypes=A.DTYPES, kinds=("gauss", "gauss", "gauss", "uniform_pos", "int", "zeros", "sparse"),
             exponents=(0.0, 0.0, 0.5, -0.5, 3.0, -3.0, 40.0, -40.0), npool=8, unique_tags=False,
             same_dtype=False):
    """A labelled network description.

    By construction: ordinary bonds, optional hyper-labels (a label on >= 3
    tensors), optional labels repeated on one tensor, dangling labels,
    disconnected components, rank-0 tensors, overlapping tags."""
    n = draw(st.integers(min_tensors, max_tensors))
    pool = LABELS[:npool]
    sizes = {l: draw(st.sampled_from(dims)) for l in pool}
    allow_hyper = hyper and draw(st.booleans())
    allow_rep = repeat and draw(st.integers(0, 5)) == 0
    count = {l: 0 for l in pool}
    tensors = []
    dt0 = draw(st.sampled_from(dtypes))
    single = A_is_single(dt0)
    for i in range(n):
        r = draw(st.integers(0, max_rank))
        inds = []
        for _ in range(r):
            cands = [l for l in pool if (allow_hyper or count[l] < 2) and (l not in inds)]
            # prefer labels already used once so that bonds actually form
            used = [l for l in cands if count[l] == 1]
            if used and draw(st.integers(0, 2)) > 0:
                l = draw(st.sampled_from(used))
            elif cands:
                l = draw(st.sampled_from(cands))
            else:
                break
            inds.append(l)
            count[l] += 1
        if allow_rep and inds and draw(st.integers(0, 2)) == 0:
            l = draw(st.sampled_from(inds))
            if allow_hyper or count[l] < 2:
                inds.insert(draw(st.integers(0, len(inds))), l)
                count[l] += 1
        if unique_tags:
            tags = [f"T{i}"]
        else:
            tags = draw(st.lists(st.sampled_from(TAGS), max_size=2, unique=True))
            tags = tags + [f"T{i}"] if draw(st.booleans()) else tags
        if same_dtype:
            dt = dt0
        else:
            # mixed real/complex of the same precision
            dt = draw(st.sampled_from([d for d in dtypes if A_is_single(d) == single]))
        tensors.append({
            "inds": inds, "tags": tags, "seed": draw(A.seeds), "kind": draw(st.sampled_from(kinds)), "dtype": dt,
        })
    used = [l for l in pool if count[l] > 0]
    return {
        "tensors": tensors,
        "sizes": {l: sizes[l] for l in used},
        "exponent": draw(st.sampled_from(exponents)),
    }


def A_is_single(dt):
    return str(dt) in ("float32", "complex64")


def net_counts(desc):
    cnt = {}
    for t in desc["tensors"]:
        for l in t["inds"]:
            cnt[l] = cnt.get(l, 0) + 1
    return cnt


def net_is_hyper(desc):
    """True if automatic output inference is not the 'appears once' rule...
    i.e. some label appears on >= 3 tensor slots."""
    return any(c >= 3 for c in net_counts(desc).values())


def net_has_repeat(desc):
    return any(len(set(t["inds"])) != len(t["inds"]) for t in desc["tensors"])


def net_outer(desc):
    return [l for l, c in net_counts(desc).items() if c == 1]


def net_single(desc):
    return any(A_is_single(t["dtype"]) for t in desc["tensors"])


def build_arrays(desc):
    out = []
    for t in desc["tensors"]:
        shape = [desc["sizes"][l] for l in t["inds"]]
        out.append((A.make_array(t["seed"], t["kind"], shape, t["dtype"]), tuple(t["inds"])))
    return out


def build_network(desc, qtn=None, virtual=False):
    if qtn is None:
        import quimb.tensor as qtn
    ts = [qtn.Tensor(arr.copy(), inds=inds, tags=t["tags"]) for (arr, inds), t in zip(build_arrays(desc), desc["tensors"])]
    tn = qtn.TensorNetwork(ts, virtual=virtual)
    if desc.get("exponent"):
        tn.exponent = float(desc["exponent"])
    return tn


def ref_value(desc, output):
    """numpy denotation of the described network over `output` (without exponent),
    and its a-priori magnitude (product of tensor norms)."""
    from .oracle import einsum_value

    arrs = build_arrays(desc)
    dt = np.complex128
    v = einsum_value([(a.astype(dt), i) for a, i in arrs], output)
    mag = 1.0
    for a, _ in arrs:
        mag *= max(float(np.linalg.norm(a.astype(dt).ravel())), 1e-300)
    return v, mag


@st.composite
def output_choice(draw, desc, allow_none=True):
    """A choice of output labels: None (default rule; only when there is no
    hyper label), a random subset in random order, or ()."""
    labels = sorted(desc["sizes"])
    hyper = net_is_hyper(desc)
    k = draw(st.integers(0, 3))
    if k == 0 and allow_none and not hyper:
        return None
    if k == 1:
        return []
    if hyper or k == 2:
        sub = draw(st.lists(st.sampled_from(labels), unique=True, max_size=4)) if labels else []
        return sub
    # permutation of the default outer labels
    out = net_outer(desc)
    return draw(st.permutations(out)) if out else []


# ---------------------------------------------------------------------------
# random trees / graphs as edge lists
# ---------------------------------------------------------------------------

@st.composite
def tree_edges(draw, n):
    """random-parent tree on nodes 0..n-1"""
    return [(draw(st.integers(0, i - 1)), i) for i in range(1, n)]


@st.composite
def graph_edges(draw, n, extra=2):
    """connected graph: a random tree plus up to `extra` additional distinct edges"""
    edges = draw(tree_edges(n))
    es = {tuple(sorted(e)) for e in edges}
    k = draw(st.integers(0, extra))
    for _ in range(k):
        if n < 3:
            break
        a = draw(st.integers(0, n - 1))
        b = draw(st.integers(0, n - 1))
        if a != b and tuple(sorted((a, b))) not in es:
            es.add(tuple(sorted((a, b))))
    return sorted(es)
