"""ddmin over the steps of a history case (used for failures found by the coverage-guided driver, which does not shrink).

    python -m vf.minimize <property> <replay.json> [max_replays]
"""
from __future__ import annotations

import copy
import json
import sys

from . import core


def ddmin_steps(sub, case, reason, max_replays=400):
    from . import worker

    n_replays = [0]

    def fails(steps):
        if n_replays[0] >= max_replays:
            return False
        n_replays[0] += 1
        c = {"init": case["init"], "steps": steps}
        try:
            worker.replay_case(sub, c)
        except core.Violation as v:
            return v.reason == reason
        except Exception:
            return False
        return False

    steps = list(case["steps"])
    # cut the tail after the failing step first
    lo, hi = 1, len(steps)
    while lo < hi:
        mid = (lo + hi) // 2
        if fails(steps[:mid]):
            hi = mid
        else:
            lo = mid + 1
    if fails(steps[:lo]):
        steps = steps[:lo]
    n = 2
    while len(steps) >= 2 and n_replays[0] < max_replays:
        chunk = max(1, len(steps) // n)
        reduced = False
        for i in range(0, len(steps), chunk):
            cand = steps[:i] + steps[i + chunk:]
            if cand and fails(cand):
                steps = cand
                n = max(n - 1, 2)
                reduced = True
                break
        if not reduced:
            if chunk == 1:
                break
            n = min(len(steps), n * 2)
    return {"init": case["init"], "steps": steps}, n_replays[0]


def main(argv):
    from . import worker

    worker._env_setup()
    prop, path = argv[1], argv[2]
    rec = json.load(open(path))
    mod, subs = worker.load_property(prop)
    sub = subs[rec["subcheck"]]
    if sub.needs_deps:
        core.with_deps()
    small, n = ddmin_steps(sub, rec["case"], rec["reason"], int(argv[3]) if len(argv) > 3 else 400)
    rec2 = copy.deepcopy(rec)
    rec2["case"] = small
    rec2["minimized_from_steps"] = len(rec["case"]["steps"])
    out = path.replace(".json", ".min.json")
    json.dump(rec2, open(out, "w"))
    print(f"{len(rec['case']['steps'])} -> {len(small['steps'])} steps in {n} replays: {out}")
    print(json.dumps(small))


if __name__ == "__main__":
    main(sys.argv)
