"""Core types shared by every property check.

A *sub-check* is three things: a way of producing JSON-able cases (a Hypothesis
strategy, a rule-based history machine spec, or an exhaustive enumeration), a
pure ``run(case)`` function that rebuilds concrete objects from the case, calls
quimb and evaluates an oracle, and a stated non-triviality rule.  ``run`` raises
``Violation`` when the property is broken, ``Reject`` when quimb (legitimately)
refused the input, and otherwise returns a small outcome dict::

    {"nt": bool,            # non-trivial by the sub-check's rule
     "cls": str | [str],    # classification labels (distribution is reported)
     "err": float,          # observed numerical error (max is reported)
     "n": int, "nt_n": int} # optional: a case standing for n enumerated cells
"""
from __future__ import annotations

import dataclasses
import functools
import hashlib
import json
import os
import sys
import traceback
import warnings
from typing import Any, Callable, Iterable, Optional

ROOT = os.path.dirname(os.path.dirname(os.path.abspath(__file__)))
REPO = os.environ.get("VERIF_REPO", "/repo")
DEPS = os.path.join(ROOT, ".deps")

# tolerance classes (DESIGN 2.4)
EXACT64 = 1e-9
INV64 = 1e-6
EXACT32 = 2e-4
INV32 = 5e-3


class Violation(Exception):
    """The property is broken on this case."""

    def __init__(self, reason: str, **info):
        super().__init__(reason)
        self.reason = reason
        self.info = info

    def key(self):
        d = {"reason": self.reason}
        d.update(self.info)
        return d

    def __str__(self):
        return f"{self.reason} {json.dumps(jsonable(self.info), sort_keys=True)[:600]}"


class Reject(Exception):
    """quimb refused the input (allowed by the contract); counted, not a violation."""

    def __init__(self, reason: str = ""):
        super().__init__(reason)
        self.reason = reason


class HarnessError(Exception):
    """A bug in the verification machinery itself (exit 2, never a violation)."""


class rejecting:
    """``with rejecting(ValueError, NotImplementedError): quimb_call()``

    Turns the listed exception types, raised *by the call under test*, into a
    counted rejection.  Anything else propagates (and becomes a crash violation
    if it came out of quimb)."""

    def __init__(self, *types, tag=""):
        self.types = types
        self.tag = tag

    def __enter__(self):
        return self

    def __exit__(self, et, ev, tb):
        if et is not None and issubclass(et, self.types):
            raise Reject(f"{self.tag}{et.__name__}: {str(ev)[:80]}") from ev
        return False


@dataclasses.dataclass
class MachineSpec:
    """A rule-based history machine, specified as data.

    init:   strategy for the JSON-able initial configuration
    start:  init -> state object
    ops:    {name: (args_strategy, fn(state, args) -> None)}; fn may raise
            Violation / Reject (a Reject means the step was a no-op)
    invariant: fn(state) run after every step
    finish: fn(state) -> outcome dict (nt / cls / err), run when replaying or
            at teardown
    """

    init: Any
    start: Callable[[Any], Any]
    ops: dict
    invariant: Optional[Callable[[Any], None]] = None
    finish: Optional[Callable[[Any], dict]] = None
    max_steps: tuple = (20, 40)  # quick, thorough
    preconditions: dict = dataclasses.field(default_factory=dict)


@dataclasses.dataclass
class SubCheck:
    name: str
    run: Optional[Callable[[dict], Optional[dict]]] = None
    strategy: Optional[Callable[[str], Any]] = None
    machine: Optional[MachineSpec] = None
    enum: Optional[Callable[[str], Iterable[dict]]] = None
    examples: tuple = (100, 3000)  # per shard: quick, thorough
    shards: tuple = (1, 4)  # quick, thorough
    rule: str = ""
    min_accept: float = 0.3  # vacuity floor on accepted fraction
    needs_deps: bool = False
    soft_budget: tuple = (100.0, 600.0)  # seconds after which generation stops
    hard_timeout: tuple = (400.0, 1500.0)
    exhaustive: bool = False
    doc: str = ""
    # thorough tier only: additionally drive the machine with atheris/libFuzzer
    # {"instrument": ["module:Class", ...], "shards": n, "runs": n, "max_seconds": s}
    fuzz: Optional[dict] = None


def dict_strategy(mapping):
    """Like st.fixed_dictionaries(mapping) (same keys, same order) but built from st.tuples: fixed_dictionaries also draws a
    shuffled iteration order, and with >= 4 keys the byte-buffer provider behind `fuzz_one_input` (hypothesis 6.168)
    rejects every buffer at that draw - the libFuzzer campaigns of C07 / C08 executed no case at all until this was found
    (the runner now treats a fuzz job that executed nothing as a harness error)."""
    from hypothesis import strategies as st

    keys = list(mapping)
    return st.tuples(*[mapping[k] for k in keys]).map(lambda t: dict(zip(keys, t)))


def jsonable(x):
    import numpy as np

    if isinstance(x, dict):
        return {str(k): jsonable(v) for k, v in x.items()}
    if isinstance(x, (list, tuple, set, frozenset)):
        return [jsonable(v) for v in x]
    if isinstance(x, (np.integer,)):
        return int(x)
    if isinstance(x, (np.floating,)):
        return float(x)
    if isinstance(x, (np.bool_,)):
        return bool(x)
    if isinstance(x, complex) or isinstance(x, np.complexfloating):
        return [float(x.real), float(x.imag)]
    if isinstance(x, np.ndarray):
        return jsonable(x.tolist())
    if isinstance(x, (str, int, float, bool)) or x is None:
        return x
    return repr(x)


def case_hash(case) -> str:
    s = json.dumps(jsonable(case), sort_keys=True, separators=(",", ":"))
    return hashlib.sha1(s.encode()).hexdigest()[:16]


# ---------------------------------------------------------------------------
# state hygiene
# ---------------------------------------------------------------------------

_CACHED = None


def _find_cached():
    """All functools-cached callables defined in quimb modules."""
    out = []
    seen = set()
    for mname, mod in list(sys.modules.items()):
        if not (mname == "quimb" or mname.startswith("quimb.")) or mod is None:
            continue
        for attr, obj in list(vars(mod).items()):
            if id(obj) in seen:
                continue
            cc = getattr(obj, "cache_clear", None)
            if callable(cc) and getattr(obj, "__module__", "").startswith("quimb"):
                seen.add(id(obj))
                out.append(obj)
            if isinstance(obj, type) and getattr(obj, "__module__", "").startswith("quimb"):
                for a2, o2 in list(vars(obj).items()):
                    o2 = getattr(o2, "__func__", o2)
                    cc = getattr(o2, "cache_clear", None)
                    if callable(cc) and id(o2) not in seen:
                        seen.add(id(o2))
                        out.append(o2)
    return out


def reset_quimb_state(seed: int = 0):
    """Clear every process-global memo table quimb keeps and re-seed its RNG so a
    case's result is a pure function of the case (DESIGN 2.1 state hygiene)."""
    global _CACHED
    if "quimb" not in sys.modules:
        return
    n = len(sys.modules)
    if _CACHED is None or _CACHED[0] != n:
        _CACHED = (n, _find_cached())
    for f in _CACHED[1]:
        try:
            f.cache_clear()
        except Exception:
            pass
    try:
        import quimb as qu

        qu.seed_rand(seed)
    except Exception:
        pass


def quimb_frames(tb) -> list:
    """(file, func, line) of traceback frames that lie inside the quimb tree."""
    out = []
    root = os.path.join(os.path.realpath(REPO), "quimb") + os.sep
    for fs in traceback.extract_tb(tb):
        fn = os.path.realpath(fs.filename)
        if fn.startswith(root):
            out.append((os.path.relpath(fn, os.path.realpath(REPO)), fs.name, fs.lineno))
    return out


# ---------------------------------------------------------------------------
# numeric helpers
# ---------------------------------------------------------------------------

def fro(x) -> float:
    import numpy as np

    x = np.asarray(x)
    if x.size == 0:
        return 0.0
    return float(np.sqrt(np.sum(np.abs(x.astype(np.complex128)) ** 2)))


def rel_err(a, b, floor: float = 0.0) -> float:
    """‖a−b‖_F / max(‖a‖_F, ‖b‖_F, floor)  (0 when both and floor are 0)."""
    import numpy as np

    a = np.asarray(a)
    b = np.asarray(b)
    if a.shape != b.shape:
        if a.size == b.size and a.size == 1:
            a = a.reshape(())
            b = b.reshape(())
        else:
            return float("inf")
    with np.errstate(all="ignore"):
        d = fro(np.asarray(a, dtype=np.complex128) - np.asarray(b, dtype=np.complex128))
    scale = max(fro(a), fro(b), float(floor))
    if not np.isfinite(d):
        return float("inf")
    if scale == 0.0:
        return 0.0 if d == 0.0 else float("inf")
    return d / scale


def require_close(a, b, tol, floor=0.0, reason="value", **info) -> float:
    e = rel_err(a, b, floor)
    if not (e <= tol):
        raise Violation(reason, err=e, tol=tol, **info)
    return e


def is_single(dtype) -> bool:
    return str(dtype) in ("float32", "complex64")


def tol_for(dtype, exact=True):
    if is_single(dtype):
        return EXACT32 if exact else INV32
    return EXACT64 if exact else INV64


def with_deps():
    if DEPS not in sys.path:
        sys.path.append(DEPS)
