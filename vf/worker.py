"""Child process: run one (property, sub-check, shard) job and write a JSON result.

Exit status of the worker is always 0 when it managed to write its result file;
the parent decides the check's exit code from the result contents.
"""
from __future__ import annotations

import collections
import copy
import importlib
import itertools
import json
import os
import sys
import time
import traceback
import warnings
import zlib

from . import core
from .core import HarnessError, Reject, Violation, case_hash, jsonable


def _env_setup():
    for k in ("OMP_NUM_THREADS", "MKL_NUM_THREADS", "OPENBLAS_NUM_THREADS", "NUMBA_NUM_THREADS_UNSET"):
        os.environ.setdefault(k, "1")
    os.environ.setdefault("QUIMB_NUM_THREAD_WORKERS", "1")
    if core.REPO not in sys.path[:1]:
        sys.path.insert(0, core.REPO)
    warnings.simplefilter("ignore")


def load_property(prop: str):
    mod = importlib.import_module(f"vf.props.{prop}")
    subs = {s.name: s for s in mod.SUBCHECKS}
    return mod, subs


class Job:
    def __init__(self, prop, sub, tier, seed, shard, nshards, known, replay_dir):
        self.prop = prop
        self.sub = sub
        self.tier = tier
        self.ti = 0 if tier == "quick" else 1
        self.seed = seed
        self.shard = shard
        self.nshards = nshards
        self.known = known  # list of active open findings for this sub-check: dicts with id, match
        self.replay_dir = replay_dir
        self.t0 = time.time()
        self.executed = 0
        self.cells = 0
        self.rejected = 0
        self.excluded_known = collections.Counter()
        self.skipped_budget = 0
        self.nt_hashes = set()
        self.nt_cells = 0
        self.classes = collections.Counter()
        self.reject_reasons = collections.Counter()
        self.samples = []
        self.max_err = 0.0
        self.failures = []  # (size, path, reason)
        self.harness_error = None
        self.budget = float(os.environ.get("VERIF_SOFT_BUDGET") or sub.soft_budget[self.ti])  # override: harness self-test only
        self.cur_path = None
        self.steps = 0
        self.step_rejects = 0

    # -- one case ---------------------------------------------------------
    def over_budget(self):
        return (time.time() - self.t0) > self.budget

    def match_known(self, v: Violation):
        key = jsonable(v.key())
        for kf in self.known:
            m = kf["match"]
            if all(key.get(k) == val for k, val in m.items()):
                return kf
        return None

    def record_failure(self, case, v: Violation):
        rec = {
            "property": self.prop,
            "subcheck": self.sub.name,
            "tier": self.tier,
            "seed": self.seed,
            "reason": v.reason,
            "info": jsonable(v.info),
            "case": jsonable(case),
        }
        s = json.dumps(rec, sort_keys=True)
        size = len(json.dumps(rec["case"]))
        if self.failures and size >= min(f[0] for f in self.failures):
            self.failures.append((size, None, v.reason))
            return
        os.makedirs(self.replay_dir, exist_ok=True)
        path = os.path.join(self.replay_dir, f"{self.sub.name}-s{self.seed}-{self.shard}.json")
        with open(path, "w") as f:
            f.write(s)
        self.failures.append((size, path, v.reason))

    def execute(self, case, record=True):
        """Run one case; returns outcome dict or None (rejected / known). Raises
        Violation for an unlisted violation (after recording it)."""
        core.reset_quimb_state()
        self.executed += 1
        if self.cur_path:
            try:
                with open(self.cur_path, "w") as f:
                    json.dump(jsonable(case), f)
            except Exception:
                pass
        try:
            try:
                out = self.sub.run(case) or {}
            except (Reject, Violation, HarnessError):
                raise
            except Exception as e:  # noqa
                if type(e).__module__.startswith("hypothesis"):
                    raise
                frames = core.quimb_frames(e.__traceback__)
                if not frames:
                    raise HarnessError(
                        f"{type(e).__name__}: {e}\n" + "".join(traceback.format_exception(e))[-3000:]
                        + "\ncase: " + json.dumps(jsonable(case))[:3000]
                    ) from e
                fr = frames[-1]
                raise Violation(
                    "crash", exc=type(e).__name__, where=f"{fr[0]}:{fr[1]}", msg=str(e)[:200]
                ) from e
        except Reject as r:
            self.rejected += 1
            self.reject_reasons[r.reason[:60]] += 1
            return None
        except Violation as v:
            kf = self.match_known(v)
            if kf is not None:
                self.excluded_known[kf["id"]] += 1
                return None
            if record:
                self.record_failure(case, v)
            raise
        n = int(out.get("n", 1))
        self.cells += n
        if out.get("nt"):
            h = case_hash(case)
            if h not in self.nt_hashes:
                self.nt_hashes.add(h)
                self.nt_cells += int(out.get("nt_n", 1))
                if len(self.samples) < 3:
                    self.samples.append(jsonable(case))
        cls = out.get("cls")
        if cls:
            for c in [cls] if isinstance(cls, str) else cls:
                self.classes[str(c)] += n
        e = out.get("err")
        if e is not None:
            try:
                self.max_err = max(self.max_err, float(e))
            except Exception:
                pass
        return out

    # -- drivers ----------------------------------------------------------
    def hyp_settings(self, n):
        import hypothesis
        from hypothesis import HealthCheck, Phase, settings
        import hypothesis.internal.conjecture.engine as eng

        eng.MAX_SHRINKING_SECONDS = 25 if self.tier == "quick" else 120
        return settings(
            max_examples=n,
            database=None,
            deadline=None,
            derandomize=False,
            report_multiple_bugs=False,
            suppress_health_check=list(HealthCheck),
            phases=[Phase.generate, Phase.shrink],
            print_blob=False,
        )

    def hyp_seed(self):
        return zlib.crc32(f"{self.seed}:{self.prop}:{self.sub.name}:{self.shard}".encode())

    def run_given(self):
        import hypothesis
        from hypothesis import given

        n = self.sub.examples[self.ti]
        strat = self.sub.strategy(self.tier)
        job = self

        @hypothesis.seed(self.hyp_seed())
        @self.hyp_settings(n)
        @given(case=strat)
        def test(case):
            if job.over_budget() and not job.failures:
                job.skipped_budget += 1
                return
            job.execute(case)

        try:
            test()
        except Violation:
            pass
        except HarnessError:
            raise
        except Exception as e:
            if self.failures:
                return  # e.g. hypothesis Flaky after a recorded failure; re-verified below
            raise HarnessError(f"hypothesis driver: {type(e).__name__}: {e}\n{traceback.format_exc()[-3000:]}")

    def run_enum(self):
        it = self.sub.enum(self.tier)
        for case in itertools.islice(it, self.shard, None, self.nshards):
            try:
                self.execute(case)
            except Violation:
                if len([f for f in self.failures if f[1]]) >= 1 and len(self.failures) >= 20:
                    break

    def run_machine(self):
        import hypothesis
        from hypothesis import strategies as st
        from hypothesis.stateful import RuleBasedStateMachine, initialize, invariant, precondition, rule, run_state_machine_as_test

        spec = self.sub.machine
        job = self
        max_steps = spec.max_steps[self.ti]

        class Machine(RuleBasedStateMachine):
            def __init__(self):
                super().__init__()
                self.case = None
                self.state = None
                self.skip = False
                if job.over_budget() and not job.failures:
                    # stop generating: merely skipping the body would make the enabled rules (preconditions) depend on
                    # the wall clock, which Hypothesis reports as FlakyStrategyDefinition
                    raise _BudgetStop()

            @initialize(init=spec.init)
            def _init(self, init):
                self.case = {"init": init, "steps": []}
                if self.skip:
                    return
                core.reset_quimb_state()
                self._guard(lambda: setattr(self, "state", spec.start(init)))
                if self.state is not None and not self.skip:
                    self._guard(lambda: spec.invariant and spec.invariant(self.state))

            def _guard(self, fn):
                """Run fn translating outcomes exactly like Job.execute."""
                try:
                    try:
                        fn()
                    except (Reject, Violation, HarnessError):
                        raise
                    except Exception as e:
                        if type(e).__module__.startswith("hypothesis"):
                            raise
                        frames = core.quimb_frames(e.__traceback__)
                        if not frames:
                            raise HarnessError(
                                f"{type(e).__name__}: {e}\n" + "".join(traceback.format_exception(e))[-3000:]
                            ) from e
                        fr = frames[-1]
                        raise Violation("crash", exc=type(e).__name__, where=f"{fr[0]}:{fr[1]}", msg=str(e)[:200]) from e
                except Reject as r:
                    job.step_rejects += 1
                    job.reject_reasons[r.reason[:60]] += 1
                    return False
                except Violation as v:
                    kf = job.match_known(v)
                    if kf is not None:
                        job.excluded_known[kf["id"]] += 1
                        # a known finding ends this history (state may be unsound)
                        self.skip = True
                        return False
                    job.record_failure(copy.deepcopy(self.case), v)
                    raise
                return True

            def _step(self, name, args):
                if self.skip or self.state is None:
                    return
                job.steps += 1
                self.case["steps"].append([name, jsonable(args)])
                fn = spec.ops[name][1]
                self._guard(lambda: fn(self.state, args))
                if not self.skip:
                    self._guard(lambda: spec.invariant and spec.invariant(self.state))

            def teardown(self):
                if self.case is None or self.state is None or self.skip:
                    return
                job.executed += 1
                out = {}
                if spec.finish:
                    try:
                        out = spec.finish(self.state) or {}
                    except Exception:
                        out = {}
                job.cells += 1
                job.classes["steps=%d" % min(len(self.case["steps"]) // 5 * 5, 50)] += 1
                if out.get("nt"):
                    h = case_hash(self.case)
                    if h not in job.nt_hashes:
                        job.nt_hashes.add(h)
                        job.nt_cells += 1
                        if len(job.samples) < 2:
                            job.samples.append(jsonable(self.case))
                cls = out.get("cls")
                if cls:
                    for c in [cls] if isinstance(cls, str) else cls:
                        job.classes[str(c)] += 1
                if out.get("err") is not None:
                    job.max_err = max(job.max_err, float(out["err"]))

        def make_rule(name, strat, pre):
            def r(self, args):
                self._step(name, args)

            r.__name__ = "op_" + name
            r = rule(args=strat)(r)
            if pre is not None:
                r = precondition(lambda self, pre=pre: self.state is not None and pre(self.state))(r)
            return r

        for name, (strat, fn) in spec.ops.items():
            setattr(Machine, "op_" + name, make_rule(name, strat, spec.preconditions.get(name)))

        import hypothesis.internal.conjecture.engine as eng

        s = self.hyp_settings(self.sub.examples[self.ti])
        from hypothesis import settings

        s = settings(s, stateful_step_count=max_steps)
        try:
            run_state_machine_as_test(hypothesis.seed(self.hyp_seed())(Machine), settings=s)
        except _BudgetStop:
            self.skipped_budget += max(1, int(self.sub.examples[self.ti]) - self.executed - self.rejected)
        except Violation:
            pass
        except HarnessError:
            raise
        except Exception as e:
            if self.failures:
                return
            raise HarnessError(f"stateful driver: {type(e).__name__}: {e}\n{traceback.format_exc()[-3000:]}")

    def run(self):
        if self.sub.enum is not None:
            self.run_enum()
        elif self.sub.machine is not None:
            self.run_machine()
        else:
            self.run_given()

    def verify_failures(self):
        """Re-run the smallest recorded failing case outside Hypothesis."""
        paths = [f for f in self.failures if f[1]]
        if not paths:
            return []
        size, path, reason = min(paths)
        rec = json.load(open(path))
        ok = False
        for _ in range(3):
            try:
                replay_case(self.sub, rec["case"], self)
            except Violation:
                ok = True
                break
            except Exception:
                continue
        return [{"replay": path, "reason": reason, "reproduced": ok, "info": rec.get("info")}]

    def result(self):
        return {
            "property": self.prop,
            "subcheck": self.sub.name,
            "shard": self.shard,
            "executed": self.executed,
            "cells": self.cells,
            "rejected": self.rejected,
            "reject_reasons": dict(self.reject_reasons.most_common(8)),
            "excluded_known": dict(self.excluded_known),
            "skipped_budget": self.skipped_budget,
            "nt_hashes": sorted(self.nt_hashes),
            "nt_cells": self.nt_cells,
            "classes": dict(self.classes),
            "samples": self.samples,
            "max_err": self.max_err,
            "steps": self.steps,
            "step_rejects": self.step_rejects,
            "wall_s": round(time.time() - self.t0, 2),
            "exhaustive": bool(self.sub.exhaustive),
            "mode": "enum" if self.sub.enum else ("machine" if self.sub.machine else "given"),
        }


class _BudgetStop(KeyboardInterrupt):
    """Raised inside a state machine when the soft budget is used up; not an Exception, so Hypothesis lets it through
    without treating it as a failing example."""


def replay_case(sub, case, job=None):
    """Run one case with no Hypothesis involved. Raises Violation on failure."""
    core.reset_quimb_state()
    if sub.machine is not None:
        spec = sub.machine

        def guard(fn):
            try:
                fn()
            except Reject:
                return
            except (Violation, HarnessError):
                raise
            except Exception as e:
                frames = core.quimb_frames(e.__traceback__)
                if not frames:
                    raise HarnessError(f"{type(e).__name__}: {e}\n{traceback.format_exc()[-3000:]}") from e
                fr = frames[-1]
                raise Violation("crash", exc=type(e).__name__, where=f"{fr[0]}:{fr[1]}", msg=str(e)[:200]) from e

        box = {}
        guard(lambda: box.__setitem__("s", spec.start(case["init"])))
        if "s" not in box:
            return {}
        state = box["s"]
        if spec.invariant:
            guard(lambda: spec.invariant(state))
        for name, args in case["steps"]:
            guard(lambda: spec.ops[name][1](state, args))
            if spec.invariant:
                guard(lambda: spec.invariant(state))
        return (spec.finish(state) if spec.finish else {}) or {}
    try:
        return sub.run(case) or {}
    except (Reject,):
        return {}
    except (Violation, HarnessError):
        raise
    except Exception as e:
        frames = core.quimb_frames(e.__traceback__)
        if not frames:
            raise HarnessError(f"{type(e).__name__}: {e}\n{traceback.format_exc()[-3000:]}") from e
        fr = frames[-1]
        raise Violation("crash", exc=type(e).__name__, where=f"{fr[0]}:{fr[1]}", msg=str(e)[:200]) from e


def main(argv):
    _env_setup()
    spec = json.loads(argv[1])
    out_path = spec["out"]
    res = {"harness_error": None}
    try:
        mod, subs = load_property(spec["property"])
        sub = subs[spec["subcheck"]]
        if sub.needs_deps:
            core.with_deps()
        job = Job(
            spec["property"], sub, spec["tier"], spec["seed"], spec["shard"], spec["nshards"],
            spec.get("known", []), spec["replay_dir"],
        )
        job.cur_path = out_path + ".cur"
        try:
            job.run()
        except HarnessError as e:
            res["harness_error"] = str(e)
        res.update(job.result())
        res["violations"] = job.verify_failures()
    except BaseException as e:  # noqa
        res["harness_error"] = f"{type(e).__name__}: {e}\n{traceback.format_exc()[-4000:]}"
    tmp = out_path + ".tmp"
    with open(tmp, "w") as f:
        json.dump(jsonable(res), f)
    os.replace(tmp, out_path)
    return 0


if __name__ == "__main__":
    sys.exit(main(sys.argv))
