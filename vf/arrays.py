"""Array contents as a pure function of (seed, kind, shape, dtype).

Hypothesis draws the *seed* and the *kind*; the numbers come from
numpy.random.default_rng(seed).  This keeps every random choice inside the
library (replayable, shrinkable) while structure that matters (rank
deficiency, zeros, diagonal, isometry ...) is constructed, not hoped for.
"""
from __future__ import annotations

import numpy as np
from hypothesis import strategies as st

DTYPES = ("float64", "complex128", "float32", "complex64")
DTYPES64 = ("float64", "complex128")


def _raw(rng, shape, dtype):
    x = rng.normal(size=shape)
    if "complex" in str(dtype):
        x = x + 1j * rng.normal(size=shape)
    return x


def make_array(seed, kind, shape, dtype="float64"):
    shape = tuple(int(s) for s in shape)
    rng = np.random.default_rng(int(seed))
    dt = np.dtype(dtype)
    n = int(np.prod(shape)) if shape else 1
    if kind == "gauss":
        x = _raw(rng, shape, dt)
    elif kind == "uniform_pos":
        x = rng.uniform(0.1, 1.0, size=shape)
    elif kind == "zeros":
        x = np.zeros(shape)
    elif kind == "ones":
        x = np.ones(shape)
    elif kind == "tiny":
        x = _raw(rng, shape, dt) * 1e-30
    elif kind == "huge":
        x = _raw(rng, shape, dt) * 1e30
    elif kind == "int":
        x = rng.integers(-2, 3, size=shape).astype(float)
    elif kind == "sparse":
        x = _raw(rng, shape, dt) * (rng.random(size=shape) < 0.4)
    elif kind in ("diag", "antidiag", "identity", "rank1", "single_column"):
        # structure on the last two axes (if square) else fall back to gauss
        x = _raw(rng, shape, dt)
        if len(shape) >= 2:
            a, b = shape[-2], shape[-1]
            if kind == "rank1":
                u = _raw(rng, shape[:-1] + (1,), dt)
                v = _raw(rng, (1,) * (len(shape) - 1) + (b,), dt)
                x = u * v
            elif kind == "single_column":
                m = np.zeros(shape)
                m[..., int(rng.integers(b))] = 1.0
                x = x * m
            elif a == b:
                eye = np.eye(a)
                if kind == "antidiag":
                    eye = eye[::-1]
                if kind == "identity":
                    x = np.broadcast_to(eye, shape).copy()
                else:
                    x = x * eye
    else:
        raise ValueError(f"unknown array kind {kind}")
    if "complex" not in str(dt):
        x = np.real(x)
    return np.array(x, dtype=dt, order="C").reshape(shape)


def make_matrix(seed, kind, m, n, dtype="float64", rank=None):
    """Matrices with constructed spectral structure."""
    rng = np.random.default_rng(int(seed))
    dt = np.dtype(dtype)
    cplx = "complex" in str(dt)

    def g(*s):
        x = rng.normal(size=s)
        if cplx:
            x = x + 1j * rng.normal(size=s)
        return x

    k = min(m, n)
    if kind == "gauss":
        x = g(m, n)
    elif kind == "zeros":
        x = np.zeros((m, n))
    elif kind == "rank_k":
        r = max(1, min(k, rank if rank is not None else int(rng.integers(1, k + 1))))
        x = g(m, r) @ g(r, n)
    elif kind == "degenerate":
        u, _ = np.linalg.qr(g(m, k))
        v, _ = np.linalg.qr(g(n, k))
        s = np.sort(rng.choice([2.0, 1.0, 0.5], size=k))[::-1]
        x = (u * s) @ v.conj().T
    elif kind == "spread":
        u, _ = np.linalg.qr(g(m, k))
        v, _ = np.linalg.qr(g(n, k))
        s = 2.0 ** (-np.arange(k) * rng.uniform(0.3, 2.0))
        x = (u * s) @ v.conj().T
    elif kind == "hermitian":
        a = g(m, m)
        x = a + a.conj().T
    elif kind == "psd":
        a = g(m, m)
        x = a @ a.conj().T + 0.1 * np.eye(m)
    elif kind == "unitary":
        x, _ = np.linalg.qr(g(m, m))
    elif kind == "isometry":
        x, _ = np.linalg.qr(g(max(m, n), min(m, n)))
        if m < n:
            x = x.T
    elif kind == "identity":
        x = np.eye(m, n)
    else:
        raise ValueError(kind)
    if not cplx:
        x = np.real(x)
    return np.array(x, dtype=dt, order="C")


def rand_unitary(seed, d, dtype="complex128"):
    return make_matrix(seed, "unitary", d, d, dtype)


def rand_herm(seed, d, dtype="complex128"):
    return make_matrix(seed, "hermitian", d, d, dtype)


def rand_state(seed, d, dtype="complex128", normalized=True):
    rng = np.random.default_rng(int(seed))
    x = rng.normal(size=d)
    if "complex" in str(dtype):
        x = x + 1j * rng.normal(size=d)
    if normalized:
        x = x / np.linalg.norm(x)
    return x.astype(dtype)


def rand_rho(seed, d, rank=None, dtype="complex128"):
    rng = np.random.default_rng(int(seed))
    r = d if rank is None else max(1, min(d, rank))
    a = rng.normal(size=(d, r))
    if "complex" in str(dtype):
        a = a + 1j * rng.normal(size=(d, r))
    rho = a @ a.conj().T
    return (rho / np.trace(rho).real).astype(dtype)


# ---- strategies -----------------------------------------------------------

seeds = st.integers(0, 2**31 - 1)


def kinds(*names):
    return st.sampled_from(names)


dtypes_all = st.sampled_from(DTYPES)
dtypes64 = st.sampled_from(DTYPES64)
