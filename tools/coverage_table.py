#!/venv/bin/python
"""Refresh the 'evaluations (non-trivial)' column of the table in DESIGN.md section 8.2 from evidence/*.json (quick tier)."""
import json, os, re
ROOT = os.path.dirname(os.path.dirname(os.path.abspath(__file__)))


def fmt(n):
    if n >= 1e6:
        return f"{n / 1e6:.2f}M"
    if n >= 1e4:
        return f"{n / 1e3:.0f}k"
    if n >= 1e3:
        return f"{n / 1e3:.1f}k"
    return str(n)


p = os.path.join(ROOT, "DESIGN.md")
s = open(p).read()
for i in range(1, 21):
    pid = f"C{i:02d}"
    ev = json.load(open(os.path.join(ROOT, "evidence", pid + ".json")))
    c = ev["coverage"]
    col = f"{fmt(c['evaluations'])} ({fmt(c['distinct_nontrivial'])}), {len(c['subchecks'])} sub-checks"
    s, n = re.subn(r"(\| %s \| [^|]*\| )[^|]*( \| [^|]*\|)" % pid, lambda m: m.group(1) + col + m.group(2), s, count=1)
    print(pid, n, col, ev["tier"], ev["seed"])
open(p, "w").write(s)
