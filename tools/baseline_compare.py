#!/venv/bin/python
"""Compare a junit xml from the baseline command with BASELINE.json stable_pass."""
import json, sys, xml.etree.ElementTree as ET
base = json.load(open("/root/.vp/BASELINE.json"))
want = set(base["stable_pass"])
tree = ET.parse(sys.argv[1])
got = {}
for tc in tree.iter("testcase"):
    name = tc.get("classname", "") + "::" + tc.get("name", "")
    bad = any(ch.tag in ("failure", "error", "skipped") for ch in tc)
    got[name] = not bad
missing = sorted(n for n in want if not got.get(n, False))
print("stable_pass", len(want), "passed now", sum(got.values()), "stable tests not passing now:", len(missing))
for m in missing[:40]:
    print("  ", m, "(absent)" if m not in got else "(failed)")
sys.exit(1 if missing else 0)
