#!/venv/bin/python
"""Confirm an independently written breaking change and run the property's check against it.

    tools/verify_seed.py C01 /tmp/seed-out/C01-1 [--tests "tests/a.py tests/b.py"] [--jobs 8] [--keep seeded/C01-1]

1. scratch worktree of /repo HEAD
2. demo.py on the clean tree must exit 0
3. patch applies; demo.py must exit != 0
4. the listed existing tests give the same pass/fail sets with and without the patch
5. ./check <prop> with VERIF_REPO=<scratch> : VIOLATION expected
6. worktree removed; with --keep the patch, demo and meta.json are stored under /verif/<keep>/
"""
import json
import os
import re
import shutil
import subprocess
import sys
import time

ROOT = os.path.dirname(os.path.dirname(os.path.abspath(__file__)))


def sh(cmd, timeout=3600, **kw):
    try:
        r = subprocess.run(cmd, shell=True, stdout=subprocess.PIPE, stderr=subprocess.STDOUT, text=True, timeout=timeout, **kw)
        return r.returncode, r.stdout
    except subprocess.TimeoutExpired as e:
        return 124, (e.stdout or b"").decode() if isinstance(e.stdout, bytes) else (e.stdout or "")


def test_sets(wt, tests):
    rc, out = sh(f"cd {wt} && timeout 3000 /venv/bin/python -m pytest -q -p no:cacheprovider -n 0 -x --timeout=600 -rfE {tests} 2>&1 | tail -40")
    failed = sorted(set(re.findall(r"^(?:FAILED|ERROR) (\S+)", out, re.M)))
    m = re.search(r"(\d+) passed", out)
    return failed, int(m.group(1)) if m else -1, out[-600:]


def main():
    av = sys.argv[1:]
    opts, pos, i = {}, [], 0
    while i < len(av):
        if av[i].startswith("--"):
            opts[av[i][2:]] = av[i + 1]
            i += 2
        else:
            pos.append(av[i])
            i += 1
    prop, sdir = pos[0], pos[1].rstrip("/")
    wt = f"/tmp/vs-{os.path.basename(sdir)}-{os.getpid()}"
    meta = {"property": prop, "source_dir": sdir, "repo_head": sh("git -C /repo rev-parse --short=8 HEAD")[1].strip()}
    sh(f"git -C /repo worktree add --detach {wt} HEAD")
    try:
        demo = os.path.join(sdir, "demo.py")
        rc0, out0 = sh(f"timeout 900 /venv/bin/python {demo} {wt}")
        meta["demo_clean_rc"] = rc0
        tests = opts.get("tests", "")
        if tests:
            f0, p0, t0 = test_sets(wt, tests)
        rc, out = sh(f"git -C {wt} apply {os.path.join(sdir, 'patch.diff')}")
        meta["patch_applies"] = rc == 0
        if rc:
            print("PATCH DOES NOT APPLY", out)
            meta["status"] = "patch-failed"
            return meta
        rc1, out1 = sh(f"timeout 900 /venv/bin/python {demo} {wt}")
        meta["demo_patched_rc"] = rc1
        meta["demo_patched_tail"] = out1[-300:]
        if tests:
            f1, p1, t1 = test_sets(wt, tests)
            meta["tests"] = {"files": tests, "clean": {"passed": p0, "failed": f0}, "patched": {"passed": p1, "failed": f1},
                             "same": (p0, f0) == (p1, f1)}
        t = time.time()
        env = dict(os.environ, VERIF_REPO=wt)
        rc2, out2 = sh(f"cd {ROOT} && ./check {prop} --jobs {opts.get('jobs', '8')}", env=env)
        viol = [l for l in out2.splitlines() if l.startswith("violation in") or l.startswith("VIOLATION") or l.startswith("regression")]
        meta["check_rc"] = rc2
        meta["check_wall_s"] = round(time.time() - t)
        meta["check_first_violations"] = viol[:4]
        meta["caught"] = rc2 == 1 and bool(viol)
        meta["confirmed"] = rc0 == 0 and rc1 != 0 and (not tests or meta["tests"]["same"])
        meta["status"] = ("CAUGHT" if meta["caught"] else "MISSED") + ("" if meta["confirmed"] else " (NOT CONFIRMED)")
    finally:
        sh(f"git -C /repo worktree remove --force {wt}")
    print(json.dumps(meta, indent=1))
    keep = opts.get("keep")
    if keep:
        d = os.path.join(ROOT, keep)
        os.makedirs(d, exist_ok=True)
        for f in ("patch.diff", "demo.py", "README.md"):
            if os.path.exists(os.path.join(sdir, f)):
                shutil.copy(os.path.join(sdir, f), os.path.join(d, f))
        json.dump(meta, open(os.path.join(d, "meta.json"), "w"), indent=1)
    return meta


if __name__ == "__main__":
    main()
