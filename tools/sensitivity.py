#!/venv/bin/python
"""Sensitivity protocol (DESIGN 2.9): apply each registered mutation to a scratch
worktree of /repo, run the property's quick check against it (VERIF_REPO), and
report whether a VIOLATION was raised.  Usage:

    tools/sensitivity.py C02 [mutation-name ...] [--jobs N] [--only sub1,sub2]

Mutations live in tools/mutations/<Cxx>.json:
    [{"name": ..., "file": "quimb/...py", "old": "...", "new": "..."}, ...]
Seeded patches under seeded/<Cxx>-*/patch.diff are also run (as `seeded:<dir>`).
"""
import glob
import json
import os
import subprocess
import sys
import time

ROOT = os.path.dirname(os.path.dirname(os.path.abspath(__file__)))


def sh(cmd, **kw):
    return subprocess.run(cmd, shell=True, stdout=subprocess.PIPE, stderr=subprocess.STDOUT, text=True, **kw)


def main():
    args = [a for a in sys.argv[1:] if not a.startswith("--")]
    opts = {}
    av = sys.argv[1:]
    for i, a in enumerate(av):
        if a.startswith("--"):
            opts[a[2:]] = av[i + 1]
    args = [a for a in args if a not in opts.values()]
    prop = args[0]
    wanted = set(args[1:])
    jobs = opts.get("jobs", "8")
    wt = f"/tmp/vf-mut-{prop}-{os.getpid()}"
    sh(f"git -C /repo worktree add --detach {wt} HEAD")
    results = []
    try:
        muts = []
        mf = os.path.join(ROOT, "tools", "mutations", f"{prop}.json")
        if os.path.exists(mf):
            muts += json.load(open(mf))
        for d in sorted(glob.glob(os.path.join(ROOT, "seeded", f"{prop}-*"))):
            if os.path.exists(os.path.join(d, "patch.diff")):
                muts.append({"name": "seeded:" + os.path.basename(d), "patch": os.path.join(d, "patch.diff")})
        for m in muts:
            if wanted and m["name"] not in wanted:
                continue
            sh(f"git -C {wt} checkout -- .")
            if "patch" in m:
                r = sh(f"git -C {wt} apply {m['patch']}")
                if r.returncode:
                    results.append((m["name"], "PATCH-FAILED", r.stdout[-300:]))
                    continue
            else:
                p = os.path.join(wt, m["file"])
                s = open(p).read()
                if s.count(m["old"]) != 1:
                    results.append((m["name"], f"ANCHOR-COUNT={s.count(m['old'])}", ""))
                    continue
                open(p, "w").write(s.replace(m["old"], m["new"]))
            t0 = time.time()
            env = dict(os.environ, VERIF_REPO=wt, VERIF_SENSITIVITY="1")
            cmd = f"cd {ROOT} && ./check {prop} --jobs {jobs}" + (f" --only {opts['only']}" if "only" in opts else " --only " + m["only"] if m.get("only") else "")
            r = sh(cmd, env=env)
            viol = [l for l in r.stdout.splitlines() if l.startswith("VIOLATION") or l.startswith("violation in")]
            status = "CAUGHT" if r.returncode == 1 and viol else f"MISSED(rc={r.returncode})"
            results.append((m["name"], status, (viol[0] if viol else r.stdout[-400:]) + f"  [{time.time() - t0:.0f}s]"))
            print(results[-1], flush=True)
    finally:
        sh(f"git -C /repo worktree remove --force {wt}")
        sh(f"rm -rf {ROOT}/.cache/numba/*") if False else None
    print("\n== sensitivity", prop)
    for r in results:
        print(f"{r[1]:22s} {r[0]:40s} {r[2][:200]}")
    return 0 if all(r[1] == "CAUGHT" for r in results) else 1


if __name__ == "__main__":
    sys.exit(main())
