#!/venv/bin/python
"""Integrate one reviewed proposed fix:

    tools/integrate_fix.py C05 a "fix: one line subject" ["body ..."] [--ids C05-a,C05-a2] [--diff proposed_fixes/C05-a.diff]

* git apply the diff in /repo and commit it (message must start with 'fix:')
* rename vf/regressions/<prop>/<id>*.json.pending -> .json for the finding ids
* drop the matching `finding:` lines from known/<prop>.txt and append `fixed:` lines to known_findings.txt
"""
import glob
import os
import re
import subprocess
import sys

ROOT = os.path.dirname(os.path.dirname(os.path.abspath(__file__)))


def sh(cmd, check=True):
    r = subprocess.run(cmd, shell=True, stdout=subprocess.PIPE, stderr=subprocess.STDOUT, text=True)
    if check and r.returncode:
        print(r.stdout)
        sys.exit(f"failed: {cmd}")
    return r.stdout


def main():
    av = sys.argv[1:]
    opts = {}
    pos = []
    i = 0
    while i < len(av):
        if av[i].startswith("--"):
            opts[av[i][2:]] = av[i + 1]
            i += 2
        else:
            pos.append(av[i])
            i += 1
    prop, fid, subject = pos[0], pos[1], pos[2]
    body = pos[3] if len(pos) > 3 else ""
    assert subject.startswith("fix:"), "commit subject must start with fix:"
    diff = opts.get("diff", os.path.join(ROOT, "proposed_fixes", f"{prop}-{fid}.diff"))
    ids = opts.get("ids", f"{prop}-{fid}").split(",")
    if sh("git -C /repo status --porcelain --untracked-files=no").strip():
        sys.exit("/repo has uncommitted tracked changes")
    sh(f"git -C /repo apply --3way {diff} || git -C /repo apply {diff}")
    msg = subject + ("\n\n" + body if body else "")
    with open("/tmp/_fixmsg.txt", "w") as f:
        f.write(msg)
    sh("git -C /repo commit -q -a -F /tmp/_fixmsg.txt")
    sha = sh("git -C /repo rev-parse --short=8 HEAD").strip()
    # regressions
    moved = []
    for fid_ in ids:
        for p in glob.glob(os.path.join(ROOT, "vf", "regressions", prop, f"{fid_}*.json.pending")):
            # exact id or id followed by a non-alphanumeric char
            base = os.path.basename(p)
            rest = base[len(fid_):]
            if rest[0].isalnum():
                continue
            os.rename(p, p[: -len(".pending")])
            moved.append(os.path.basename(p)[: -len(".pending")])
    # known file
    kf = os.path.join(ROOT, "known_findings.txt")
    texts = []
    if os.path.exists(kf):
        keep = []
        for line in open(kf).read().splitlines():
            m = re.match(r"finding:\s+property=\S+\s+id=(\S+)\s", line)
            if m and any(m.group(1) == x or (m.group(1).startswith(x) and not m.group(1)[len(x):][0].isalnum()) or
                         (m.group(1).startswith(x) and m.group(1)[len(x):].isdigit()) for x in ids):
                texts.append(line.split("::")[1].strip())
            else:
                keep.append(line)
        open(kf, "w").write("\n".join(keep) + "\n")
    text = texts[0] if texts else subject[4:].strip()
    with open(os.path.join(ROOT, "known_findings.txt"), "a") as f:
        f.write(f"fixed: property={prop} {sha} {text}\n")
    print(f"committed {sha}; regressions activated: {moved}; findings dropped: {len(texts)}")


if __name__ == "__main__":
    main()
