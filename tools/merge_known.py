#!/venv/bin/python
"""tools/merge_known.py Cxx id1,id2,...  : the last len(ids) `fixed:` lines of known_findings.txt (written by integrate_fix.py,
in that order) get the finding texts of known/Cxx.txt; finding lines of known/Cxx.txt whose id is not listed are appended as
open findings; known/Cxx.txt is removed."""
import os, re, sys
ROOT = os.path.dirname(os.path.dirname(os.path.abspath(__file__)))
prop, ids = sys.argv[1], [x for x in sys.argv[2].split(",") if x]
kp = os.path.join(ROOT, "known", prop + ".txt")
finds, open_lines = {}, []
for l in open(kp):
    m = re.match(r"finding:\s+property=\S+\s+id=(\S+)\s+subcheck=\S+\s+::\s+(.*?)\s+::", l)
    if not m:
        continue
    hit = [i for i in ids if m.group(1) == i or m.group(1).startswith(i + "-") or (m.group(1).startswith(i) and m.group(1)[len(i):].isdigit())]
    if hit:
        finds.setdefault(hit[0], m.group(2))
    else:
        open_lines.append(l.rstrip("\n"))
kf = os.path.join(ROOT, "known_findings.txt")
lines = open(kf).read().splitlines()
n = len(ids)
tail, new = lines[-n:] if n else [], []
for l, i in zip(tail, ids):
    m = re.match(r"(fixed: property=%s \S+) " % prop, l)
    assert m, l
    new.append(m.group(1) + " " + finds.get(i, l[len(m.group(1)) + 1:]))
lines = (lines[:-n] if n else lines) + new + open_lines
open(kf, "w").write("\n".join(lines) + "\n")
os.remove(kp)
print("fixed texts:", len(new), "open appended:", len(open_lines))
