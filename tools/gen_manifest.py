#!/venv/bin/python
"""Regenerate MANIFEST.json from vf/props/*.py (run from /verif)."""
import json, os, sys, importlib
ROOT = os.path.dirname(os.path.dirname(os.path.abspath(__file__)))
sys.path.insert(0, ROOT); sys.path.insert(0, "/repo")
props = [json.loads(l) for l in open(os.path.join(ROOT, "properties.jsonl"))]
BASE = json.load(open("/root/.vp/BASELINE.json"))["cmd"] if os.path.exists("/root/.vp/BASELINE.json") else ""
META = json.load(open(os.path.join(ROOT, "tools", "manifest_meta.json")))
checks, na = [], []
for p in props:
    pid = p["id"]
    if os.path.exists(os.path.join(ROOT, "vf", "props", f"{pid}.py")) and pid in META["claimed"]:
        m = META["claimed"][pid]
        checks.append({
            "property_id": pid,
            "quick_cmd": f"./check {pid} --tier quick",
            "thorough_cmd": f"./check {pid} --tier thorough",
            "evidence_file": f"evidence/{pid}.json",
            "replay_cmd_template": f"./check {pid} --replay {{path}}",
            "engine": "vf",
            "level_claimed": {"category": "exploration", "text": m["text"], "design_ref": f"DESIGN.md section 3 / {pid}"},
            "level_note": m["note"],
            "technique": m["technique"],
        })
    else:
        na.append({"property_id": pid, "reason": META["not_applicable"].get(pid, "check not built yet in this session (planned: DESIGN.md section 3); not claimed until its check runs clean on the unchanged tree")})
man = {
    "version": 1,
    "setup_cmd": "./setup.sh",
    "hooks": {"guard": "QUIMB_VERIF", "enable": "no repository hooks are needed: every property is observed through public API; run-time wrappers live inside the check process", "baseline_off_cmd": BASE.replace("<file>", "/tmp/quimb-baseline.junit.xml"), "source_commits": [], "add_only": True},
    "engines": [{"name": "vf", "path": "vf/", "serves_properties": [c["property_id"] for c in checks],
                 "kind_free_text": "Hypothesis 6.168 (@given strategies, RuleBasedStateMachine histories) + exhaustive itertools enumeration, 16 worker processes, numpy reference oracles, JSON replay files that bypass Hypothesis"}],
    "checks": checks,
    "notes": META.get("notes", ""),
    "not_applicable": na,
}
json.dump(man, open(os.path.join(ROOT, "MANIFEST.json"), "w"), indent=1)
print("claimed", [c["property_id"] for c in checks], "n/a", [n["property_id"] for n in na])
