import numpy as np, quimb as qu, quimb.tensor as qtn, warnings, collections, itertools
warnings.simplefilter('ignore')
rng=np.random.default_rng(0)
def mk(edges,D,phys,seed,dtype,exponent=0.0):
    tn=qtn.TN_from_edges_rand(edges,D,phys_dim=phys,seed=seed,dtype=dtype)
    tn.exponent=exponent
    return tn
def dense(tn,oix): 
    if oix: return tn.contract(all,output_inds=oix,preserve_tensor=True).data
    return np.asarray(tn.contract(all,output_inds=()))
geoms={'tree':[(0,1),(1,2),(1,3),(3,4)],'loop':[(0,1),(1,2),(2,3),(3,0)],'loopy':[(0,1),(1,2),(2,3),(3,0),(0,2),(3,4)],'multi':[(0,1),(0,1),(1,2)] }
ops=[
 ('canonize_between',lambda tn:tn.canonize_between('I0','I1')),
 ('canonize_between-left',lambda tn:tn.canonize_between('I0','I1',absorb='left')),
 ('canonize_between-both',lambda tn:tn.canonize_between('I0','I1',absorb='both')),
 ('canonize_around',lambda tn:tn.canonize_around_('I1')),
 ('canonize_around-md1',lambda tn:tn.canonize_around_('I1',max_distance=1)),
 ('canonize_around-any2',lambda tn:tn.canonize_around_(['I1','I2'],which='any')),
 ('gauge_all_canonize',lambda tn:tn.gauge_all_canonize_()),
 ('gauge_all_simple',lambda tn:tn.gauge_all_simple_()),
 ('gauge_all_simple-gauges',lambda tn:(lambda g:(tn.gauge_all_simple_(gauges=g), tn.gauge_simple_insert(g)))({})),
 ('gauge_all_bp',lambda tn:tn.gauge_all_belief_propagation_()),
 ('gauge_all_random',lambda tn:tn.gauge_all_random_()),
 ('gauge_local',lambda tn:tn.gauge_local_('I1')),
 ('balance_bonds',lambda tn:tn.balance_bonds_()),
 ('equalize_norms',lambda tn:tn.equalize_norms_()),
 ('equalize_norms1',lambda tn:tn.equalize_norms_(1.0)),
 ('fuse_multibonds',lambda tn:tn.fuse_multibonds_()),
 ('squeeze',lambda tn:tn.squeeze_()),
 ('squeeze-fuse',lambda tn:tn.squeeze_(fuse=True)),
 ('compress_all-notrunc',lambda tn:tn.compress_all_(max_bond=None,cutoff=0.0)),
 ('compress_all_tree',lambda tn:tn.compress_all_tree_(max_bond=None,cutoff=0.0)),
 ('compress_all_simple',lambda tn:tn.compress_all_simple_(max_bond=None,cutoff=0.0)),
 ('compress_all_1d',lambda tn:tn.compress_all_1d_(max_bond=None,cutoff=0.0)),
 ('compress_between',lambda tn:tn.compress_between('I0','I1',max_bond=None,cutoff=0.0)),
 ('compress_between-basic',lambda tn:tn.compress_between('I0','I1',max_bond=None,cutoff=0.0,mode='basic',canonize_distance=2)),
 ('compress_between-vtree',lambda tn:tn.compress_between('I0','I1',max_bond=None,cutoff=0.0,mode='virtual-tree',canonize_distance=2)),
 ('compress_between-fullbond',lambda tn:tn.compress_between('I0','I1',max_bond=None,cutoff=0.0,mode='full-bond')),
 ('strip_exponent',lambda tn:tn.strip_exponent(next(iter(tn.tensor_map)))),
 ('distribute_exponent',lambda tn:tn.distribute_exponent()),
 ('full_simplify-all',lambda tn:tn.full_simplify_('ADCRSLP',output_inds=tn.outer_inds())),
 ('expand_bond_dimension',lambda tn:tn.expand_bond_dimension_(5)),
 ('isometrize-then',lambda tn:None),
]
res=collections.Counter()
for gname,edges in geoms.items():
  for phys in (None,2):
    for dtype in ('float64','complex128'):
      for expo in (0.0,1.5):
        for name,f in ops:
            tn=mk(edges,3,phys,1,dtype,expo)
            oix=tuple(tn.outer_inds()); ref=dense(tn,oix)
            try:
                f(tn)
                ok= set(tn.outer_inds())==set(oix) and np.allclose(dense(tn,oix),ref,rtol=1e-7,atol=1e-9*np.abs(ref).max())
                res[(name,'ok' if ok else 'WRONG')]+=1
                if not ok and res[(name,'WRONG')]<3: print('WRONG',name,gname,phys,dtype,expo)
            except Exception as e:
                k=(name,'ERR '+type(e).__name__+' '+str(e)[:50]); res[k]+=1
                if res[k]<2: print(k,gname,phys,dtype,expo)
for k,v in sorted(res.items(),key=str): print(k,v)
