import numpy as np, quimb as qu, quimb.tensor as qtn, warnings, collections, itertools
warnings.simplefilter('ignore')
rng=np.random.default_rng(0)
def crand(*s): return rng.normal(size=s)+1j*rng.normal(size=s)
res=collections.Counter()
def embed(G,dims,where):
    return np.asarray(qu.pkron(G,dims,where))
# --- MPS
L=5
for cyc in (False,True):
  psi=qtn.MPS_rand_state(L,3,cyclic=cyc,seed=1,dtype='complex128'); d0=psi.to_dense()
  for where in [(2,),(1,2),(2,1),(0,3),(3,0),(0,4),(1,2,3),(3,1,0)]:
    G=crand(2**len(where),2**len(where))
    for transpose in (False,True):
      ref=embed(G.T if transpose else G,[2]*L,where)@d0
      for c in [False,True,'split','reduce-split','split-gate','swap-split-gate','auto-split-gate','swap+split','nonlocal','auto-mps']:
        key=('MPS',cyc,len(where),'adj' if len(where)==1 or max(where)-min(where)==len(where)-1 else 'far',c,transpose)
        try:
            kw={} if c in (False,True) else {'cutoff':0.0}
            out=psi.gate(G,where,contract=c,transpose=transpose,**kw) if not transpose or c not in ('swap+split','auto-mps') else psi.gate(G,where,contract=c,**kw,transpose=True)
            ok=np.allclose(out.to_dense(),ref) and set(out.outer_inds())==set(psi.outer_inds())
            res[key+('ok' if ok else 'WRONG',)]+=1
        except Exception as e:
            res[key+('ERR '+type(e).__name__+' '+str(e)[:40],)]+=1
for k,v in sorted(res.items(),key=str): print(k,v)
