import numpy as np, quimb as qu, quimb.tensor as qtn, traceback
rng=np.random.default_rng(0)
# pair_simplify non-inplace: low-rank pair
def lowrank(shape, r):
    a=rng.normal(size=(shape[0],r)); b=rng.normal(size=(r,)+tuple(shape[1:]))
    return np.tensordot(a,b,1)
# chain A-B-C-D where B@C is low rank across (a|d)
A=qtn.Tensor(rng.normal(size=(2,4)),inds=('x','a'),tags='A')
B=qtn.Tensor(rng.normal(size=(4,1,4))[:, :, :],inds=('a','b','c'),tags='B')
# make B,C pair have rank-1: B = u (a) x v(b,c)?? simpler: B[a,b,c] with big b=4 but pair product rank 1
B=qtn.Tensor(np.einsum('a,bc->abc',rng.normal(size=4),rng.normal(size=(4,4))),inds=('a','b','c'),tags='B')
C=qtn.Tensor(np.einsum('bc,d->bcd',rng.normal(size=(4,4)),rng.normal(size=4)),inds=('b','c','d'),tags='C')
D=qtn.Tensor(rng.normal(size=(4,2)),inds=('d','y'),tags='D')
tn=A&B&C&D
ref=tn.to_dense(['x'],['y'])
for inplace in (False,True):
    try:
        t2=tn.copy()
        out=t2.pair_simplify(inplace=inplace)
        print('pair',inplace,out.num_tensors, np.allclose(out.to_dense(['x'],['y']),ref), np.allclose(t2.to_dense(['x'],['y']),ref))
    except Exception as e:
        traceback.print_exc()
# loop simplify
for inplace in (False,True):
    try:
        t2=qtn.TN2D_rand(3,3,2,seed=1)
        for t in t2: pass
        ref=t2^all
        out=t2.loop_simplify(inplace=inplace)
        print('loop',inplace,out.num_tensors, np.allclose(out^all,ref))
    except Exception as e:
        traceback.print_exc()
# multiply by zero
t2=(A&B).multiply(0.0)
print('mult0', [np.isnan(t.data).any() for t in t2])
# normalize keeps left_inds
t=qtn.Tensor(np.linalg.qr(rng.normal(size=(4,2)))[0],inds=('p','q'),left_inds=('p',))
print(t.normalize().left_inds)
