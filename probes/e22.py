import numpy as np, quimb as qu, scipy.sparse as sp
from quimb.core import complex_array, phase_to_complex, par_dot_csr_matvec, subtract_update_, divide_update_
x=np.arange(1.,3.); y=np.arange(5.,7.)
for nt in (1,2,4,8):
    print(nt, complex_array(x,y,num_threads=nt,target_block_size=1))
A=sp.random(3,3,density=0.9,format='csr',random_state=0); v=np.arange(3.)
for nt in (1,2,4,8,16):
    print(nt, par_dot_csr_matvec(A,v,num_threads=nt), A@v)
for nt in (1,2,4,8,16):
    print(nt, par_dot_csr_matvec(A,v,num_threads=nt,target_block_size=1), A@v)
