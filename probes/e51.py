import numpy as np, quimb as qu, quimb.tensor as qtn, warnings, collections, inspect
warnings.simplefilter('ignore')
from quimb.tensor.circuit import gates as GG
rng=np.random.default_rng(11)
res=collections.Counter(); ex=[]
npar={'RX':1,'RY':1,'RZ':1,'U3':3,'U2':2,'U1':1,'PHASE':1,'CU3':3,'CU2':2,'CU1':1,'CPHASE':1,'CRX':1,'CRY':1,'CRZ':1,'FSIM':2,'FS':2,'FSIMG':5,'GIVENS':1,'GIVENS2':2,'XXPLUSYY':2,'XXMINUSYY':2,'RXX':1,'RYY':1,'RZZ':1,'SU4':15}
labels=sorted(GG.ALL_GATES)
def crand(n): return rng.normal(size=(n,n))+1j*rng.normal(size=(n,n))
def apply_model(psi,N,lab,p,qs,ctrl):
    a=np.asarray(qtn.circuit.Gate(lab,params=p,qubits=qs).array).reshape(2**len(qs),-1)
    if ctrl:
        nc=len(ctrl); full=np.eye(2**(nc+len(qs)),dtype=complex); full[-a.shape[0]:,-a.shape[0]:]=a; U=qu.pkron(full,[2]*N,list(ctrl)+list(qs))
    else: U=qu.pkron(a,[2]*N,qs)
    return np.asarray(U)@psi
def ptr(psi,N,keep):
    r=np.outer(psi,psi.conj()); return np.asarray(qu.ptr(qu.qarray(r),[2]*N,keep))
for trial in range(120):
    N=int(rng.integers(2,5)); c=qtn.Circuit(N); psi=np.zeros(2**N,complex); psi[0]=1; hist=[]
    for step in range(int(rng.integers(4,14))):
        r=rng.random()
        try:
            if r<0.45:
                lab=str(rng.choice(labels)); nq=GG.GATE_SIZE[lab]
                if nq>N: continue
                p=[float(x) for x in rng.uniform(-3,3,size=npar.get(lab,0))]; qs=[int(q) for q in rng.choice(N,size=nq,replace=False)]
                rest=[q for q in range(N) if q not in qs]; ctrl=()
                if rest and rng.random()<0.2: ctrl=tuple(int(x) for x in rng.choice(rest,size=int(rng.integers(1,len(rest)+1)),replace=False))
                c.apply_gate(lab,*p,*qs,controls=ctrl or None); psi=apply_model(psi,N,lab,p,qs,ctrl); hist.append(('g',lab,qs,ctrl))
            else:
                q=str(rng.choice(['amp','dense','ptr','locexp','marg','sample','uni']))
                hist.append((q,))
                if q=='amp':
                    b=''.join(str(int(x)) for x in rng.integers(0,2,size=N)); v=c.amplitude(b); ok=np.allclose(v,psi[int(b,2)],atol=1e-8)
                elif q=='dense': ok=np.allclose(np.asarray(c.to_dense()).ravel(),psi,atol=1e-8)
                elif q=='ptr':
                    k=int(rng.integers(1,N+1)); keep=[int(x) for x in rng.choice(N,size=k,replace=False)]
                    v=c.partial_trace(keep); 
                    # reference with keep order
                    r=np.outer(psi,psi.conj()).reshape([2]*(2*N)); 
                    rest=[i for i in range(N) if i not in keep]
                    perm=keep+rest+[N+i for i in keep]+[N+i for i in rest]
                    rr=r.transpose(perm).reshape(2**k,2**(N-k),2**k,2**(N-k)); ref=np.einsum('aibi->ab',rr)
                    ok=np.allclose(v,ref,atol=1e-8)
                elif q=='locexp':
                    k=int(rng.integers(1,min(N,2)+1)); where=[int(x) for x in rng.choice(N,size=k,replace=False)]; G=crand(2**k)
                    v=c.local_expectation(G,where); ref=np.vdot(psi,np.asarray(qu.pkron(G,[2]*N,where))@psi); ok=np.allclose(v,ref,atol=1e-7)
                elif q=='marg':
                    k=int(rng.integers(1,N+1)); where=[int(x) for x in rng.choice(N,size=k,replace=False)]; rest=[i for i in range(N) if i not in where]
                    fix={}
                    p=abs(psi.reshape([2]*N))**2
                    for i in rest:
                        if rng.random()<0.5: fix[i]=str(int(rng.integers(0,2)))
                    v=c.compute_marginal(where,fix=fix or None,dtype='complex128')
                    idx=[slice(None)]*N
                    for i,b in fix.items(): idx[i]=int(b)
                    pp=p[tuple(idx)]; remaining=[i for i in range(N) if i not in fix]
                    axes=tuple(remaining.index(i) for i in remaining if i not in where)
                    pm=pp.sum(axis=axes) if axes else pp
                    # order of remaining kept = sorted order; need order 'where'
                    kept=[i for i in remaining if i in where]; pm=pm.transpose([kept.index(i) for i in where])
                    ok=np.allclose(v,pm,atol=1e-8)
                elif q=='sample':
                    ss=list(c.sample(5,seed=int(rng.integers(1e6)),dtype='complex128')); ok=all(abs(psi[int(s,2)])**2>1e-12 for s in ss)
                elif q=='uni':
                    U=c.uni.to_dense(); ok=np.allclose(np.asarray(U)[:,0],psi,atol=1e-8)
                res[(q,'ok' if ok else 'WRONG')]+=1
                if not ok and len(ex)<10: ex.append((q,N,hist[:]))
        except Exception as e:
            res[('ERR',type(e).__name__+' '+str(e)[:60])]+=1
            if len(ex)<10: ex.append(('err',N,hist[:],str(e)[:80]))
for k,v in sorted(res.items(),key=str): print(k,v)
for e in ex: print(e)
