import numpy as np, quimb as qu, warnings, collections, scipy.linalg as sla, scipy.sparse.linalg as spla
warnings.simplefilter('ignore')
rng=np.random.default_rng(0)
n=3; d=2**n
H=qu.ham_heis(n,sparse=False,cyclic=False)+0.3*qu.ikron(qu.pauli('Y'),[2]*n,0)+0.2*qu.ikron(qu.pauli('X'),[2]*n,1)
H=qu.qu(H); Hd=np.asarray(H)
psi=qu.rand_ket(d,seed=1); rho=qu.rand_rho(d,seed=2)
el,ev=np.linalg.eigh(Hd)
hams={'dense':H,'sparse':qu.qu(H,sparse=True),'solved':(el,ev),'linop':spla.aslinearoperator(Hd),'callable':(lambda t: H)}
res=collections.Counter()
for method in ['integrate','solve','expm']:
  for sk,p0 in [('ket',psi),('dop',rho)]:
    for hk,h in hams.items():
      for t0 in (0.0,0.7):
        key=(method,sk,hk,t0)
        try:
            evo=qu.Evolution(p0,h,t0=t0,method=method)
            outs=[]
            for t in [t0+0.3,t0+0.3,t0+1.1]:
                evo.update_to(t)
                U=sla.expm(-1j*Hd*(t-t0))
                ref=U@np.asarray(p0) if sk=='ket' else U@np.asarray(p0)@U.conj().T
                outs.append(np.allclose(np.asarray(evo.pt),ref,atol=1e-6) and abs(evo.t-t)<1e-12)
            res[key]=('ok' if all(outs) else 'WRONG %s'%outs)
        except Exception as e:
            res[key]='ERR %s %s'%(type(e).__name__,str(e)[:60])
for k,v in res.items(): print(k,v)
