import numpy as np, quimb.tensor as qtn, warnings
warnings.simplefilter('ignore')
c=qtn.Circuit(2); c.apply_gate('H',0); c.apply_gate('CNOT',0,1)
for b in ['00','01','10','11']:
    try: print(b, c.amplitude(b))
    except Exception as e: print(b,'ERR',type(e).__name__,e)
c=qtn.Circuit(3); c.apply_gate('X',0); c.apply_gate('RX',0.3,1); c.apply_gate('CNOT',1,2)
for b in ['000','100','110','101','111']:
    try: print(b, c.amplitude(b), c.amplitude(b,simplify_sequence='R'))
    except Exception as e: print(b,'ERR',type(e).__name__,e)
print(list(c.sample(5,seed=1)))
print(c.compute_marginal([0],fix={1:'1',2:'0'}))
