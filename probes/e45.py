import numpy as np, quimb as qu, quimb.tensor as qtn, warnings, collections, itertools, traceback
warnings.simplefilter('ignore')
res=collections.Counter(); ex=[]
def einsum_value(ts,out,expo):
    labs={}
    def L(x): return labs.setdefault(x,len(labs))
    args=[]
    for t in ts: args+= [t.data,[L(i) for i in t.inds]]
    return np.einsum(*args,[L(o) for o in out])*10.0**expo
def structured(rng,shape,kind):
    x=rng.normal(size=shape)+1j*rng.normal(size=shape)
    nd=len(shape)
    if kind=='diag' and nd>=2:
        eq=[(i,j) for i in range(nd) for j in range(i+1,nd) if shape[i]==shape[j]]
        if eq:
            i,j=eq[int(rng.integers(len(eq)))]; idx=np.indices(shape); x=x*(idx[i]==idx[j])
    elif kind=='antidiag' and nd>=2:
        eq=[(i,j) for i in range(nd) for j in range(i+1,nd) if shape[i]==shape[j]]
        if eq:
            i,j=eq[int(rng.integers(len(eq)))]; idx=np.indices(shape); x=x*(idx[i]==shape[j]-1-idx[j])
    elif kind=='column' and nd>=1:
        ax=int(rng.integers(nd)); c=int(rng.integers(shape[ax])); idx=np.indices(shape); x=x*(idx[ax]==c)
    elif kind=='lowrank' and nd>=2:
        k=nd//2; a=rng.normal(size=shape[:k]); b=rng.normal(size=shape[k:]); x=np.multiply.outer(a,b)+0j
    elif kind=='zero': x=x*0
    elif kind=='copy' and nd>=1 and len(set(shape))==1:
        x=np.zeros(shape,complex); 
        for v in range(shape[0]): x[(v,)*nd]=1
    return x
def gen(rng):
    nt=int(rng.integers(2,7)); pool=list('abcdefgh'); size={p:int(rng.integers(1,4)) for p in pool}
    ts=[]
    for k in range(nt):
        r=int(rng.integers(1,4)); inds=tuple(str(i) for i in rng.choice(pool,size=r,replace=False))
        shape=tuple(size[i] for i in inds)
        kind=str(rng.choice(['gauss','gauss','diag','antidiag','column','lowrank','copy','zero'],p=[.3,.2,.12,.1,.1,.1,.06,.02]))
        ts.append(qtn.Tensor(structured(rng,shape,kind),inds=inds,tags=[f'T{k}',kind]))
    return ts
rng=np.random.default_rng(7)
passes=['rank_simplify','diagonal_reduce','antidiag_gauge','column_reduce','split_simplify','pair_simplify','loop_simplify']
for trial in range(600):
    ts=gen(rng); tn=qtn.TensorNetwork(ts); expo=float(rng.choice([0,0,1.5])); tn.exponent=expo
    counts=collections.Counter(i for t in ts for i in t.inds); labs=list(counts)
    # output inds: all labels appearing once + maybe some bonds
    out=tuple(l for l in labs if counts[l]==1)
    if rng.random()<0.3 and len(labs)>len(out): out=out+(str(rng.choice([l for l in labs if l not in out])),)
    ref=einsum_value(ts,out,expo); scale=max(np.abs(ref).max(),1e-300)
    desc=(trial,[(t.inds,tuple(t.tags)) for t in ts],out,expo)
    seqs=[('full_'+s,lambda tn,s=s: tn.full_simplify(s,output_inds=out)) for s in ['ADCR','ADCRS','R','DR','CR','AR','ADCRSLP','RPL','S','L','P']]
    seqs+=[(p,lambda tn,p=p: getattr(tn,p+'_')(**({'output_inds':out} if p not in ('split_simplify',) else {}))) for p in passes]
    seqs+=[('full_eq_'+s,lambda tn,s=s: tn.full_simplify(s,output_inds=out,equalize_norms=True)) for s in ['ADCRS']]
    seqs+=[('full_eq1_'+s,lambda tn,s=s: tn.full_simplify(s,output_inds=out,equalize_norms=1.0)) for s in ['ADCRS']]
    seqs+=[('hyper_resolve_'+m,lambda tn,m=m: tn.hyperinds_resolve(m,output_inds=out)) for m in ['dense','mps','tree']]
    for name,f in seqs:
        try:
            o=f(tn.copy())
            got=o.contract(all,output_inds=out,preserve_tensor=True).transpose(*out).data if out else np.asarray(o.contract(all,output_inds=()))
            ok=np.allclose(got,ref,rtol=1e-7,atol=1e-9*scale)
            res[(name,'ok' if ok else 'WRONG')]+=1
            if not ok and len(ex)<14: ex.append((name,desc,np.abs(got-ref).max(),scale))
        except Exception as e:
            k=(name,'ERR '+type(e).__name__+' '+str(e)[:70]); res[k]+=1
            if res[k]<2: ex.append((name,'ERR',str(e)[:100],desc))
for k,v in sorted(res.items(),key=str): print(k,v)
for e in ex[:14]: print(e)
