import numpy as np, quimb as qu, warnings, itertools
warnings.simplefilter('ignore')
from quimb.operator.builder import SparseOperatorBuilder, simplify_single_site_ops, get_mat, _OPMAP
print(sorted(_OPMAP))
print('xyz', simplify_single_site_ops(1.0,('x','y','z')), (get_mat('x')@get_mat('y')@get_mat('z')))
print('xy', simplify_single_site_ops(1.0,('x','y')), get_mat('x')@get_mat('y'))
import functools
bad=[]
ops=[o for o in _OPMAP]
for n in (2,3):
    for combo in itertools.product(ops,repeat=n):
        try:
            c,op=simplify_single_site_ops(1.0,combo)
        except ValueError as e:
            continue
        M=functools.reduce(lambda a,b:a@b,[get_mat(o) for o in combo])
        R=np.zeros((2,2)) if op is None else c*get_mat(op)
        if not np.allclose(M,R): bad.append((combo,c,op))
print('bad combos',len(bad), bad[:10])
# through the builder
b=SparseOperatorBuilder()
b += 1.0, ('x',0),('y',0)
b += 0.5, ('z',1)
print(b.build_dense())
X,Y,Z,I=[np.array(qu.pauli(s)) for s in 'XYZI']
print(np.allclose(b.build_dense(), np.kron(X@Y,I)+0.5*np.kron(I,Z)))
