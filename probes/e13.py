import numpy as np, quimb as qu, quimb.tensor as qtn, warnings
warnings.simplefilter('ignore')
def herm(rng,n):
    a=rng.normal(size=(n,n))+1j*rng.normal(size=(n,n)); return (a+a.conj().T)/2
bad=0; tot=0
for seed in range(200):
    rng=np.random.default_rng(seed)
    L=int(rng.integers(3,8))
    mats=[herm(rng,4) for _ in range(L-1)]
    Z=herm(rng,2)
    Hd=sum(qu.pkron(mats[i],[2]*L,(i,i+1)) for i in range(L-1))+sum(qu.ikron(Z,[2]*L,i) for i in range(L))
    # pass copies inline so that originals are not kept alive
    ham=qtn.LocalHam1D(L,H2={(i,i+1):mats[i].copy() for i in range(L-1)},H1=Z.copy())
    Hs=sum(qu.pkron(np.asarray(v),[2]*L,k) for k,v in ham.terms.items())
    tot+=1
    if not np.allclose(Hs,Hd):
        bad+=1
        if bad<4: print('MISMATCH seed',seed,'L',L, np.abs(Hs-Hd).max())
print('bad',bad,'of',tot)
