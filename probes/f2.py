#!/venv/bin/python
import sys, time, inspect, functools
sys.path.insert(0,'/tmp/exp/deps')
import atheris
import quimb.tensor as qtn, quimb.utils as qutils
from quimb.tensor import tensor_core as tc
t0=time.time(); n=0
for cls in (tc.Tensor, tc.TensorNetwork, qutils.oset):
    for name,f in list(vars(cls).items()):
        if inspect.isfunction(f):
            try: setattr(cls,name,atheris.instrument_func(f)); n+=1
            except Exception as e: pass
print('instrumented',n,'functions in',round(time.time()-t0,1),'s',file=sys.stderr)
import numpy as np
from hypothesis import given, strategies as st, settings
POOL='abcd'
@settings(database=None, deadline=None)
@given(st.lists(st.tuples(st.integers(0,5), st.integers(0,3), st.integers(0,3)), max_size=12))
def test(ops):
    ts=[qtn.Tensor(np.ones((2,2)),inds=('a','b'),tags='X'),qtn.Tensor(np.ones((2,2)),inds=('b','c'),tags='Y')]
    tn=qtn.TensorNetwork(ts,virtual=True)
    for op,i,j in ops:
        if op==0: tn.reindex_({POOL[i]:POOL[j]})
        elif op==1 and tn.num_tensors: tn.pop_tensor(next(iter(tn.tensor_map)))
        elif op==2: tn.add_tensor(qtn.Tensor(np.ones(2),inds=(POOL[i],),tags='Z'))
        elif op==3: tn.retag_({'X':'Y'})
        elif op==4: ts[0].reindex_({POOL[i]:POOL[j]})
        elif op==5: tn=tn.copy()
    im={}; mult={}
    for tid,t in tn.tensor_map.items():
        for ix in t.inds: im.setdefault(ix,set()).add(tid); mult[ix]=mult.get(ix,0)+1
    assert {k:set(v) for k,v in tn.ind_map.items()}==im
    assert set(tn.outer_inds())=={k for k,c in mult.items() if c==1}, (ops,)
atheris.Setup(sys.argv, test.hypothesis.fuzz_one_input)
atheris.Fuzz()
