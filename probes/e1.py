import numpy as np, quimb as qu, quimb.tensor as qtn
rng=np.random.default_rng(0)
a=qtn.Tensor(rng.normal(size=(2,3)),inds=('a','b'),tags='A')
b=qtn.Tensor(rng.normal(size=(3,4)),inds=('b','c'),tags='B')
c=qtn.Tensor(rng.normal(size=(4,2)),inds=('c','a'),tags='C')
tn=a&b&c
ref=np.einsum('ab,bc,ca->',a.data,b.data,c.data)
print('ref',ref, tn^all)
tn.exponent=2.0
print('all', tn^all, 'expected', ref*100)
print('contract_tags all', tn.contract_tags(all))
print('contract tags ABC', tn.contract(['A','B','C']))
print('cumulative', tn>>['A','B','C'])
print('partial then all', (tn^['A','B'])^all, (tn^['A','B']).exponent)
tn2=a&b
tn2.exponent=1.0
print('trace', tn2.trace(['a'],['c']) if False else None)
x=(tn2.reindex({'c':'a'}))
print(x.exponent, x.contract_tags(...), np.einsum('ab,ba->',a.data,b.data[:, :2]) if False else '')
# partition
t1,t2=tn.partition('A')
print('partition exps', t1.exponent,t2.exponent)
t1,t2=tn.copy().partition('A',inplace=True)
print('partition inplace exps', t1.exponent,t2.exponent)
print('select', tn.select('A').exponent, tn.select('A',with_exponent=True).exponent)
print('strip', tn.contract(all, strip_exponent=True))
print('to_dense', tn.to_dense())
print('norm', tn.norm(), abs(ref*100))
