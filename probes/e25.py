import numpy as np, quimb as qu, quimb.tensor as qtn, warnings, hashlib, traceback, collections
warnings.simplefilter('ignore')
def fp_tensor(t):
    return (type(t).__name__, t.inds, tuple(t.tags), t.left_inds, str(t.dtype), t.shape, hashlib.sha1(np.ascontiguousarray(t.data).tobytes()).hexdigest())
def fp(x):
    if isinstance(x,qtn.Tensor): return fp_tensor(x)
    return (type(x).__name__, tuple((tid,fp_tensor(t)) for tid,t in x.tensor_map.items()), x.exponent, tuple(sorted(map(str,x.ind_map))), tuple(sorted(map(str,x.tag_map))), tuple(x.outer_inds()), tuple((p,getattr(x,p)) for p in type(x)._EXTRA_PROPS))
def labelled_equal(a,b):
    if isinstance(a,qtn.Tensor):
        return set(a.inds)==set(b.inds) and set(a.tags)==set(b.tags) and np.allclose(a.transpose(*b.inds).data,b.data)
    if set(a.outer_inds())!=set(b.outer_inds()): return False
    oi=tuple(a.outer_inds())
    if a.num_tensors!=b.num_tensors: return False
    da=a.contract(all,output_inds=oi,preserve_tensor=True).data; db=b.contract(all,output_inds=oi,preserve_tensor=True).data
    return np.allclose(da,db)
rng=np.random.default_rng(0)
def mk_tn():
    return qtn.TN_from_edges_rand([(0,1),(1,2),(2,3),(3,0),(0,2),(3,4)],3,phys_dim=2,seed=3,dtype='complex128')
def mk_mps(): return qtn.MPS_rand_state(5,3,seed=1,dtype='complex128')
G=rng.normal(size=(4,4))+1j*rng.normal(size=(4,4)); G1=rng.normal(size=(2,2))
cases=[]
tn=mk_tn()
ix0=tn.outer_inds()[0]; b0=tn.inner_inds()[0]
T=[
 ('conj',(),{}),('astype',('complex64',),{}),('balance_bonds',(),{}),('equalize_norms',(),{}),('equalize_norms',(1.0,),{}),
 ('fuse_multibonds',(),{}),('squeeze',(),{}),('rank_simplify',(),{}),('diagonal_reduce',(),{}),('antidiag_gauge',(),{}),('column_reduce',(),{}),
 ('split_simplify',(),{}),('pair_simplify',(),{}),('loop_simplify',(),{}),('full_simplify',(),{}),('full_simplify',('ADCRSLP',),{}),
 ('multiply',(2.5,),{}),('multiply_each',(1.5,),{}),('negate',(),{}),('reindex',({ix0:'zz'},),{}),('retag',({'I0':'Q'},),{}),
 ('isel',({ix0:1},),{}),('sum_reduce',(ix0,),{}),('flip',([b0],),{}),('contract',(['I0','I1'],),{}),('contract_tags',(['I0','I1'],),{}),
 ('gate_inds',(G1,[ix0]),{'contract':True}),('gate_inds',(G1,[ix0]),{}),('gauge_all_canonize',(),{}),('gauge_all_simple',(),{}),('canonize_around',('I0',),{}),
 ('compress_all',(),{'max_bond':8}),('expand_bond_dimension',(4,),{}),('hyperinds_resolve',(),{}),('compress_simplify',(),{}),('contract_compressed',('greedy',),{'max_bond':64}),
 ('contract_around',('I0',),{'max_bond':64}),('gauge_all_belief_propagation',(),{}) ,('compress_all_simple',(),{'max_bond':8}),('compress_all_tree',(),{}),
]
res=collections.Counter()
for name,args,kw in T:
    x=mk_tn(); before=fp(x)
    try:
        out=getattr(x,name)(*args,**kw)
        mutated=fp(x)!=before
        y=mk_tn(); out2=getattr(y,name+'_')(*args,**kw)
        if out2 is None: out2=y
        same = labelled_equal(out,out2) if isinstance(out,(qtn.Tensor,qtn.TensorNetwork)) and isinstance(out2,(qtn.Tensor,qtn.TensorNetwork)) else np.allclose(out,out2 if not isinstance(out2,qtn.TensorNetwork) else out2.contract(all))
        print(name, 'MUTATED' if mutated else 'pure', 'same' if same else 'DIFF')
    except Exception as e:
        print(name,'ERR',type(e).__name__,str(e)[:100])
