import numpy as np, quimb.tensor as qtn, gc, pickle
rng=np.random.default_rng(0)
# repeated label on one tensor
t1=qtn.Tensor(rng.normal(size=(2,2)),inds=('a','a'),tags='T1')
tn=qtn.TensorNetwork([t1])
print('fresh', tn.outer_inds(), tn.inner_inds(), dict(tn.ind_map))
t2=qtn.Tensor(rng.normal(size=(2,)),inds=('a',),tags='T2')
tn.add_tensor(t2)
print('after add', tn.outer_inds(), tn.inner_inds())
tn.pop_tensor(1)
print('after pop', tn.outer_inds(), tn.inner_inds(), 'fresh scan:', qtn.TensorNetwork(tn.tensors).outer_inds(), qtn.TensorNetwork(tn.tensors).inner_inds())
# reindex into repeated
A=qtn.Tensor(rng.normal(size=(2,2)),inds=('x','y'),tags='A'); tn=qtn.TensorNetwork([A])
tn.reindex_({'y':'x'})
print('reindex to repeated', tn.outer_inds(), tn.inner_inds(), dict(tn.ind_map), 'fresh:', qtn.TensorNetwork(tn.tensors).outer_inds(), qtn.TensorNetwork(tn.tensors).inner_inds())
try: tn.check(); print('check ok')
except Exception as e: print('check err',e)
# contraction of the two variants
print(tn.contract(all), np.trace(A.data))
# virtual view dropped then rename
A=qtn.Tensor(rng.normal(size=(2,3)),inds=('a','b'),tags='A'); B=qtn.Tensor(rng.normal(size=(3,2)),inds=('b','c'),tags='B')
tn=qtn.TensorNetwork([A,B],virtual=True)
view=tn.select('A')  # virtual
del view; gc.collect()
A.reindex_({'a':'z'})
print(tn.outer_inds(), dict(tn.ind_map), len(A.owners))
tn2=pickle.loads(pickle.dumps(tn)); tn2.check(); print('pickle ok', tn2.outer_inds())
