import numpy as np, warnings
warnings.simplefilter('ignore')
from quimb.operator.builder import SparseOperatorBuilder
from quimb.operator.hilbertspace import HilbertSpace
b=SparseOperatorBuilder(hilbert_space=HilbertSpace(2))
b.add_term(-0.287,('sn',1))
v=np.arange(4)+1j
try:
    print(b.matvec(v))
except Exception as e:
    print(type(e).__name__, str(e)[:1500])
print(b.matvec(v.real))
print(b.aslinearoperator()@v)
