import numpy as np, quimb as qu, warnings, scipy.sparse as sp
warnings.simplefilter('ignore')
rng=np.random.default_rng(0)
for d in (6,20,60):
    a=rng.normal(size=(d//2,d//2))+1j*rng.normal(size=(d//2,d//2)); h=(a+a.conj().T)/2
    H=np.kron(np.eye(2),h)
    for backend in ['scipy','lobpcg','numpy',None]:
        for rep in ['dense','sparse']:
            A=qu.qarray(H) if rep=='dense' else sp.csr_matrix(H)
            lk,vk=qu.eigh(A,k=3,which='SA',backend=backend)
            G=vk.conj().T@vk
            print(d,backend,rep,'gram defect %.2e'%np.linalg.norm(G-np.eye(3)),'resid %.2e'%np.linalg.norm(H@vk-vk*lk))
