import numpy as np, quimb as qu, quimb.tensor as qtn, warnings, collections, hashlib, inspect, functools, traceback
warnings.simplefilter('ignore')
res=collections.Counter(); ex=[]
def fp_tensor(t): return (type(t).__name__, t.inds, tuple(sorted(t.tags)), t.left_inds, str(t.dtype), t.shape, hashlib.sha1(np.ascontiguousarray(t.data).tobytes()).hexdigest())
def fp(x):
    if isinstance(x,qtn.Tensor): return fp_tensor(x)
    return (type(x).__name__, tuple((tid,fp_tensor(t)) for tid,t in x.tensor_map.items()), float(np.real(x.exponent)), tuple((p,getattr(x,p)) for p in type(x)._EXTRA_PROPS))
def value(x):
    if isinstance(x,qtn.Tensor): return tuple(sorted(x.inds)), x.transpose(*sorted(x.inds)).data
    oi=tuple(sorted(x.outer_inds()))
    return oi, (x.contract(all,output_inds=oi,preserve_tensor=True).data if oi else np.asarray(x.contract(all,output_inds=())))
rng=np.random.default_rng(0)
def crand(n): return rng.normal(size=(n,n))+1j*rng.normal(size=(n,n))
mk={
 'MPS':lambda: qtn.MPS_rand_state(5,3,seed=1,dtype='complex128'),
 'MPO':lambda: qtn.MPO_rand(4,2,seed=2,dtype='complex128'),
 'PEPS':lambda: qtn.PEPS.rand(2,3,2,seed=3,dtype='complex128'),
 'PEPO':lambda: qtn.PEPO.rand(2,2,2,seed=4,dtype='complex128'),
 'PEPS3D':lambda: qtn.PEPS3D.rand(2,2,2,2,seed=5,dtype='complex128'),
 'TN2D':lambda: qtn.TN2D_rand(3,3,2,seed=6,dtype='complex128'),
}
G1=crand(2); G2=crand(4)
calls={
 'MPS':[('canonicalize',(2,),{}),('left_canonicalize',(),{}),('right_canonicalize',(),{}),('gate',(G1,2),{'contract':True}),('gate',(G2,(1,2)),{'contract':'swap+split','cutoff':0.0}),('gate_split',(G2,(1,2)),{'cutoff':0.0}),
        ('gate_with_auto_swap',(G2,(0,3)),{'cutoff':0.0}),('gate_nonlocal',(G2,(0,3)),{'cutoff':0.0}),('swap_sites_with_compress',(0,1),{'cutoff':0.0}),('swap_site_to',(0,3),{'cutoff':0.0}),('measure',(2,),{'seed':1}),
        ('add_MPS',('OTHER',),{}),('reindex_sites',('q{}',),{}),('retag_sites',('S{}',),{}),('reindex_all',('q{}',),{}),('retag_all',('S{}',),{}),('flatten',(),{}),('normalize_NA',(),{}),('partial_transpose_NA',(),{}),
        ('gate_with_mpo',('MPOOP',),{'cutoff':0.0}),('gate_with_submpo',('MPOOP',),{'cutoff':0.0}),('gate_with_op_lazy',('MPOOP',),{}),('fit',('OTHER',),{'steps':2,'progbar':False})],
 'MPO':[('add_MPO',('OTHER',),{}),('gate_upper',(G1,1),{'contract':True}) if False else ('reindex_lower_sites',('q{}',),{}),('reindex_upper_sites',('q{}',),{}),('fill_empty_sites',(),{}),('partial_transpose',([0,1],),{}),('gate_upper_with_op_lazy',('OTHER',),{}),('gate_lower_with_op_lazy',('OTHER',),{}),('gate_sandwich_with_op_lazy',('OTHER',),{}),('apply_NA',(),{}),('canonicalize',(1,),{}),('flatten',(),{})],
 'PEPS':[('gate',(G1,(0,1)),{'contract':True}),('gate',(G2,((0,0),(0,1))),{'contract':'split','cutoff':0.0}),('gate',(G2,((0,0),(0,1))),{'contract':'reduce-split','cutoff':0.0}),('gate',(G2,((0,0),(1,1))),{}),('gate_simple',(G2,((0,0),(0,1))),{'gauges':{}}),('add_PEPS',('OTHER',),{}),('flatten',(),{}),('canonize_around',('I0,0',),{}),('normalize',(),{'max_bond':32}) ,('gauge_all_simple',(),{}),('equalize_norms',(),{}),('balance_bonds',(),{}),('compress_all',(),{'max_bond':None,'cutoff':0.0}),('expand_bond_dimension',(3,),{})],
 'PEPO':[('add_PEPO',('OTHER',),{}),('gate_upper',(G1,(0,0)),{'contract':True}) if False else ('flatten',(),{}),('partial_transpose',([(0,0)],),{})],
 'PEPS3D':[('gate',(G1,(0,0,1)),{'contract':True}),('gate',(G2,((0,0,0),(0,0,1))),{'contract':'split','cutoff':0.0}),('flatten',(),{}),('equalize_norms',(),{})],
 'TN2D':[('contract_boundary',(),{'max_bond':64,'cutoff':0.0,'final_contract':False}),('contract_boundary_from_xmin',((0,1),),{'max_bond':64,'cutoff':0.0}),('contract_boundary_from_ymax',((1,2),),{'max_bond':64,'cutoff':0.0}),('contract_hotrg',(),{'max_bond':64,'cutoff':0.0,'final_contract':False}) ,('coarse_grain_hotrg',('x',),{'max_bond':64,'cutoff':0.0}),('contract_ctmrg',(),{'max_bond':64,'cutoff':0.0,'final_contract':False}),('flatten',(),{}),('contract_mps_sweep',(),{'max_bond':64,'cutoff':0.0})],
}
for cls,cl in calls.items():
    for name,args,kw in cl:
        if name.endswith('_NA'): continue
        x=mk[cls]()
        if not hasattr(x,name) or not hasattr(x,name+'_'): res[(cls,name,'no-pair')]+=1; continue
        other=mk[cls](); 
        if cls in('MPS','PEPS','PEPO','PEPS3D','MPO'): other=other*1.0
        a2=tuple((other if (isinstance(a,str) and a=='OTHER') else (qtn.MPO_rand(5,2,seed=9,dtype='complex128') if (isinstance(a,str) and a=='MPOOP') else a)) for a in args)
        before=fp(x); before_args=[fp(a) for a in a2 if isinstance(a,(qtn.Tensor,qtn.TensorNetwork))]
        try:
            out=getattr(x,name)(*a2,**kw)
            if isinstance(out,tuple): out=out[-1]
            mutated=fp(x)!=before; argmut=[fp(a) for a in a2 if isinstance(a,(qtn.Tensor,qtn.TensorNetwork))]!=before_args
            y=mk[cls](); out2=getattr(y,name+'_')(*a2,**kw)
            if isinstance(out2,tuple): out2=out2[-1]
            if out2 is None: out2=y
            try:
                (oa,va),(ob,vb)=value(out),value(out2); same= oa==ob and np.allclose(va,vb,rtol=1e-7,atol=1e-10)
            except Exception as e: same='cmpERR '+str(e)[:40]
            key=(cls,name,'MUTATED' if mutated else 'pure','ARGMUT' if argmut else '', 'same' if same is True else ('DIFF' if same is False else same))
            res[key]+=1
        except Exception as e:
            res[(cls,name,'ERR '+type(e).__name__+' '+str(e)[:60])]+=1
for k,v in sorted(res.items(),key=str): print(k,v)
