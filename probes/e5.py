import numpy as np, quimb.tensor as qtn, traceback, warnings
from quimb.tensor.decomp import array_split, _SPLIT_FNS, _DEFAULT_ABSORB
print(sorted(_SPLIT_FNS), _DEFAULT_ABSORB)
rng=np.random.default_rng(0)
for dt in ['float32','float64','complex64','complex128']:
    for shape in [(6,4),(4,6),(5,5)]:
        x=rng.normal(size=shape)
        if 'complex' in dt: x=x+1j*rng.normal(size=shape)
        x=x.astype(dt)
        for method in ['svd','svd:eig']:
            for absorb in [None,'both','left','right','lorthog','rorthog','lfactor','rfactor','s','lsqrt','rsqrt']:
                for kw in [dict(cutoff=0.0), dict(cutoff=0.0,max_bond=2), dict(cutoff=1e-2,cutoff_mode='rel'), dict(cutoff=0.1, cutoff_mode='rsum2', renorm=True)]:
                    try:
                        info={'error':None}
                        l,s,r=array_split(x,method=method,absorb=absorb,info=info,**kw)
                        for y in (l,s,r):
                            if y is not None:
                                if 'complex' in dt and y is not s: assert y.dtype==np.dtype(dt),(y.dtype,dt)
                                elif y is s: assert y.dtype==np.dtype(dt.replace('complex64','float32').replace('complex128','float64')),(y.dtype)
                                else: assert y.dtype==np.dtype(dt),(y.dtype,dt)
                        if absorb in ('both','left','right') and kw==dict(cutoff=0.0):
                            tol=1e-3 if '32' in dt or '64'==dt[-2:] and 'complex64'==dt else 1e-9
                            err=np.linalg.norm(l@r-x)
                            assert err<tol*10, err
                    except Exception as e:
                        print(dt,shape,method,absorb,kw,type(e).__name__,e)
