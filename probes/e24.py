import inspect, functools, quimb.tensor as qtn
from quimb.tensor.tensor_core import Tensor, TensorNetwork
from quimb.tensor.tnag.core import TensorNetworkGen, TensorNetworkGenVector, TensorNetworkGenOperator
from quimb.tensor.tn1d.core import TensorNetwork1D, TensorNetwork1DFlat, TensorNetwork1DVector, TensorNetwork1DOperator, MatrixProductState, MatrixProductOperator
from quimb.tensor.tn2d.core import TensorNetwork2D, TensorNetwork2DVector, TensorNetwork2DOperator, TensorNetwork2DFlat, PEPS, PEPO
from quimb.tensor.tn3d.core import TensorNetwork3D, TensorNetwork3DVector, TensorNetwork3DFlat, PEPS3D
classes=[Tensor,TensorNetwork,TensorNetworkGen,TensorNetworkGenVector,TensorNetworkGenOperator,TensorNetwork1D,TensorNetwork1DFlat,TensorNetwork1DVector,TensorNetwork1DOperator,MatrixProductState,MatrixProductOperator,TensorNetwork2D,TensorNetwork2DVector,TensorNetwork2DOperator,TensorNetwork2DFlat,PEPS,PEPO,TensorNetwork3D,TensorNetwork3DVector,TensorNetwork3DFlat,PEPS3D]
seen={}
for cls in classes:
    for name in sorted(vars(cls)):
        if name.endswith('_') and not name.startswith('_') and name[:-1] in dir(cls):
            f_=inspect.getattr_static(cls,name); f=inspect.getattr_static(cls,name[:-1])
            kind=type(f_).__name__
            default=None
            try:
                sig=inspect.signature(getattr(cls,name[:-1]))
                if 'inplace' in sig.parameters: default=sig.parameters['inplace'].default
            except Exception as e: pass
            seen[(cls.__name__,name)]=(kind,default)
print(len(seen))
import collections
print(collections.Counter(v for v in seen.values()))
for k,v in seen.items():
    if v[0]!='partialmethod' or v[1] is not False: print(k,v)
print(sorted(set(n for (_,n) in seen)))
