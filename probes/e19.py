import numpy as np, quimb as qu, warnings, itertools, collections, math
warnings.simplefilter('ignore')
from quimb.operator.builder import SparseOperatorBuilder, get_mat
from quimb.operator.hilbertspace import HilbertSpace
import quimb.tensor as qtn
rng=np.random.default_rng(0)
res=collections.Counter()
def dense_ref(terms, sites):
    n=len(sites); D=2**n; H=np.zeros((D,D),complex)
    for coeff,ops in terms:
        mats=[np.eye(2,dtype=complex) for _ in sites]
        for op,s in ops: mats[sites.index(s)]=mats[sites.index(s)]@get_mat(op)
        M=mats[0]
        for m in mats[1:]: M=np.kron(M,m)
        H+=coeff*M
    return H
spinops=['x','y','z','sx','sy','sz','+','-','n','h','sn']
for trial in range(40):
    n=int(rng.integers(2,6)); sites=list(range(n))
    terms=[]
    for _ in range(int(rng.integers(1,6))):
        k=int(rng.integers(1,min(n,3)+1)); ss=rng.choice(n,size=k,replace=False)
        ops=tuple((str(rng.choice(spinops)),int(s)) for s in ss)
        c=complex(rng.normal(),rng.normal()) if rng.random()<0.5 else float(rng.normal())
        terms.append((c,ops))
    b=SparseOperatorBuilder(hilbert_space=HilbertSpace(n))
    for c,ops in terms: b.add_term(c,*ops)
    ref=dense_ref(terms,sites)
    checks={}
    try: checks['dense']=np.allclose(b.build_dense(),ref)
    except Exception as e: checks['dense']='ERR '+type(e).__name__+str(e)[:40]
    for fmt in ['csr','csc','coo','bsr']:
        try: checks['sparse-'+fmt]=np.allclose(b.build_sparse_matrix(stype=fmt).toarray(),ref)
        except Exception as e: checks['sparse-'+fmt]='ERR '+type(e).__name__+str(e)[:40]
    try:
        v=rng.normal(size=2**n)+1j*rng.normal(size=2**n)
        checks['matvec']=np.allclose(b.matvec(v),ref@v)
        lo=b.aslinearoperator(); checks['linop']=np.allclose(lo@v,ref@v)
    except Exception as e: checks['matvec']='ERR '+type(e).__name__+str(e)[:60]
    try:
        mpo=b.build_mpo(); checks['mpo']=np.allclose(mpo.to_dense(),ref)
    except Exception as e: checks['mpo']='ERR '+type(e).__name__+str(e)[:60]
    try:
        checks['ikron']=np.allclose(np.asarray(b.build_matrix_ikron()),ref)
    except Exception as e: checks['ikron']='ERR '+type(e).__name__+str(e)[:60]
    try:
        lt=b.build_local_terms()
        Hl=sum(np.asarray(qu.pkron(np.asarray(v),[2]*n,k if isinstance(k,tuple) else (k,))) for k,v in lt.items())
        checks['local_terms']=np.allclose(Hl,ref)
    except Exception as e: checks['local_terms']='ERR '+type(e).__name__+str(e)[:60]
    for tr in ['pauli']:
        try:
            b2=SparseOperatorBuilder(hilbert_space=HilbertSpace(n),pauli_decompose=True)
            for c,ops in terms: b2.add_term(c,*ops)
            checks['pauli_dense']=np.allclose(b2.build_dense(),ref)
        except Exception as e: checks['pauli_dense']='ERR '+type(e).__name__+str(e)[:60]
    for k,v in checks.items():
        res[(k,str(v))]+=1
        if v is not True and res[(k,str(v))]<2: print('trial',trial,k,v,terms)
for k,v in sorted(res.items()): print(k,v)
