import numpy as np, quimb as qu, quimb.tensor as qtn, warnings
warnings.simplefilter('ignore')
def iso_defects(psi):
    L=psi.L; out=[]
    for i in range(L):
        t=psi[i]
        lb = [] if i==0 else list(t.bonds(psi[i-1]))
        rb = [] if i==L-1 else list(t.bonds(psi[i+1]))
        phys=[psi.site_ind(i)]
        # left isometry: contract over left bond+phys -> identity on right bond
        def defect(inds_in, inds_out):
            if not inds_out: return abs(t.norm()**2-1)
            x=t.to_dense(inds_in+phys, inds_out)
            return np.linalg.norm(x.conj().T@x-np.eye(x.shape[1]))
        out.append((round(float(defect(lb,rb)),6), round(float(defect(rb,lb)),6)))
    return out
c=qtn.CircuitMPS(4)
for g in [('H',0),('CNOT',0,1),('SWAP',1,2),('RY',0.4,2)]:
    c.apply_gate(*g)
    print(g, c.gate_opts['info'], iso_defects(c._psi))
