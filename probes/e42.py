import numpy as np, quimb as qu, quimb.tensor as qtn, warnings, collections, inspect
warnings.simplefilter('ignore')
import quimb.tensor.belief_propagation as bp
rng=np.random.default_rng(0)
res=collections.Counter(); ex=[]
def rec(key,ok,info=None):
    res[(key,'ok' if ok else 'WRONG')]+=1
    if not ok and len(ex)<10: ex.append((key,info))
def crand(n): return rng.normal(size=(n,n))+1j*rng.normal(size=(n,n))
# generic tree / single loop vectors
for gname,edges in [('tree',[(0,1),(1,2),(1,3),(3,4)]),('loop',[(0,1),(1,2),(2,3),(3,0)]),('loopy',[(0,1),(1,2),(2,3),(3,0),(0,2)])]:
    psi=qtn.TN_from_edges_rand(edges,2,phys_dim=2,seed=4,dtype='complex128')
    sites=sorted(psi.sites); n=len(sites)
    d=psi.to_dense([psi.site_ind(s) for s in sites]).reshape(-1); nrm=np.vdot(d,d).real
    for where in [(0,1),(1,0),(2,3),(3,2)]:
        G=crand(4); ref=np.vdot(d,qu.pkron(G,[2]*n,[sites.index(w) for w in where])@d)/nrm
        for name,fn in [('exact',lambda: psi.local_expectation_exact(G,where)),
            ('cluster',lambda: psi.local_expectation_cluster(G,where,max_distance=6)),
            ('cluster-gauged',lambda: (lambda g: psi.gauge_all_simple(gauges=g,max_iterations=200,tol=1e-12).local_expectation_cluster(G,where,max_distance=6,gauges=g))({})),
            ('sloop',lambda: psi.local_expectation_sloop_expand(G,where,sloops=8)),
            ('gloop',lambda: psi.local_expectation_gloop_expand(G,where,gloops=8)),
            ('compressed',lambda: psi.local_expectation(G,where,max_bond=256,optimize='auto-hq')),
            ('compressed-noflat',lambda: psi.local_expectation(G,where,max_bond=256,optimize='auto-hq',flatten=False)),
            ('compressed-reduce',lambda: psi.local_expectation(G,where,max_bond=256,optimize='auto-hq',reduce=True)),
            ]:
            try: rec((gname,name),np.allclose(fn(),ref,rtol=1e-6),(where,))
            except Exception as e: res[((gname,name),'ERR '+type(e).__name__+' '+str(e)[:60])]+=1
# PEPS3D
p3=qtn.PEPS3D.rand(2,2,2,2,seed=1,dtype='complex128'); sites=list(p3.gen_site_coos()); n=len(sites)
d=p3.to_dense([p3.site_ind(s) for s in sites]).reshape(-1); nrm=np.vdot(d,d).real
for where in [((0,0,0),(0,0,1)),((0,0,1),(0,0,0)),((0,0,0),(1,0,0))]:
    G=crand(4); ref=np.vdot(d,qu.pkron(G,[2]*n,[sites.index(w) for w in where])@d)/nrm
    for name,fn in [('3d-exact',lambda: p3.local_expectation_exact(G,where)),('3d-boundary',lambda: p3.compute_local_expectation({where:G},max_bond=256,normalized=True))]:
        try: rec(name,np.allclose(fn(),ref,rtol=1e-5),(where,))
        except Exception as e: res[(name,'ERR '+type(e).__name__+' '+str(e)[:60])]+=1
# MPS routes
mps=qtn.MPS_rand_state(6,4,seed=2,dtype='complex128'); d=mps.to_dense().reshape(-1)
terms={(0,1):crand(4),(2,4):crand(4),(5,3):crand(4),(1,):crand(2)}
refs={k:np.vdot(d,qu.pkron(v,[2]*6,list(k))@d) for k,v in terms.items()}
for meth in ['canonical','envs']:
    try:
        out=mps.compute_local_expectation(terms,method=meth,return_all=True)
        for k in terms: rec(('mps',meth),np.allclose(out[k],refs[k]),(k,))
    except Exception as e: res[(('mps',meth),'ERR '+type(e).__name__+' '+str(e)[:60])]+=1
# BP marginals + gauge + compress on tree
tree=qtn.TN_from_edges_rand([(0,1),(1,2),(1,3),(3,4)],3,phys_dim=2,seed=5,dtype='complex128')
oix=tuple(tree.outer_inds()); ref=tree.contract(all,output_inds=oix).data
for name,fn in [('gauge_all_bp',lambda: tree.gauge_all_belief_propagation()),('compress_d2bp',lambda: bp.compress_d2bp(tree,max_bond=None,cutoff=0.0)),('compress_l2bp',lambda: bp.compress_l2bp(tree,max_bond=None,cutoff=0.0,site_tags=list(tree.site_tags)))]:
    try:
        out=fn(); rec(name,np.allclose(out.contract(all,output_inds=oix).data,ref,rtol=1e-6))
    except Exception as e: res[(name,'ERR '+type(e).__name__+' '+str(e)[:70])]+=1
for k,v in sorted(res.items(),key=str): print(k,v)
for e in ex: print(e)
