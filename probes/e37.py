import numpy as np, quimb as qu, quimb.tensor as qtn, warnings, traceback
warnings.simplefilter('ignore')
from quimb.tensor.decomp import array_split, svd_truncated
rng=np.random.default_rng(0)
x=rng.normal(size=(6,5))
# generic vs numba, renorm powers
for cm in ['rel','abs','rsum2','sum2','rsum1','sum1']:
    for renorm in [0,1,2,True]:
        for cutoff in [0.0,0.3]:
            kw=dict(cutoff=cutoff,cutoff_mode=cm,renorm=renorm,max_bond=3,absorb=None)
            try: a=array_split(x,method='svd',**kw)[1]
            except Exception as e: a='ERR '+type(e).__name__
            try: b=array_split(x[None],method='svd',**kw)[1][0]
            except Exception as e: b='ERR '+type(e).__name__+' '+str(e)[:40]
            same = (isinstance(a,np.ndarray) and isinstance(b,np.ndarray) and a.shape==b.shape and np.allclose(a,b))
            if not same: print(cm,renorm,cutoff,'numba',a if isinstance(a,str) else np.round(a,4),'generic',b if isinstance(b,str) else np.round(b,4))
# polar_right wide
t=qtn.Tensor(rng.normal(size=(2,5)),inds=('a','b'))
l,r=t.split(['a'],method='polar_right',get='tensors')
print('polar_right wide left_inds',l.left_inds, l.shape, 'defect', np.linalg.norm(l.to_dense(['a'],[l.inds[-1]]).T@l.to_dense(['a'],[l.inds[-1]])-np.eye(l.shape[-1])))
t=qtn.Tensor(rng.normal(size=(5,2)),inds=('a','b'))
l,r=t.split(['a'],method='polar_left',get='tensors')
print('polar_left tall right left_inds',r.left_inds, r.shape)
# measure remove last site
psi=qtn.MPS_rand_state(4,3,seed=0,dtype='complex128'); info={}
o,p2=psi.measure(3,remove=True,info=info,seed=1)
print('measure remove last: info',info,'L',p2.L)
try:
    p2.canonicalize_(0,info=info); print('ok canon',info)
except Exception as e: print('ERR after',type(e).__name__,e)
