import numpy as np, quimb.tensor as qtn, warnings
warnings.simplefilter('ignore')
for phys in (None,2,3):
  for D in (2,3):
    for seed in range(3):
        tn=qtn.TN_from_edges_rand([(0,1),(1,2),(2,3),(3,0)],D,phys_dim=phys,seed=seed,dtype='float64')
        oix=tuple(tn.outer_inds())
        ref=tn.contract(all,output_inds=oix,preserve_tensor=True).data
        out=tn.gauge_all_belief_propagation()
        d=out.contract(all,output_inds=oix,preserve_tensor=True).data
        print(phys,D,seed,'relerr %.2e'%(np.linalg.norm(d-ref)/np.linalg.norm(ref)))
