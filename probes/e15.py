import numpy as np, quimb as qu, quimb.tensor as qtn, warnings, itertools, traceback, collections
warnings.simplefilter('ignore')
res=collections.Counter(); fails=[]
seqs=[None,['xmin'],['xmax'],['ymin'],['ymax'],['xmin','xmax'],['ymin','ymax'],['xmin','ymin','xmax','ymax'],['ymax','xmin']]
modes=['mps','projector2d','full-bond','dm','zipup','direct','fit','zipup-first','src','srcmps','projector','local-early','local-late','superorthogonal','l2bp']
for (Lx,Ly,D,cyc) in [(3,3,2,False),(3,4,2,False),(4,3,3,False),(3,3,2,True)]:
  for dtype in ['float64','complex128']:
    tn=qtn.TN2D_rand(Lx,Ly,D,cyclic=cyc,seed=7,dtype=dtype)
    ex=tn.contract(all,optimize='auto-hq')
    for mode in modes:
      for seq in seqs:
        for kw in [dict(),dict(canonize=False),dict(equalize_norms=True),dict(strip_exponent=True)]:
          key=(mode,cyc)
          try:
            out=tn.contract_boundary(max_bond=64,cutoff=0.0,mode=mode,sequence=seq,**kw)
            if kw.get('strip_exponent'): out=out[0]*10**out[1]
            ok=np.allclose(out,ex,rtol=1e-6,atol=1e-9*abs(ex))
            res[key+('ok' if ok else 'WRONG',)]+=1
            if not ok: fails.append((Lx,Ly,D,cyc,dtype,mode,seq,kw,out,ex))
          except Exception as e:
            res[key+('ERR:'+type(e).__name__+':'+str(e)[:60],)]+=1
for k,v in sorted(res.items(),key=str): print(k,v)
for f in fails[:15]: print('FAIL',f)
