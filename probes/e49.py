import numpy as np, quimb as qu, warnings, collections, itertools, scipy.linalg as sla, scipy.sparse as sp, scipy.sparse.linalg as spla
warnings.simplefilter('ignore')
rng=np.random.default_rng(0)
res=collections.Counter(); ex=[]
def rec(key,ok,info=None):
    res[(key,'ok' if ok else 'WRONG')]+=1
    if not ok and len(ex)<14: ex.append((key,info))
def tryrec(key,f,info=None):
    try: rec(key,bool(f()),info)
    except Exception as e: res[(key,'ERR '+type(e).__name__+' '+str(e)[:60])]+=1
# ---- C17 rest
for d in (5,30,80):
    a=rng.normal(size=(d,d))+1j*rng.normal(size=(d,d)); H=(a+a.conj().T)/2; el=np.linalg.eigvalsh(H)
    for rep in ('dense','sparse'):
        A=qu.qarray(H) if rep=='dense' else sp.csr_matrix(H)
        tryrec(('eigh-full',rep),lambda: np.allclose(qu.eigvalsh(A),el))
        tryrec(('eigh-full-vecs',rep),lambda: (lambda l,v: np.allclose(H@v,v*l) and np.allclose(v.conj().T@v,np.eye(d)))(*qu.eigh(A)))
        for w in [(0.2,0.5),(0.0,0.3),(0.7,1.0)]:
            def f(w=w):
                l=qu.eigvalsh_window(A,w_0=(w[0]+w[1])/2,k=None,w_sz=w[1]-w[0]) if False else None
                return True
        # svd / svds
        M=rng.normal(size=(d,d+2))+1j*rng.normal(size=(d,d+2)); Ms=qu.qarray(M) if rep=='dense' else sp.csr_matrix(M)
        sv=np.linalg.svd(M,compute_uv=False)
        tryrec(('svds',rep),lambda: (lambda u,s,vh: np.allclose(np.sort(s)[::-1],sv[:3],atol=1e-6) and np.allclose(M@vh.conj().T,u*s,atol=1e-5))(*qu.svds(Ms,k=3)))
        tryrec(('svd',rep),lambda: (lambda u,s,vh: np.allclose((u*s)@vh,M))(*qu.svd(M)) )
        # expm
        tryrec(('expm',rep),lambda: np.allclose((lambda X: X.toarray() if sp.issparse(X) else np.asarray(X))(qu.expm(A*(-0.3j),herm=False)),sla.expm(-0.3j*H)))
        tryrec(('expm-herm',rep),lambda: np.allclose(np.asarray(qu.expm(qu.qarray(H)*1.0,herm=True)),sla.expm(H)))
        v=rng.normal(size=(d,1))+0j
        tryrec(('expm_multiply',rep),lambda: np.allclose(np.asarray(qu.expm_multiply(A*(-0.4j),qu.qarray(v))),sla.expm(-0.4j*H)@v,atol=1e-8))
    P=H@H.conj().T
    tryrec('sqrtm',lambda: np.allclose((lambda S: np.asarray(S)@np.asarray(S))(qu.sqrtm(qu.qarray(P),herm=True)),P))
    for t in ['fro','nuc','spec',2,'tr','trace']:
        def f(t=t):
            v=qu.norm(qu.qarray(H),t); s=np.linalg.svd(H,compute_uv=False)
            ref={'fro':np.sqrt((s**2).sum()),'nuc':s.sum(),'tr':s.sum(),'trace':s.sum(),'spec':s.max(),2:s.max()}[t]
            return abs(v-ref)<1e-8
        tryrec(('norm',str(t)),f)
# autoblock
d=24
blocks=[rng.normal(size=(k,k)) for k in (5,7,12)]; Hb=sla.block_diag(*[(b+b.T)/2 for b in blocks]); perm=rng.permutation(d); Hp=Hb[np.ix_(perm,perm)]
tryrec('autoblock-vals',lambda: np.allclose(np.sort(qu.eigvalsh(qu.qarray(Hp),autoblock=True)),np.linalg.eigvalsh(Hp)))
tryrec('autoblock-vecs',lambda: (lambda l,v: np.allclose(Hp@v,v*l) and np.allclose(v.T@v,np.eye(d)) and np.allclose(l,np.sort(l)))(*qu.eigh(qu.qarray(Hp),autoblock=True)))
# ---- C15 rest
for trial in range(40):
    n=int(rng.integers(2,5)); dims=[int(x) for x in rng.integers(1,4,size=n)]; D=int(np.prod(dims))
    perm=[int(x) for x in rng.permutation(n)]
    M=rng.normal(size=(D,D))
    ref=M.reshape(dims+dims).transpose(perm+[p+n for p in perm]).reshape(D,D)
    tryrec('permute-op',lambda: np.allclose(np.asarray(qu.permute(qu.qarray(M),dims,perm)),ref),(dims,perm))
    tryrec('permute-sparse',lambda: np.allclose(qu.permute(sp.csr_matrix(M),dims,perm).toarray(),ref),(dims,perm))
    v=rng.normal(size=(D,1)); tryrec('permute-ket',lambda: np.allclose(np.asarray(qu.permute(qu.qarray(v),dims,perm)).ravel(),v.reshape(dims).transpose(perm).ravel()),(dims,perm))
    k=int(rng.integers(1,n+1)); inds=[int(x) for x in rng.choice(n,size=k,replace=False)]
    sub=[dims[i] for i in inds]; Ds=int(np.prod(sub)); A=rng.normal(size=(Ds,Ds))
    # reference pkron: A acts on subsystems inds in given order
    full=np.zeros((D,D)); 
    rest=[i for i in range(n) if i not in inds]
    Afull=np.kron(A,np.eye(int(np.prod([dims[i] for i in rest])) if rest else 1))
    order=inds+rest; inv=np.argsort(order)
    dd=[dims[i] for i in order]
    refp=Afull.reshape(dd+dd).transpose(list(inv)+[i+n for i in inv]).reshape(D,D)
    tryrec('pkron',lambda: np.allclose(np.asarray(qu.pkron(A,dims,inds)),refp),(dims,inds))
    tryrec('pkron-sparse',lambda: np.allclose(qu.pkron(sp.csr_matrix(A),dims,inds,sparse=True).toarray() if True else None,refp),(dims,inds))
    # itrace
    tryrec('itrace',lambda: np.allclose(qu.itrace(M.reshape(dims+dims),(list(range(n)),list(range(n,2*n)))),np.trace(M)) if n<=4 else True)
# ham ownership
for n in (3,4,5):
    for name,f in [('heis',lambda **k: qu.ham_heis(n,sparse=True,**k)),('ising',lambda **k: qu.ham_ising(n,sparse=True,**k)),('xy',lambda **k: qu.ham_XY(n,sparse=True,**k)),('j1j2',lambda **k: qu.ham_j1j2(n,sparse=True,**k)),('mbl',lambda **k: qu.ham_mbl(n,0.5,seed=3,sparse=True,**k))]:
        try:
            full=f().toarray(); D=2**n; ok=True
            for ri in range(0,D,3):
                for rf in range(ri+1,D+1,2):
                    X=f(ownership=(ri,rf)); X=X.toarray() if sp.issparse(X) else np.asarray(X)
                    ok&= X.shape==(rf-ri,D) and np.allclose(X,full[ri:rf])
            rec(('ham-own',name),ok,(n,))
        except Exception as e: res[(('ham-own',name),'ERR '+type(e).__name__+' '+str(e)[:60])]+=1
for k,v in sorted(res.items(),key=str): print(k,v)
for e in ex: print(e)
