import numpy as np, quimb as qu, quimb.tensor as qtn, warnings
warnings.simplefilter('ignore')
rng=np.random.default_rng(0)
def crand(n): return rng.normal(size=(n,n))+1j*rng.normal(size=(n,n))
for gname,edges in [('tree',[(0,1),(1,2),(1,3),(3,4)]),('loop',[(0,1),(1,2),(2,3),(3,0)]),('loopy',[(0,1),(1,2),(2,3),(3,0),(0,2)]),('loop+tail',[(0,1),(1,2),(2,0),(2,3),(3,4)])]:
    psi=qtn.TN_from_edges_rand(edges,2,phys_dim=2,seed=4,dtype='complex128')
    sites=sorted(psi.sites); n=len(sites)
    d=psi.to_dense([psi.site_ind(s) for s in sites]).reshape(-1); nrm=np.vdot(d,d).real
    g={}; psig=psi.gauge_all_simple(gauges=g,max_iterations=1000,tol=1e-13)
    for where in [(0,1),(1,0),(2,3)]:
        G=crand(4); ref=np.vdot(d,qu.pkron(G,[2]*n,[sites.index(w) for w in where])@d)/nrm
        out=[]
        for name,fn in [('cluster0',lambda: psig.local_expectation_cluster(G,where,max_distance=0,gauges=g)),
                        ('sloop',lambda: psig.local_expectation_sloop_expand(G,where,sloops=n+1,gauges=g)),
                        ('gloop',lambda: psig.local_expectation_gloop_expand(G,where,gloops=n+1,gauges=g))]:
            try: out.append((name,'%.1e'%abs(fn()-ref)))
            except Exception as e: out.append((name,'ERR '+type(e).__name__+str(e)[:50]))
        print(gname,where,out)
