import numpy as np, quimb as qu, quimb.tensor as qtn, warnings, collections, itertools, traceback
warnings.simplefilter('ignore')
res=collections.Counter(); ex=[]
def einsum_value(ts,out,expo):
    labs={}
    def L(x): return labs.setdefault(x,len(labs))
    args=[]
    for t in ts: args+= [t.data,[L(i) for i in t.inds]]
    return np.einsum(*args,[L(o) for o in out])*10.0**expo
def gen(rng):
    nt=int(rng.integers(1,6)); pool=list('abcdefg'); size={p:int(rng.integers(1,4)) for p in pool}
    ts=[]
    for k in range(nt):
        r=int(rng.integers(0,4)); inds=tuple(rng.choice(pool,size=r,replace=bool(rng.random()<0.15))) if r else ()
        shape=[size[i] for i in inds]
        x=rng.normal(size=shape)+(1j*rng.normal(size=shape) if rng.random()<0.5 else 0)
        tags=[f'T{k}']+[str(t) for t in rng.choice(['X','Y','Z'],size=int(rng.integers(0,3)),replace=False)]
        ts.append(qtn.Tensor(x,inds=inds,tags=tags))
    return ts
def rec(key,ok,info=None):
    res[(key,'ok' if ok else 'WRONG')]+=1
    if not ok and len(ex)<12: ex.append((key,info))
rng=np.random.default_rng(1)
for trial in range(400):
    ts=gen(rng); tn=qtn.TensorNetwork(ts); expo=float(rng.choice([0,0,1.5,-2.0])); tn.exponent=expo
    counts=collections.Counter(i for t in ts for i in t.inds)
    hyper=any(c>2 for c in counts.values()); rep=any(len(set(t.inds))<len(t.inds) for t in ts)
    alllabs=list(counts)
    k=int(rng.integers(0,len(alllabs)+1)); out=tuple(rng.permutation(alllabs)[:k]) if alllabs else ()
    ref=einsum_value(ts,out,expo)
    desc=(trial,[ (t.inds,tuple(t.tags)) for t in ts],out,expo)
    def val(x):
        if isinstance(x,qtn.Tensor): return x.transpose(*out).data
        if isinstance(x,qtn.TensorNetwork): return x.contract(all,output_inds=out,preserve_tensor=True).transpose(*out).data if out else np.asarray(x.contract(all,output_inds=()))
        return np.asarray(x)
    routes={
      'contract_all':lambda: tn.contract(all,output_inds=out),
      'contract_all_greedy':lambda: tn.contract(all,output_inds=out,optimize='greedy'),
      'contract_tags_all':lambda: tn.contract_tags(all,output_inds=out),
      'contract_inplace':lambda: tn.copy().contract_(all,output_inds=out),
      'strip':lambda: (lambda r:(r[0].data if isinstance(r[0],qtn.Tensor) else r[0])*10**r[1])(tn.contract(all,output_inds=out,strip_exponent=True)) ,
      'cumulative':lambda: tn.contract_cumulative([t.tags for t in ts][:],output_inds=out) if False else None,
      'partial_then_all':lambda: tn.contract(['X'],output_inds=None) if False else None,
    }
    for name,f in routes.items():
        try:
            v=f()
            if v is None: continue
            if name=='strip': 
                got=np.asarray(v); 
                if isinstance(tn.contract(all,output_inds=out,strip_exponent=True)[0],qtn.Tensor): got=tn.contract(all,output_inds=out,strip_exponent=True)[0].transpose(*out).data*10**tn.contract(all,output_inds=out,strip_exponent=True)[1]
            else: got=val(v)
            rec(name,np.allclose(got,ref,rtol=1e-9,atol=1e-12),desc)
        except Exception as e:
            res[(name,'ERR '+type(e).__name__+' '+str(e)[:60])]+=1
    # partial contraction by tag on non-hyper networks (output inds inferred)
    if not hyper and not rep:
        oi=tuple(tn.outer_inds()); ref2=einsum_value(ts,oi,expo)
        for tag in ['X','Y']:
            if tag in tn.tag_map:
                try:
                    p=tn.contract(tag)
                    got=p.contract(all,output_inds=oi,preserve_tensor=True).data if isinstance(p,qtn.TensorNetwork) else (p.transpose(*oi).data if isinstance(p,qtn.Tensor) else np.asarray(p))
                    rec('partial_tag',np.allclose(got,ref2,rtol=1e-9,atol=1e-12),desc)
                except Exception as e: res[('partial_tag','ERR '+type(e).__name__+' '+str(e)[:60])]+=1
        try:
            seq=[[f'T{k}'] for k in rng.permutation(len(ts))]
            p=tn.contract_cumulative(seq)
            got=p.transpose(*oi).data if isinstance(p,qtn.Tensor) else (np.asarray(p) if not isinstance(p,qtn.TensorNetwork) else p.contract(all,output_inds=oi,preserve_tensor=True).data)
            rec('cumulative',np.allclose(got,ref2,rtol=1e-9,atol=1e-12),desc)
        except Exception as e: res[('cumulative','ERR '+type(e).__name__+' '+str(e)[:60])]+=1
        try:
            nr=tn.norm(); rec('norm',np.allclose(nr,np.linalg.norm(ref2)),desc)
        except Exception as e: res[('norm','ERR '+type(e).__name__+' '+str(e)[:60])]+=1
for k,v in sorted(res.items(),key=str): print(k,v)
for e in ex[:12]: print(e)
