import numpy as np, quimb as qu, quimb.tensor as qtn, traceback
rng=np.random.default_rng(0)
A=qtn.Tensor(rng.normal(size=(2,3)),inds=('a','x'),tags='A')
B=qtn.Tensor(rng.normal(size=(3,2)),inds=('x','b'),tags='B')
tn=A&B
G=rng.normal(size=(4,4))
psi=tn.to_dense(['a','b'])
ref=(G@psi).reshape(2,2)
for c in [False,True,'split','reduce-split','split-gate','swap-split-gate','auto-split-gate']:
    try:
        out=tn.gate_inds(G,['a','b'],contract=c, **({'cutoff':0.0} if c not in (False,True) else {}))
        d=out.to_dense(['a'],['b'])
        print(c, np.allclose(d,ref), out.outer_inds())
    except Exception as e:
        print(c,'ERR',type(e).__name__,e)
