import numpy as np, quimb.tensor as qtn, warnings, collections, gc, pickle, traceback
warnings.simplefilter('ignore')
res=collections.Counter(); ex=[]
POOL_I=list('abcdef'); POOL_T=['X','Y','Z','W']
SIZE={i:2 for i in POOL_I}
def scan(tn):
    ind_map=collections.defaultdict(set); tag_map=collections.defaultdict(set); mult=collections.Counter()
    for tid,t in tn.tensor_map.items():
        for ix in t.inds: ind_map[ix].add(tid); mult[ix]+=1
        for tg in t.tags: tag_map[tg].add(tid)
    return ind_map,tag_map,mult
def check(nets,tensors,hist):
    live_ids={id(tn):tn for tn in nets}
    for tn in nets:
        im,tm,mult=scan(tn)
        if {k:set(v) for k,v in tn.ind_map.items()}!=dict(im): return 'ind_map',tn
        if {k:set(v) for k,v in tn.tag_map.items()}!=dict(tm): return 'tag_map',tn
        outer={ix for ix,c in mult.items() if c==1}; inner=set(mult)-outer
        rep={ix for tid,t in tn.tensor_map.items() for ix in t.inds if t.inds.count(ix)>1}
        if set(tn.outer_inds())!=outer or set(tn.inner_inds())!=inner:
            if rep: return 'inner/outer(repeated)',tn
            return 'inner/outer',tn
        try: tn.check()
        except Exception as e: return 'check() '+str(e)[:40],tn
    alltens={id(t):t for t in tensors}
    for tn in nets:
        for t in tn.tensor_map.values(): alltens[id(t)]=t
    for t in alltens.values():
        t.check_owners()
        got={(id(ref()),tid) for ref,tid in t.owners.values() if ref() is not None}
        exp={(id(tn),tid) for tn in nets for tid,tt in tn.tensor_map.items() if tt is t}
        # owners may include live networks not in our list? all live networks are in nets unless leaked
        got={g for g in got if g[0] in live_ids}
        if got!=exp: return 'owners',t
    return None,None
rng=np.random.default_rng(5)
def new_tensor(allow_rep=True):
    r=int(rng.integers(0,4)); inds=tuple(str(x) for x in rng.choice(POOL_I,size=r,replace=bool(allow_rep and rng.random()<0.1)))
    tags=[str(x) for x in rng.choice(POOL_T,size=int(rng.integers(0,3)),replace=False)]
    return qtn.Tensor(rng.normal(size=[2]*r),inds=inds,tags=tags)
OPS=['new_t','new_net','add_t','add_net','pop','reindex_t','reindex_n','retag_t','retag_n','add_tag','drop_tags','select','partition','copy','gc_drop','pickle','setitem','transpose','isel','contract_tags','split','reindex_merge','multiply']
for trial in range(600):
    nets=[]; tensors=[new_tensor() for _ in range(3)]; hist=[]
    for step in range(int(rng.integers(3,25))):
        op=str(rng.choice(OPS))
        try:
            if op=='new_t': tensors.append(new_tensor()); hist.append(op)
            elif op=='new_net':
                k=int(rng.integers(0,min(4,len(tensors))+1)); ts=[tensors[i] for i in rng.choice(len(tensors),size=k,replace=False)] if k else []
                virt=bool(rng.random()<0.5); nets.append(qtn.TensorNetwork(ts,virtual=virt)); hist.append((op,k,virt))
            elif op=='add_t' and nets:
                tn=nets[int(rng.integers(len(nets)))]; t=tensors[int(rng.integers(len(tensors)))]; virt=bool(rng.random()<0.5)
                if virt and any(tt is t for tt in tn.tensor_map.values()): continue
                tn.add_tensor(t,virtual=virt); hist.append((op,virt))
            elif op=='add_net' and len(nets)>=2:
                i,j=rng.choice(len(nets),size=2,replace=False); virt=bool(rng.random()<0.5); cc=bool(rng.random()<0.7)
                a,b=nets[i],nets[j]
                if virt and any(tt is t for tt in a.tensor_map.values() for t in b.tensor_map.values()): continue
                how=str(rng.choice(['and','or','iand','ior','add']))
                if how=='and': nets.append(a&b)
                elif how=='or':
                    if any(tt is t for tt in a.tensor_map.values() for t in b.tensor_map.values()): continue
                    nets.append(a|b)
                elif how=='iand': a&=b
                elif how=='ior':
                    if any(tt is t for tt in a.tensor_map.values() for t in b.tensor_map.values()): continue
                    a|=b
                else: a.add_tensor_network(b,virtual=virt,check_collisions=cc)
                hist.append((op,how,virt,cc))
            elif op=='pop' and nets:
                tn=nets[int(rng.integers(len(nets)))]
                if tn.num_tensors: tid=list(tn.tensor_map)[int(rng.integers(tn.num_tensors))]; tensors.append(tn.pop_tensor(tid)); hist.append((op,))
            elif op in('reindex_t','retag_t','transpose','isel') :
                cands=tensors+[t for tn in nets for t in tn.tensor_map.values()]
                t=cands[int(rng.integers(len(cands)))]
                if op=='reindex_t' and t.inds:
                    a=str(rng.choice(t.inds)); b=str(rng.choice(POOL_I)); 
                    t.reindex_({a:b}); hist.append((op,a,b))
                elif op=='retag_t' and t.tags:
                    a=str(rng.choice(list(t.tags))); b=str(rng.choice(POOL_T)); t.retag_({a:b}); hist.append((op,a,b))
                elif op=='transpose' and t.ndim>1 and len(set(t.inds))==t.ndim: t.transpose_(*rng.permutation(t.inds)); hist.append(op)
                elif op=='isel' and t.inds: 
                    ix=str(rng.choice(t.inds)); 
                    if t.inds.count(ix)==1: t.isel_({ix:0}); hist.append((op,ix))
            elif op in('reindex_n','retag_n','add_tag','drop_tags','contract_tags','split','reindex_merge','multiply','setitem') and nets:
                tn=nets[int(rng.integers(len(nets)))]
                if op=='reindex_n' and tn.ind_map:
                    a=str(rng.choice(list(tn.ind_map))); b=str(rng.choice(POOL_I)); tn.reindex_({a:b}); hist.append((op,a,b))
                elif op=='reindex_merge' and len(tn.ind_map)>=2:
                    a,b=[str(x) for x in rng.choice(list(tn.ind_map),size=2,replace=False)]; tn.reindex_({a:b,b:a}); hist.append((op,a,b))
                elif op=='retag_n' and tn.tag_map:
                    a=str(rng.choice(list(tn.tag_map))); b=str(rng.choice(POOL_T)); tn.retag_({a:b}); hist.append((op,a,b))
                elif op=='add_tag': tn.add_tag(str(rng.choice(POOL_T))); hist.append(op)
                elif op=='drop_tags' and tn.tag_map: tn.drop_tags(str(rng.choice(list(tn.tag_map)))); hist.append(op)
                elif op=='multiply' and tn.num_tensors: tn.multiply_(1.5); hist.append(op)
                elif op=='setitem' and tn.tag_map:
                    tg=str(rng.choice(list(tn.tag_map)))
                    if len(tn.tag_map[tg])==1:
                        t=new_tensor(); tn[tg]=t; hist.append((op,tg))
                elif op=='contract_tags' and tn.tag_map:
                    tg=str(rng.choice(list(tn.tag_map)))
                    hyper=any(len(v)>2 for v in tn.ind_map.values()) or any(len(set(t.inds))<t.ndim for t in tn)
                    if not hyper and len(tn.tag_map[tg])<tn.num_tensors: tn.contract_tags_(tg); hist.append((op,tg))
                elif op=='split' and tn.num_tensors:
                    tid=list(tn.tensor_map)[int(rng.integers(tn.num_tensors))]; t=tn.tensor_map[tid]
                    if t.ndim>=2 and len(set(t.inds))==t.ndim and len(t.tags)>0 and len(tn._get_tids_from_tags(t.tags,'all'))==1:
                        tn.split_tensor(t.tags,[t.inds[0]],cutoff=0.0); hist.append(op)
            elif op=='select' and nets:
                tn=nets[int(rng.integers(len(nets)))]
                if tn.tag_map:
                    tg=str(rng.choice(list(tn.tag_map))); virt=bool(rng.random()<0.6); nets.append(tn.select(tg,virtual=virt)); hist.append((op,tg,virt))
            elif op=='partition' and nets:
                tn=nets[int(rng.integers(len(nets)))]
                if tn.tag_map:
                    tg=str(rng.choice(list(tn.tag_map))); inp=bool(rng.random()<0.5); a,b=tn.partition(tg,inplace=inp); 
                    if not inp: nets.append(a)
                    nets.append(b); hist.append((op,tg,inp))
            elif op=='copy' and nets:
                tn=nets[int(rng.integers(len(nets)))]; virt=bool(rng.random()<0.5); nets.append(tn.copy(virtual=virt)); hist.append((op,virt))
            elif op=='gc_drop' and nets:
                i=int(rng.integers(len(nets))); del nets[i]; gc.collect(); hist.append(op)
            elif op=='pickle' and nets:
                i=int(rng.integers(len(nets))); nets.append(pickle.loads(pickle.dumps(nets[i]))); hist.append(op)
            else: continue
        except Exception as e:
            res[('ERR',op,type(e).__name__+' '+str(e)[:50])]+=1
            if len(ex)<8: ex.append(('err',op,hist[:],traceback.format_exc()[-300:]))
            break
        why,obj=check(nets,tensors,hist)
        if why:
            res[('BROKEN',why,op)]+=1
            if len(ex)<25: ex.append((why,op,hist[-6:], [(tid,t.inds) for tid,t in obj.tensor_map.items()] if hasattr(obj,'tensor_map') else None, (obj.outer_inds(),obj.inner_inds()) if hasattr(obj,'tensor_map') else None))
            break
    else:
        res['history ok']+=1
for k,v in sorted(res.items(),key=str): print(k,v)
for e in ex[:25]: print(e)
