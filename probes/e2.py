import numpy as np, quimb as qu, quimb.tensor as qtn
rng=np.random.default_rng(0)
a=qtn.Tensor(rng.normal(size=(2,3)),inds=('a','b'),tags='A')
b=qtn.Tensor(rng.normal(size=(3,2)),inds=('b','c'),tags='B')
tn=a&b
tn.exponent=1.0
print('trace', tn.trace(['a'],['c']), 'expected', 10*np.einsum('ab,ba->',a.data,b.data))
c=qtn.Tensor(rng.normal(size=(2,2)),inds=('c','a'),tags='C')
tn=a&b&c; tn.exponent=2.0
t1,t2=tn.partition('A')
print('partition exps', t1.exponent,t2.exponent)
t1,t2=tn.copy().partition('A',inplace=True)
print('partition inplace exps', t1.exponent,t2.exponent)
print('select', tn.select('A').exponent, tn.select('A',with_exponent=True).exponent)
print('strip', tn.contract(all, strip_exponent=True))
print('strip tags', tn.contract_tags(all, strip_exponent=True))
print('norm', tn.norm())
ref=np.einsum('ab,bc,ca->',a.data,b.data,c.data)
print(abs(ref)*100)
# hyper index
d=qtn.Tensor(rng.normal(size=(3,)),inds=('b',),tags='D')
tn=a&b&d
print(tn.outer_inds(), tn.inner_inds())
print(tn.contract(all,output_inds=('a','c')).data - np.einsum('ab,bc,b->ac',a.data,b.data,d.data))
print(tn.to_dense(['a'],['c']).shape)
# TNLO
lo=tn.aslinearoperator(['a'],['c'])
print(lo.to_dense()-np.einsum('ab,bc,b->ac',a.data,b.data,d.data))
tn.exponent=1.0
lo=tn.aslinearoperator(['a'],['c'])
v=rng.normal(size=2)
print(lo@v, 10*np.einsum('ab,bc,b->ac',a.data,b.data,d.data)@v)
print(lo.to_dense())
