import numpy as np, quimb as qu, warnings, collections, itertools, scipy.linalg as sla
warnings.simplefilter('ignore')
rng=np.random.default_rng(0)
res=collections.Counter(); ex=[]
def chk(name,cond,info=None):
    res[(name,'ok' if cond else 'WRONG')]+=1
    if not cond and len(ex)<12: ex.append((name,info))
def ptr_ref(rho,dims,keep):
    n=len(dims); r=rho.reshape(dims+dims)
    keep=list(keep); tr=[i for i in range(n) if i not in keep]
    # einsum
    idx_in=list(range(n)); idx_out=list(range(n,2*n))
    for t in tr: idx_out[t]=idx_in[t]
    out=np.einsum(r,idx_in+idx_out,[idx_in[k] for k in sorted(keep)]+[idx_out[k] for k in sorted(keep)])
    dk=int(np.prod([dims[k] for k in keep])); return out.reshape(dk,dk)
def vn(rho):
    e=np.linalg.eigvalsh(rho); e=e[e>1e-14]; return float(-(e*np.log2(e)).sum())
for trial in range(60):
    n=int(rng.integers(2,5)); dims=[int(x) for x in rng.integers(2,4,size=n)]; D=int(np.prod(dims))
    if D>64: continue
    psi=qu.rand_ket(D,seed=trial); rank=int(rng.integers(1,D+1)); rho=qu.rand_rho(D,seed=trial+1000)
    k=int(rng.integers(1,n)); keep=sorted(int(x) for x in rng.choice(n,size=k,replace=False))
    # partial trace
    r1=np.asarray(qu.ptr(rho,dims,keep)); chk('ptr-rho',np.allclose(r1,ptr_ref(np.asarray(rho),dims,keep)),(dims,keep))
    r2=np.asarray(qu.ptr(psi,dims,keep)); chk('ptr-ket',np.allclose(r2,ptr_ref(np.asarray(psi@psi.H),dims,keep)),(dims,keep))
    r3=qu.ptr(qu.qu(rho,sparse=True),dims,keep); r3=r3.toarray() if hasattr(r3,'toarray') else np.asarray(r3); chk('ptr-sparse',np.allclose(r3,r1),(dims,keep))
    # adjointness
    A=rng.normal(size=(r1.shape))+1j*rng.normal(size=r1.shape)
    emb=np.asarray(qu.pkron(A,dims,keep)) ; chk('adjoint',np.allclose(np.trace(emb@np.asarray(rho)),np.trace(A@r1)),(dims,keep))
    # ikron single op vs kron
    i=int(rng.integers(0,n)); a=rng.normal(size=(dims[i],dims[i]))
    ref=np.eye(1)
    for j in range(n): ref=np.kron(ref,a if j==i else np.eye(dims[j]))
    chk('ikron',np.allclose(np.asarray(qu.ikron(a,dims,i)),ref)); chk('ikron-sparse',np.allclose(qu.ikron(qu.qu(a,sparse=True),dims,i,sparse=True).toarray(),ref))
    # entropy / mutinf / negativity
    chk('entropy',abs(qu.entropy(rho)-vn(np.asarray(rho)))<1e-8)
    if n>=2:
        sa=[0]; sb=[1]
        mi=qu.mutinf_subsys(psi,dims,sa,sb) if n>2 else qu.mutinf(psi,dims)
        ra=ptr_ref(np.asarray(psi@psi.H),dims,sa); rb=ptr_ref(np.asarray(psi@psi.H),dims,sb); rab=ptr_ref(np.asarray(psi@psi.H),dims,[0,1])
        chk('mutinf',abs(mi-(vn(ra)+vn(rb)-vn(rab)))<1e-7,(dims,mi,vn(ra)+vn(rb)-vn(rab)))
        # negativity of rho_ab wrt a
        dab=[dims[0],dims[1]]
        pt=rab.reshape(dab+dab).transpose(2,1,0,3).reshape(rab.shape)
        neg_ref=(np.abs(np.linalg.eigvalsh(pt)).sum()-1)/2
        chk('negativity',abs(qu.negativity(rab,dab,0)-max(neg_ref,0))<1e-8)
        ln=qu.logneg_subsys(psi,dims,sa,sb) if n>2 else qu.logneg(psi,dims,0)
        chk('logneg',abs(ln-max(0,np.log2(np.abs(np.linalg.eigvalsh(pt)).sum())))<1e-6,(dims,ln))
    # fidelity/trace distance
    rho2=qu.rand_rho(D,seed=trial+5)
    sq=sla.sqrtm(np.asarray(rho)); F=np.real(np.trace(sla.sqrtm(sq@np.asarray(rho2)@sq)))**2
    chk('fidelity',abs(qu.fidelity(rho,rho2)-F)<1e-6,(qu.fidelity(rho,rho2),F))
    chk('trace_distance',abs(qu.trace_distance(rho,rho2)-0.5*np.abs(np.linalg.eigvalsh(np.asarray(rho-rho2))).sum())<1e-8)
    chk('fidelity-ket',abs(qu.fidelity(psi,rho)-np.real(psi.H@rho@psi).item())<1e-8)
for k,v in sorted(res.items()): print(k,v)
for e in ex: print(e)
