import numpy as np, quimb as qu, itertools, collections, scipy.sparse as sp
rng=np.random.default_rng(0)
res=collections.Counter(); ex=[]
for nops in (1,2,3,4):
  for dims in itertools.product([1,2,3],repeat=nops):
    ops_d=[rng.normal(size=(d,int(rng.integers(1,4)))) for d in dims]
    full=ops_d[0]
    for o in ops_d[1:]: full=np.kron(full,o)
    D=full.shape[0]
    for kind in ('dense','csr','coo','mixed'):
        if kind=='dense': ops=[qu.qarray(o) for o in ops_d]
        elif kind=='csr': ops=[sp.csr_matrix(o) for o in ops_d]
        elif kind=='coo': ops=[sp.coo_matrix(o) for o in ops_d]
        else: ops=[sp.csr_matrix(o) if i%2 else qu.qarray(o) for i,o in enumerate(ops_d)]
        for ri in range(D):
            for rf in range(ri+1,D+1):
                try:
                    X=qu.kron(*ops,ownership=(ri,rf))
                    Xd=X.toarray() if sp.issparse(X) else np.asarray(X)
                    ok=Xd.shape==full[ri:rf].shape and np.allclose(Xd,full[ri:rf])
                    res[(kind,'ok' if ok else 'WRONG')]+=1
                    if not ok and len(ex)<5: ex.append((dims,kind,ri,rf,Xd.shape,full[ri:rf].shape))
                except Exception as e:
                    res[(kind,'ERR '+type(e).__name__)]+=1
                    if len(ex)<5: ex.append((dims,kind,ri,rf,str(e)[:60]))
print(res); print(ex)
