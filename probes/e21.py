import numpy as np, quimb as qu, warnings, collections
from quimb.core import threading_choose_num_blocks as cnb, threading_get_block_range as gbr
res=collections.Counter(); ex=[]
for N in range(0,80):
  for tb in list(range(1,40))+[-x for x in range(1,40)]:
    for nt in range(1,18):
      try:
        nb,base,rem=cnb(N,tb,nt)
        cover=np.zeros(N,int)
        for b in range(int(nb)):
            s,e=gbr(b,base,rem); s=int(s); e=int(e)
            if e> N or s<0: res['oob']+=1; ex.append((N,tb,nt,nb,base,rem)); break
            cover[s:e]+=1
        else:
            if (cover==1).all(): res['ok']+=1
            else: res['badcover']+=1; ex.append((N,tb,nt,nb,base,rem))
      except Exception as e:
        res['ERR '+type(e).__name__]+=1
        if len(ex)<5: ex.append(('err',N,tb,nt,str(e)[:50]))
print(res); print(ex[:12])
# which (N,tb,nt) error and would be reached via maybe_multithread (N>tb)?
cnt=0
for N in range(1,80):
  for tb in range(1,40):
    for nt in range(2,18):
      if N>tb:
        try: cnb(N,tb,nt)
        except Exception as e:
            cnt+=1
            if cnt<6: print('reachable error',N,tb,nt,type(e).__name__)
print('reachable errors',cnt)
