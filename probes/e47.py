import numpy as np, quimb as qu, quimb.tensor as qtn, warnings, collections
warnings.simplefilter('ignore')
rng=np.random.default_rng(0)
res=collections.Counter(); ex=[]
def rec(key,ok,info=None):
    res[(key,'ok' if ok else 'WRONG')]+=1
    if not ok and len(ex)<12: ex.append((key,info))
def rmps(L,cyc=False,seed=0,dt='complex128',phys=None):
    return qtn.MPS_rand_state(L,int(rng.integers(1,4)),cyclic=cyc,seed=seed,dtype=dt,phys_dim=phys or 2)
for trial in range(40):
    L=int(rng.integers(1,7)); cyc=bool(rng.random()<0.3) and L>=3
    a=rmps(L,cyc,trial); b=rmps(L,cyc,trial+100); A=qtn.MPO_rand(L,int(rng.integers(1,4)),cyclic=cyc,seed=trial,dtype='complex128'); B=qtn.MPO_rand(L,2,cyclic=cyc,seed=trial+7,dtype='complex128')
    da,db,dA,dB=a.to_dense(),b.to_dense(),A.to_dense(),B.to_dense()
    c=complex(rng.normal(),rng.normal())
    T=[('add',lambda:(a+b).to_dense(),da+db),('sub',lambda:(a-b).to_dense(),da-db),('mul',lambda:(a*c).to_dense(),da*c),('div',lambda:(a/c).to_dense(),da/c),('neg',lambda:(-a).to_dense(),-da),
       ('add_MPS',lambda:a.add_MPS(b).to_dense(),da+db),('addMPO',lambda:(A+B).to_dense(),dA+dB),('add_MPO',lambda:A.add_MPO(B).to_dense(),dA+dB),
       ('apply',lambda:A.apply(a).to_dense(),dA@da),('apply_mpo',lambda:A.apply(B).to_dense(),dA@dB),('overlap',lambda:a.H@b,(da.conj().T@db).item()),
       ('expec',lambda:qtn.expec_TN_1D(a.H,A,b),(da.conj().T@dA@db).item()),('norm',lambda:a.norm(),np.linalg.norm(da)),('trace',lambda:A.trace(),np.trace(dA)),
       ('T',lambda:A.T.to_dense(),dA.T),('H',lambda:A.H.to_dense(),dA.conj().T),
       ('ptr',lambda:a.partial_trace_to_mpo(list(range(0,L,2))).to_dense() if not cyc else None, None),
       ]
    for name,f,ref in T:
        try:
            v=f()
            if v is None: continue
            if name=='ptr':
                keep=list(range(0,L,2)); rho=np.asarray(qu.ptr(qu.qarray(da),[2]*L,keep)) ; ref=rho
                # MPO from partial_trace has upper=ket? compare both conventions
                ok=np.allclose(v,ref) ; ok2=np.allclose(v,ref.T)
                res[('ptr-conv','direct' if ok else 'transposed' if ok2 else 'neither')]+=1; continue
            rec(name,np.allclose(v,ref,atol=1e-10),(L,cyc))
        except Exception as e: res[(name,'ERR '+type(e).__name__+' '+str(e)[:60])]+=1
# from_dense round trips with dims & sites
for trial in range(30):
    L=int(rng.integers(1,6)); dims=[int(x) for x in rng.integers(1,4,size=L)]
    psi=rng.normal(size=dims)+1j*rng.normal(size=dims)
    try:
        m=qtn.MatrixProductState.from_dense(psi.reshape(-1),dims=dims)
        rec('mps_from_dense',np.allclose(m.to_dense().reshape(dims),psi),dims)
    except Exception as e: res[('mps_from_dense','ERR '+type(e).__name__+' '+str(e)[:60])]+=1
    op=rng.normal(size=dims+dims)+0j
    try:
        D=int(np.prod(dims)); M=qtn.MatrixProductOperator.from_dense(op.reshape(D,D),dims=dims)
        rec('mpo_from_dense',np.allclose(M.to_dense(),op.reshape(D,D)),dims)
    except Exception as e: res[('mpo_from_dense','ERR '+type(e).__name__+' '+str(e)[:60])]+=1
    # sub-MPO on sites
    Ltot=L+2; sites=sorted(int(x) for x in rng.choice(Ltot,size=L,replace=False))
    try:
        M=qtn.MatrixProductOperator.from_dense(op.reshape(D,D),dims=dims,sites=sites,L=Ltot)
        full=M.fill_empty_sites('identity',phys_dim=2).to_dense() if hasattr(M,'fill_empty_sites') else None
        alld=[2]*Ltot
        for s,d in zip(sites,dims): alld[s]=d
        ref=np.asarray(qu.pkron(op.reshape(D,D),alld,sites))
        rec('submpo_fill',full.shape==ref.shape and np.allclose(full,ref),(dims,sites))
    except Exception as e: res[('submpo_fill','ERR '+type(e).__name__+' '+str(e)[:70])]+=1
for k,v in sorted(res.items(),key=str): print(k,v)
for e in ex: print(e)
