import numpy as np, quimb as qu, quimb.tensor as qtn, warnings
warnings.simplefilter('ignore')
psi=qtn.MPS_rand_state(5,4,dtype='complex128',seed=3)
d=psi.to_dense()
for dirn in 'XYZ':
    for i in [0,2,4]:
        m=psi.copy().magnetization(i,dirn)
        ref=qu.expec(qu.ikron(qu.spin_operator(dirn),[2]*5,i),d)
        print(dirn,i,np.round(m,6),np.round(ref,6), np.allclose(m,ref))
# local expectation canonical with nonsymmetric complex op, reversed where
rng=np.random.default_rng(0)
G=rng.normal(size=(4,4))+1j*rng.normal(size=(4,4))
for where in [(1,2),(2,1),(0,3),(3,0)]:
    v=psi.copy().local_expectation_canonical(G,where)
    ref=qu.expec(qu.pkron(G,[2]*5,where),d)
    v2=psi.local_expectation_exact(G,where)
    print(where, np.allclose(v,ref), np.allclose(v2,ref))
