import numpy as np, quimb as qu, quimb.tensor as qtn, warnings, collections, itertools, inspect
warnings.simplefilter('ignore')
from quimb.tensor.circuit import gates as GG
rng=np.random.default_rng(0)
N=4
def rand_gate(rng):
    lab=str(rng.choice(sorted(GG.ALL_GATES)))
    nq=GG.GATE_SIZE[lab]
    npar=len(inspect.signature(GG.PARAM_GATES[lab]).parameters) if lab in GG.PARAM_GATES else 0
    # number of params: try via trial
    qs=[int(q) for q in rng.choice(N,size=nq,replace=False)]
    return lab,nq,qs
# discover param counts
npar={}
for lab in GG.PARAM_GATES:
    for n in range(0,16):
        try:
            g=qtn.circuit.Gate(lab,params=[0.1]*n,qubits=list(range(GG.GATE_SIZE[lab]))); a=g.array; npar[lab]=n; break
        except Exception as e: pass
print(npar)
# unitarity
bad=[]
for lab in sorted(GG.ALL_GATES):
    if lab in GG.SPECIAL_GATES and lab not in GG.CONSTANT_GATES: 
        pass
    for t in range(5):
        p=list(rng.uniform(-7,7,size=npar.get(lab,0)))
        try:
            a=np.asarray(qtn.circuit.Gate(lab,params=p,qubits=list(range(GG.GATE_SIZE[lab]))).array).reshape(2**GG.GATE_SIZE[lab],-1)
            if not np.allclose(a.conj().T@a,np.eye(a.shape[0]),atol=1e-10): bad.append((lab,p))
        except Exception as e: bad.append((lab,'ERR',str(e)[:40]))
print('nonunitary',bad[:5])
def dense_ref(gates):
    psi=np.zeros(2**N,complex); psi[0]=1
    for lab,p,qs,ctrl in gates:
        g=qtn.circuit.Gate(lab,params=p,qubits=qs)
        a=np.asarray(g.array).reshape(2**len(qs),-1)
        if ctrl:
            nc=len(ctrl); full=np.eye(2**(nc+len(qs)),dtype=complex); full[-a.shape[0]:,-a.shape[0]:]=a
            U=qu.pkron(full,[2]*N,list(ctrl)+list(qs))
        else: U=qu.pkron(a,[2]*N,qs)
        psi=np.asarray(U)@psi
    return psi
res=collections.Counter(); ex=[]
classes={'Circuit':qtn.Circuit,'Dense':qtn.CircuitDense,'MPS':qtn.CircuitMPS,'PermMPS':qtn.CircuitPermMPS,'MPSLazy':qtn.CircuitMPSLazy}
for trial in range(25):
    gates=[]
    for _ in range(int(rng.integers(3,9))):
        lab=str(rng.choice(sorted(GG.ALL_GATES))); nq=GG.GATE_SIZE[lab]
        p=[float(x) for x in rng.uniform(-3,3,size=npar.get(lab,0))]
        qs=[int(q) for q in rng.choice(N,size=nq,replace=False)]
        ctrl=()
        if rng.random()<0.25 and nq<=2:
            rest=[q for q in range(N) if q not in qs]; nc=int(rng.integers(1,min(2,len(rest))+1)); ctrl=tuple(int(x) for x in rng.choice(rest,size=nc,replace=False))
        gates.append((lab,p,qs,ctrl))
    ref=dense_ref(gates)
    for cn,cls in classes.items():
        try:
            c=cls(N)
            for lab,p,qs,ctrl in gates:
                c.apply_gate(lab,*p,*qs,controls=ctrl or None)
            d=np.asarray(c.to_dense()).ravel()
            ok=np.allclose(d,ref,atol=1e-7)
            res[(cn,'ok' if ok else 'WRONG')]+=1
            if not ok and len(ex)<6: ex.append((cn,gates))
        except Exception as e:
            res[(cn,'ERR '+type(e).__name__+' '+str(e)[:50])]+=1
            if len(ex)<6 and 'swap_back' not in str(e): ex.append((cn,'ERR',str(e)[:80],gates))
for k,v in sorted(res.items(),key=str): print(k,v)
for e in ex: print(e)
