import numpy as np, quimb as qu, quimb.tensor as qtn, warnings, collections
warnings.simplefilter('ignore')
rng=np.random.default_rng(0)
res=collections.Counter(); ex=[]
def crand(*s): return rng.normal(size=s)+1j*rng.normal(size=s)
def rec(key,ok,info=None):
    res[(key,'ok' if ok else 'WRONG')]+=1
    if not ok and len(ex)<12: ex.append((key,info))
# operators: MPO, PEPO, generic operator
def opdense(X,sites):
    return X.to_dense([X.upper_ind(s) for s in sites],[X.lower_ind(s) for s in sites])
objs={'MPO':(qtn.MPO_rand(4,2,seed=1,dtype='complex128'),list(range(4))),
      'PEPO':(qtn.PEPO.rand(2,2,2,seed=2,dtype='complex128'),[(0,0),(0,1),(1,0),(1,1)])}
for name,(X,sites) in objs.items():
    n=len(sites); X0=opdense(X,sites)
    for where in [(sites[1],),(sites[0],sites[1]),(sites[1],sites[0]),(sites[0],sites[3]),(sites[3],sites[0])]:
        k=len(where); G=crand(2**k,2**k); idx=[sites.index(w) for w in where]; E=np.asarray(qu.pkron(G,[2]*n,idx))
        for which in [None,'upper','lower','sandwich']:
          for dagger,transpose in [(False,False),(True,False),(False,True)]:
            Ge=E.conj().T if dagger else (E.T if transpose else E)
            if which in (None,'sandwich'): ref=Ge@X0@Ge.conj().T
            elif which=='upper': ref=Ge@X0
            else: ref=X0@Ge.T
            for c in [False,True,'split','reduce-split','split-gate','auto-split-gate']:
                key=(name,which,c,'adj' if k==1 or abs(idx[0]-idx[-1])==1 else 'far',dagger,transpose)
                try:
                    kw={} if c in (False,True) else {'cutoff':0.0}
                    out=X.gate(G,where,which=which,contract=c,dagger=dagger,transpose=transpose,**kw)
                    rec(key[:3],np.allclose(opdense(out,sites),ref),(key,where))
                except Exception as e: res[(key[:3],'ERR '+type(e).__name__+' '+str(e)[:40])]+=1
# generic vector, mixed phys dims
edges=[(0,1),(1,2),(2,0),(2,3)]
psi=qtn.TN_from_edges_rand(edges,2,phys_dim=3,seed=3,dtype='complex128'); sites=sorted(psi.sites); n=len(sites)
d0=psi.to_dense([psi.site_ind(s) for s in sites])
for where in [(1,),(0,1),(1,0),(0,3),(3,1),(0,1,2)]:
    k=len(where); G=crand(3**k,3**k); E=np.asarray(qu.pkron(G,[3]*n,list(where)))
    for c in [False,True,'split','reduce-split','split-gate','swap-split-gate','auto-split-gate']:
        for tr in (False,True):
            try:
                kw={} if c in (False,True) else {'cutoff':0.0}
                out=psi.gate(G,where,contract=c,transpose=tr,**kw)
                rec(('gen3',c),np.allclose(out.to_dense([psi.site_ind(s) for s in sites]),(E.T if tr else E)@d0),(where,c,tr))
            except Exception as e: res[(('gen3',c),'ERR '+type(e).__name__+' '+str(e)[:40])]+=1
for k,v in sorted(res.items(),key=str): print(k,v)
for e in ex: print(e)
