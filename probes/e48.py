import numpy as np, quimb as qu, quimb.tensor as qtn, warnings
warnings.simplefilter('ignore')
psi=qtn.MPS_rand_state(4,3,seed=5,dtype='complex128'); d=psi.to_dense()
keep=[1,2]
rho=np.asarray(qu.ptr(d,[2]*4,keep))
M=psi.partial_trace_to_mpo(keep)
print(type(M).__name__, M.upper_ind_id, M.lower_ind_id)
Md=M.to_dense()
print('== rho',np.allclose(Md,rho),' == rho.T',np.allclose(Md,rho.T))
Y=np.kron(np.array(qu.pauli('Y')),np.eye(2))
print('Tr(rho Y)',np.trace(rho@Y),' via mpo dense',np.trace(Md@Y))
# library-consistent expectation via MPO trace with operator MPO
Ympo=qtn.MatrixProductOperator.from_dense(Y,dims=[2,2])
print('lib: (Ympo.apply(M)).trace()', Ympo.apply(M).trace())
# compare dense conventions for a ket->dop MPO : MPS.to_dense outer product
print(np.allclose(rho, rho.conj().T))
