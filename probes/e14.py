import numpy as np, quimb as qu, quimb.tensor as qtn, warnings, scipy.linalg as sla
warnings.simplefilter('ignore')
def herm(rng,n):
    a=rng.normal(size=(n,n))+1j*rng.normal(size=(n,n)); return (a+a.conj().T)/2
def flip(x): return x.reshape(2,2,2,2).transpose(1,0,3,2).reshape(4,4)
for L in (4,5):
  for order in (1,2):
    rng=np.random.default_rng(0)
    H2={(i,(i+1)%L):herm(rng,4) for i in range(L)}
    ham=qtn.LocalHam1D(L,H2=H2,cyclic=True)
    Hd=sum(qu.pkron(H2[k],[2]*L,k) for k in H2)
    Hwrong=sum(qu.pkron(H2[k] if k[0]<k[1] else flip(H2[k]),[2]*L,k) for k in H2)
    psi0=qtn.MPS_rand_state(L,3,cyclic=True,seed=1,dtype='complex128'); p0=psi0.to_dense()
    for dt in (0.02,0.01):
        tebd=qtn.TEBD(psi0,ham,dt=dt,progbar=False,split_opts=dict(cutoff=1e-13))
        tebd.update_to(0.04,order=order)
        pt=tebd.pt.to_dense()
        print(L,order,dt,'err vs H %.2e'%np.linalg.norm(pt-sla.expm(-1j*Hd*0.04)@p0),'err vs H(flipped boundary) %.2e'%np.linalg.norm(pt-sla.expm(-1j*Hwrong*0.04)@p0))
