import numpy as np, quimb as qu, quimb.tensor as qtn, traceback, warnings
warnings.simplefilter('ignore')
from quimb.tensor.circuit import gates as G
print('ONE', sorted(G.ONE_QUBIT_GATES) if hasattr(G,'ONE_QUBIT_GATES') else None)
print('ALL', sorted(G.ALL_GATES))
print('SPECIAL', sorted(G.SPECIAL_GATES), 'CONST', len(G.CONSTANT_GATES), 'PARAM', sorted(G.PARAM_GATES))
import quimb.tensor.circuit as C
print([n for n in dir(C) if n.startswith('Circuit')])
def run(cls, gates, N, **kw):
    c=cls(N, **kw)
    c.apply_gates(gates)
    return c
tests={
 'swap_far':[('H',0),('CNOT',0,1),('RX',0.3,2),('SWAP',0,3),('RY',0.4,3)],
 'swap_adj':[('H',0),('CNOT',0,1),('SWAP',1,2),('RY',0.4,2)],
 'swap_mid':[('H',1),('RX',0.7,0),('CNOT',1,2),('SWAP',0,2),('RZ',0.4,2),('CNOT',2,3)],
}
for name,gs in tests.items():
    ref=run(qtn.Circuit, gs, 4).to_dense()
    for cls in [qtn.CircuitMPS, qtn.CircuitPermMPS, qtn.CircuitDense, qtn.CircuitMPSLazy]:
        try:
            c=run(cls, gs, 4)
            d=c.to_dense()
            ok=np.allclose(d,ref,atol=1e-7)
            extra=''
            if cls in (qtn.CircuitMPS,qtn.CircuitPermMPS,qtn.CircuitMPSLazy):
                info=c.gate_opts['info']
                le=c.local_expectation(qu.pauli('Z'),1)
                rz=qu.expec(qu.ikron(qu.pauli('Z'),[2]*4,1),ref)
                extra=f"info={info.get('cur_orthog')} locexp_ok={np.allclose(le,rz,atol=1e-7)}"
            print(name, cls.__name__, ok, extra)
        except Exception as e:
            print(name, cls.__name__, 'ERR', type(e).__name__, str(e)[:150])
