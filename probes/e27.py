import numpy as np, quimb as qu, quimb.tensor as qtn, warnings, collections
warnings.simplefilter('ignore')
from quimb.tensor.tn1d.compress import tensor_network_1d_compress, _TN1D_COMPRESS_METHODS
def iso_profile(mps, site_tags):
    L=len(site_tags); prof=[]
    for i,st in enumerate(site_tags):
        t=mps[st]
        lb=[] if i==0 else list(t.bonds(mps[site_tags[i-1]])); rb=[] if i==L-1 else list(t.bonds(mps[site_tags[i+1]]))
        other=[ix for ix in t.inds if ix not in lb+rb]
        def defect(inn,out):
            if not out: return abs(t.norm()-1)
            x=t.to_dense(inn+other,out); return np.linalg.norm(x.conj().T@x-np.eye(x.shape[1]))
        l=defect(lb,rb)<1e-8; r=defect(rb,lb)<1e-8
        prof.append('<' if r and not l else '>' if l and not r else 'X' if l and r else 'o')
    return ''.join(prof)
L=5
psi=qtn.MPS_rand_state(L,3,seed=0,dtype='complex128'); A=qtn.MPO_rand(L,2,seed=1,dtype='complex128')
tn=A.apply(psi,contract=False) if hasattr(A,'apply') else None
tn=qtn.tensor_network_apply_op_vec(A,psi,contract=False)
ref=tn.to_dense([f'k{i}' for i in range(L)])
tags=[f'I{i}' for i in range(L)]
for method in _TN1D_COMPRESS_METHODS:
  for rev in (False,True):
    row=[method,rev]
    try:
        out=tensor_network_1d_compress(tn,max_bond=None,cutoff=0.0,method=method,sweep_reverse=rev)
        d=out.to_dense([f'k{i}' for i in range(L)])
        row.append('exact' if np.allclose(d,ref,atol=1e-7) else 'INEXACT %.1e'%np.linalg.norm(d-ref))
        row.append(iso_profile(out,tags)); row.append(out.max_bond())
    except Exception as e: row.append('ERR '+type(e).__name__+' '+str(e)[:60])
    try:
        out=tensor_network_1d_compress(tn,max_bond=3,cutoff=0.0,method=method,sweep_reverse=rev)
        d=out.to_dense([f'k{i}' for i in range(L)])
        row.append('mb3:%d err %.2e'%(out.max_bond(),np.linalg.norm(d-ref)/np.linalg.norm(ref))); row.append(iso_profile(out,tags))
    except Exception as e: row.append('ERR '+type(e).__name__+' '+str(e)[:60])
    print(row)
