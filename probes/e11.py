import numpy as np, quimb as qu, quimb.tensor as qtn, warnings
warnings.simplefilter('ignore')
L=6
b=qtn.SpinHam1D(S=1/2)
b += 1.0, 'X','X'
b += 1.0, 'Y','Y'
b += 0.7, 'Z','Z'
b += 0.5, 'X','Y'   # DM-like: complex in Z basis
b += -0.5, 'Y','X'
b += 0.3, 'Y'
H=b.build_mpo(L)
Hd=H.to_dense()
print('hermitian', np.allclose(Hd,Hd.conj().T), 'complex', np.abs(Hd.imag).max())
el,ev=np.linalg.eigh(Hd)
for bsz in (1,2):
    dm=qtn.DMRG(H,bond_dims=[8,16,32],cutoffs=1e-12,bsz=bsz)
    dm.solve(tol=1e-9,max_sweeps=12)
    psi=dm.state
    pd=psi.to_dense()
    e_dense=(pd.conj().T@Hd@pd).item().real/ (pd.conj().T@pd).item().real
    e_conj=(pd.T@Hd@pd.conj()).item().real
    e_lib=(psi.H @ H.apply(psi))
    e_expec=qtn.expec_TN_1D(psi.H, H, psi)
    print('bsz',bsz,'E_dmrg',dm.energy,'E0',el[0],'<psi|H|psi>',e_dense,'<psi*|H|psi*>',e_conj,'lib apply',e_lib, 'expec_TN_1D', e_expec, 'overlap gs', abs(ev[:,0].conj()@pd.ravel()), 'overlap conj', abs(ev[:,0]@pd.ravel()))
