import sys
sys.path.insert(0,'/tmp/exp/deps')
import atheris
with atheris.instrument_imports(include=['quimb.utils']):
    import quimb.utils as qutils
import numpy as np
from hypothesis import given, strategies as st, settings
@settings(database=None, deadline=None)
@given(st.lists(st.integers(0,5),max_size=10))
def test(xs):
    o=qutils.oset(xs)
    assert list(o)==list(dict.fromkeys(xs))
atheris.Setup(sys.argv, test.hypothesis.fuzz_one_input)
atheris.Fuzz()
