import numpy as np, quimb as qu, warnings, collections, scipy.sparse as sp, scipy.sparse.linalg as spla
warnings.simplefilter('ignore')
rng=np.random.default_rng(0)
res=collections.Counter(); ex=[]
def select_ref(el,k,which,sigma):
    if which=='SA': idx=np.argsort(el)[:k]
    elif which=='LA': idx=np.argsort(el)[-k:]
    elif which=='LM': idx=np.argsort(-abs(el))[:k]
    elif which=='SM': idx=np.argsort(abs(el))[:k]
    elif which=='TR': idx=np.argsort(abs(el-sigma))[:k]
    return np.sort(el[idx])
for d in (6,20,60):
  for trial in range(3):
    a=rng.normal(size=(d,d))+1j*rng.normal(size=(d,d)); H=(a+a.conj().T)/2
    if trial==2: H=np.kron(np.eye(2),H[:d//2,:d//2]); 
    el=np.linalg.eigvalsh(H)
    reps={'dense':qu.qarray(H),'sparse':sp.csr_matrix(H),'linop':spla.aslinearoperator(H)}
    for rk,A in reps.items():
      for backend in [None,'numpy','scipy','lobpcg']:
        for which,sigma in [('SA',None),('LA',None),('LM',None),('SM',None),('TR',0.3),(None,0.3),(None,None)]:
          for k in (1,3):
            key=(rk,backend,which)
            try:
                lk,vk=qu.eigh(A,k=k,which=which,sigma=sigma,backend=backend)
                w=which or ('SA' if sigma is None else 'TR')
                r=select_ref(el,k,w,sigma)
                ok=np.allclose(np.sort(lk),r,atol=1e-6) and np.allclose(lk,np.sort(lk)) and np.allclose(H@vk,vk*lk,atol=1e-5) and np.allclose(vk.conj().T@vk,np.eye(k),atol=1e-6)
                res[key+('ok' if ok else 'WRONG',)]+=1
                if not ok and len(ex)<10: ex.append((d,trial,rk,backend,which,sigma,k,lk,r))
            except Exception as e:
                res[key+('ERR '+type(e).__name__+' '+str(e)[:40],)]+=1
for k,v in sorted(res.items(),key=str): print(k,v)
for e in ex: print(e)
