import numpy as np, quimb as qu, quimb.tensor as qtn
rng=np.random.default_rng(0)
def crand(*s): return rng.normal(size=s)+1j*rng.normal(size=s)
a=qtn.Tensor(crand(2,3),inds=('a','b'),tags='A')
b=qtn.Tensor(crand(3,2),inds=('b','c'),tags='B')
tn=a&b
M=a.data@b.data
lo=tn.aslinearoperator(['a'],['c'])
v=crand(2)
print(np.allclose(lo@v,M@v), np.allclose(lo.H@v,M.conj().T@v), np.allclose(lo.T@v,M.T@v), np.allclose(lo.conj()@v, M.conj()@v))
print('astype on conj', np.allclose(lo.conj().astype('complex64')@v, M.conj()@v, atol=1e-5), np.allclose(lo.conj().astype('complex64')@v, M@v,atol=1e-5))
print('H.to_dense', np.allclose(lo.H.to_dense(), M.conj().T))
print('trace', lo.trace(), np.trace(M), 'conj trace', lo.conj().trace(), np.trace(lo.H))
tn.exponent=1.0
lo=tn.aslinearoperator(['a'],['c'])
print('exponent matvec', np.allclose(lo@v,10*M@v), np.allclose(lo@v,M@v))
print('exponent to_dense', np.allclose(tn.to_dense(['a'],['c']),10*M))
