import numpy as np, quimb as qu, quimb.tensor as qtn, warnings, collections, traceback, inspect
warnings.simplefilter('ignore')
import quimb.tensor.belief_propagation as bp
for f in [bp.contract_d1bp,bp.contract_d2bp,bp.contract_hd1bp,bp.contract_hv1bp,bp.contract_l1bp,bp.contract_l2bp]:
    print(f.__name__, inspect.signature(f))
def rand_tree_tn(n, D, rng, dtype='float64', positive=False, phys=0, site_tags=True):
    # random tree via random parent
    ts=[]; inds={i:[] for i in range(n)}
    for i in range(1,n):
        p=int(rng.integers(0,i)); ix=f'b{p}_{i}'; inds[p].append(ix); inds[i].append(ix)
    for i in range(n):
        ixs=list(inds[i]); shape=[D]*len(ixs)
        if phys: ixs.append(f'k{i}'); shape.append(phys)
        x=rng.uniform(0.1,1.0,size=shape) if positive else rng.normal(size=shape)
        if 'complex' in dtype: x=x+1j*(rng.uniform(0.1,1,size=shape) if positive else rng.normal(size=shape))
        ts.append(qtn.Tensor(x.astype(dtype),inds=ixs,tags=[f'I{i}']))
    return qtn.TensorNetwork(ts)
rng=np.random.default_rng(0)
res=collections.Counter()
for trial in range(30):
    n=int(rng.integers(2,8)); D=int(rng.integers(1,4))
    for positive in (True,False):
      for dtype in ('float64','complex128'):
        tn=rand_tree_tn(n,D,rng,dtype,positive)
        ex=tn.contract(all)
        for name,f,kw in [('d1',bp.contract_d1bp,{}),('hd1',bp.contract_hd1bp,{}),('hv1',bp.contract_hv1bp,{}),('l1',bp.contract_l1bp,{})]:
            try:
                v=f(tn,max_iterations=200,tol=1e-12,progbar=False,**kw)
                ok=np.allclose(v,ex,rtol=1e-6)
                res[(name,positive,dtype,'ok' if ok else 'WRONG')]+=1
                if not ok and res[(name,positive,dtype,'WRONG')]<2: print('WRONG',name,n,D,positive,dtype,v,ex)
            except Exception as e:
                res[(name,positive,dtype,'ERR '+type(e).__name__+str(e)[:50])]+=1
        psi=rand_tree_tn(n,D,rng,dtype,positive,phys=2)
        nex=psi.norm()**2
        for name,f in [('d2',bp.contract_d2bp),('l2',bp.contract_l2bp)]:
            try:
                v=f(psi,max_iterations=200,tol=1e-12,progbar=False)
                ok=np.allclose(v,nex,rtol=1e-6)
                res[(name,positive,dtype,'ok' if ok else 'WRONG')]+=1
                if not ok and res[(name,positive,dtype,'WRONG')]<2: print('WRONG',name,n,D,positive,dtype,v,nex)
            except Exception as e:
                res[(name,positive,dtype,'ERR '+type(e).__name__+str(e)[:50])]+=1
for k,v in sorted(res.items(),key=str): print(k,v)
