import numpy as np, quimb as qu, quimb.tensor as qtn, warnings, traceback
warnings.simplefilter('ignore')
# PermMPS with nonlocal / auto-mps and controlled gates after a permutation
N=4
for gc in ['swap+split','auto-mps','nonlocal']:
    try:
        ref=qtn.Circuit(N); c=qtn.CircuitPermMPS(N,gate_contract=gc)
        seq=[('H',0),('H',3),('CNOT',0,3),('RX',0.4,1)]
        for g in seq: ref.apply_gate(*g); c.apply_gate(*g)
        print(gc,'qubits',c.qubits,'after 2q far gate ok?',np.allclose(c.to_dense(),ref.to_dense(),atol=1e-7))
        ref.apply_gate('X',2,controls=[3]); c.apply_gate('X',2,controls=[3])
        print(gc,'controlled ok?',np.allclose(c.to_dense(),ref.to_dense(),atol=1e-7))
        ref.apply_gate('CCX',0,1,2); c.apply_gate('CCX',0,1,2)
        print(gc,'ccx ok?',np.allclose(c.to_dense(),ref.to_dense(),atol=1e-7))
    except Exception as e:
        print(gc,'ERR',type(e).__name__,str(e)[:90])
