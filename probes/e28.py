import numpy as np, quimb as qu, quimb.tensor as qtn, warnings, collections, time
warnings.simplefilter('ignore')
rng=np.random.default_rng(0)
def crand(n): return rng.normal(size=(n,n))+1j*rng.normal(size=(n,n))
peps=qtn.PEPS.rand(2,3,2,seed=1,dtype='complex128')
sites=list(peps.gen_site_coos()); n=len(sites)
d=peps.to_dense([peps.site_ind(s) for s in sites]).reshape(-1)
nrm=np.vdot(d,d).real
def ref(G,where):
    idx=[sites.index(w) for w in where]
    return np.vdot(d, qu.pkron(G,[2]*n,idx)@d)/nrm
G2=crand(4); G1=crand(2)
tests=[((0,0),(0,1)),((0,1),(0,0)),((0,0),(1,0)),((1,2),(0,2)),((0,0),(1,1)),((1,1),(0,0))]
for where in tests:
    r=ref(G2,where); row=[where]
    for name,fn in [('exact',lambda: peps.local_expectation_exact(G2,where)),
                    ('cluster-full',lambda: peps.local_expectation_cluster(G2,where,max_distance=5)),
                    ('generic-compressed',lambda: peps.local_expectation(G2,where,max_bond=64,optimize='greedy-compressed') if False else peps.local_expectation(G2,where,max_bond=64,optimize='auto-hq')),
                    ('2d-boundary',lambda: peps.compute_local_expectation({where:G2},max_bond=64,normalized=True)),
                    ('2d-boundary-unnorm',lambda: peps.compute_local_expectation({where:G2},max_bond=64,normalized=False)/nrm),
                    ]:
        try:
            t0=time.time(); v=fn(); row.append((name, bool(np.allclose(v,r,rtol=1e-6)), round(time.time()-t0,2)))
        except Exception as e: row.append((name,'ERR '+type(e).__name__+' '+str(e)[:70]))
    print(row)
r1=ref(G1,[(1,1)])
print('1site', np.allclose(peps.local_expectation_exact(G1,[(1,1)]),r1), np.allclose(peps.compute_local_expectation({(1,1):G1},max_bond=64),r1))
