import numpy as np, sys
from quimb.tensor.decomp import array_split
x=np.random.default_rng(0).normal(size=(6,5))
kw=dict(method='svd',cutoff=0.3,cutoff_mode='rsum2',max_bond=3,absorb=None)
if sys.argv[1]=='A':
    print('fresh renorm=True ->', np.round(array_split(x,renorm=True,**kw)[1],4))
else:
    print('renorm=1 first   ->', np.round(array_split(x,renorm=1,**kw)[1],4))
    print('then renorm=True ->', np.round(array_split(x,renorm=True,**kw)[1],4))
    print('renorm=2         ->', np.round(array_split(x,renorm=2,**kw)[1],4))
