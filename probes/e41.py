import numpy as np, quimb as qu, quimb.tensor as qtn, warnings, collections, inspect
warnings.simplefilter('ignore')
res=collections.Counter(); ex=[]
def rec(key,ok,info=None):
    res[key+('ok' if ok else 'WRONG',)]+=1
    if not ok and len(ex)<10: ex.append((key,info))
def close(a,b): return np.allclose(a,b,rtol=1e-6,atol=1e-10*abs(b))
# 2D environments
for (Lx,Ly,cyc) in [(3,3,False),(3,4,False),(4,3,False)]:
    tn=qtn.TN2D_rand(Lx,Ly,2,seed=3,dtype='complex128'); exv=tn.contract(all)
    for fn,kw in [('compute_xmin_environments',{}),('compute_xmax_environments',{}),('compute_ymin_environments',{}),('compute_ymax_environments',{})]:
        try:
            envs=getattr(tn,fn)(max_bond=64,cutoff=0.0,**kw)
            # each env key: which, i  -> combine with rest
            for k,env in envs.items():
                pass
            res[(fn,'ran',str(type(envs)),str(list(envs)[:3]))]+=1
        except Exception as e: res[(fn,'ERR '+type(e).__name__+str(e)[:60])]+=1
    try:
        envs=tn.compute_x_environments(max_bond=64,cutoff=0.0)
        for i in range(Lx):
            tot=(envs['xmin',i]|tn.select(tn.x_tag(i))|envs['xmax',i]).contract(all)
            rec(('x_env',),close(tot,exv),(Lx,Ly,i))
        envs=tn.compute_y_environments(max_bond=64,cutoff=0.0)
        for j in range(Ly):
            tot=(envs['ymin',j]|tn.select(tn.y_tag(j))|envs['ymax',j]).contract(all)
            rec(('y_env',),close(tot,exv),(Lx,Ly,j))
    except Exception as e: res[('xy_env','ERR '+type(e).__name__+str(e)[:80])]+=1
    for xb,yb in [(1,1),(1,2),(2,1),(2,2)]:
        try:
            penvs=tn.compute_plaquette_environments(x_bsz=xb,y_bsz=yb,max_bond=64,cutoff=0.0)
            for ((i0,j0),(dx,dy)),env in penvs.items():
                sites=[tn.site_tag(i0+a,j0+b) for a in range(dx) for b in range(dy)]
                tot=(env|tn.select_any(sites)).contract(all)
                rec(('plaq_env',xb,yb),close(tot,exv),(Lx,Ly,i0,j0))
        except Exception as e: res[('plaq_env',xb,yb,'ERR '+type(e).__name__+str(e)[:80])]+=1
    for name in ['contract_hotrg','contract_ctmrg']:
        try:
            v=getattr(tn,name)(max_bond=256,cutoff=0.0)
            rec((name,),close(v,exv),(Lx,Ly,v,exv))
        except Exception as e: res[(name,'ERR '+type(e).__name__+str(e)[:80])]+=1
# contract_compressed / contract_around on arbitrary graph
tn=qtn.TN_from_edges_rand([(0,1),(1,2),(2,3),(3,0),(0,2),(3,4),(4,5),(5,2)],3,seed=1,dtype='complex128'); exv=tn.contract(all)
for opt in ['greedy','auto','auto-hq','greedy-compressed','greedy-span']:
    for kw in [{},{'canonize_distance':2},{'compress_mode':'basic'},{'compress_late':False},{'equalize_norms':1.0}]:
        try:
            v=tn.contract_compressed(opt,max_bond=1024,cutoff=0.0,**kw)
            rec(('contract_compressed',opt),close(v,exv),(opt,kw,v,exv))
        except Exception as e: res[('contract_compressed',opt,'ERR '+type(e).__name__+str(e)[:60])]+=1
for kw in [{},{'canonize':False},{'gauge_boundary_only':False}]:
    try:
        v=tn.contract_around('I0',max_bond=1024,cutoff=0.0,**kw)
        v=v.contract(all) if isinstance(v,qtn.TensorNetwork) else v
        rec(('contract_around',),close(v,exv),(kw,))
    except Exception as e: res[('contract_around','ERR '+type(e).__name__+str(e)[:60])]+=1
# 3D
tn=qtn.TN3D_rand(2,2,3,2,seed=2,dtype='float64'); exv=tn.contract(all)
for mode in ['peps','projector3d','l2bp3d','dm','zipup','local-early'] if False else ['peps','projector3d','l2bp3d']:
  for seq in [None,['zmin'],['zmax','zmin'],['xmin','ymin','zmin']]:
    try:
        v=tn.contract_boundary(max_bond=256,cutoff=0.0,mode=mode,sequence=seq)
        rec(('3d-boundary',mode),close(v,exv),(mode,seq,v,exv))
    except Exception as e: res[('3d-boundary',mode,'ERR '+type(e).__name__+str(e)[:60])]+=1
for name in ['contract_hotrg','contract_ctmrg']:
    try:
        v=getattr(tn,name)(max_bond=256,cutoff=0.0); rec(('3d-'+name,),close(v,exv),(v,exv))
    except Exception as e: res[('3d-'+name,'ERR '+type(e).__name__+str(e)[:60])]+=1
for k,v in sorted(res.items(),key=str): print(k,v)
for e in ex: print(e)
