import numpy as np, quimb as qu, quimb.tensor as qtn, warnings, collections, traceback
warnings.simplefilter('ignore')
res=collections.Counter(); ex=[]
def iso_prof(psi):
    L=psi.L; out=[]
    for i in range(L):
        t=psi[i]
        lb=[] if i==0 else list(t.bonds(psi[i-1])); rb=[] if i==L-1 else list(t.bonds(psi[i+1]))
        other=[ix for ix in t.inds if ix not in lb+rb]
        def defect(inn,outi):
            if not outi: return abs(t.norm()-1)
            x=t.to_dense(inn+other,outi); return np.linalg.norm(x.conj().T@x-np.eye(x.shape[1]))
        out.append((defect(lb,rb)<1e-8, defect(rb,lb)<1e-8))
    return out
def record_sound(psi,info):
    co=info.get('cur_orthog',None)
    if co is None or co=='calc': return True,None
    lo,hi=co
    if not (0<=lo<=hi<psi.L): return False,('range',co,psi.L)
    prof=iso_prof(psi)
    for i in range(psi.L):
        if i<lo and not prof[i][0]: return False,('left',i,co)
        if i>hi and not prof[i][1]: return False,('right',i,co)
    return True,None
rng=np.random.default_rng(3)
def crand(n): return rng.normal(size=(n,n))+1j*rng.normal(size=(n,n))
ops=['canon','gate1','gate_split','auto_swap','auto_swap_noback','nonlocal','submpo','swap','swap_abs','swap_to','compress_site','measure','schmidt','locexp','mag','sample']
for trial in range(300):
    L=int(rng.integers(2,7)); psi=qtn.MPS_rand_state(L,int(rng.integers(1,4)),seed=trial,dtype='complex128'); info={}
    hist=[]
    for step in range(int(rng.integers(2,9))):
        op=str(rng.choice(ops)); L=psi.L
        try:
            d0=psi.to_dense(); nrm=np.vdot(d0,d0).real
            if op=='canon':
                w=int(rng.integers(L)); w2=int(rng.integers(L)); where=w if rng.random()<0.5 else (min(w,w2),max(w,w2)); psi.canonicalize_(where,info=info); hist.append((op,where))
            elif op=='gate1':
                i=int(rng.integers(L)); G=crand(2); psi.gate_(G,i,contract=True); hist.append((op,i))
                ref=np.asarray(qu.ikron(G,[2]*L,i))@d0; ok=np.allclose(psi.to_dense(),ref)
                if not ok: res[(op,'VALUE-WRONG')]+=1
            elif op=='gate_split' and L>=2:
                i=int(rng.integers(L-1)); G=crand(4); 
                # gate_split does not take info: invalidates record -> user must drop it
                psi.gate_split_(G,(i,i+1),cutoff=0.0); info.pop('cur_orthog',None); hist.append((op,i))
            elif op in('auto_swap','auto_swap_noback') and L>=2:
                i,j=[int(x) for x in rng.choice(L,size=2,replace=False)]; G=crand(4)
                if op=='auto_swap':
                    psi.gate_with_auto_swap_(G,(i,j),info=info,cutoff=0.0); ref=np.asarray(qu.pkron(G,[2]*L,(i,j)))@d0
                    if not np.allclose(psi.to_dense(),ref): res[(op,'VALUE-WRONG')]+=1; ex.append((op,hist[:],i,j))
                else:
                    psi.gate_with_auto_swap_(G,(i,j),info=info,swap_back=False,cutoff=0.0)
                hist.append((op,i,j))
            elif op=='nonlocal' and L>=2:
                k=int(rng.integers(2,min(L,3)+1)); where=[int(x) for x in rng.choice(L,size=k,replace=False)]; G=crand(2**k)
                psi.gate_nonlocal_(G,where,info=info,cutoff=0.0,max_bond=None,method=str(rng.choice(['direct','dm','zipup','fit'])) if False else 'direct'); ref=np.asarray(qu.pkron(G,[2]*L,where))@d0
                if not np.allclose(psi.to_dense(),ref): res[(op,'VALUE-WRONG')]+=1; ex.append((op,hist[:],where))
                hist.append((op,where))
            elif op=='submpo' and L>=2:
                k=int(rng.integers(1,min(L,3)+1)); where=sorted(int(x) for x in rng.choice(L,size=k,replace=False)); G=crand(2**k)
                mpo=qtn.MatrixProductOperator.from_dense(G,dims=[2]*k,sites=where,L=L); rev=bool(rng.random()<0.5)
                psi.gate_with_submpo_(mpo,where=where,info=info,cutoff=0.0,max_bond=None,sweep_reverse=rev); ref=np.asarray(qu.pkron(G,[2]*L,where))@d0
                if not np.allclose(psi.to_dense(),ref): res[(op,'VALUE-WRONG')]+=1; ex.append((op,hist[:],where))
                hist.append((op,where,rev))
            elif op in('swap','swap_abs') and L>=2:
                i,j=[int(x) for x in rng.choice(L,size=2,replace=False)]
                kw={'cutoff':0.0}
                if op=='swap_abs': kw['absorb']=str(rng.choice(['left','right','both']))
                psi.swap_sites_with_compress_(i,j,info=info,**kw); hist.append((op,i,j,kw.get('absorb')))
                perm=list(range(L)); perm[i],perm[j]=perm[j],perm[i]
                ref=d0.reshape([2]*L).transpose(perm).reshape(-1,1)
                if not np.allclose(psi.to_dense(),ref): res[(op,'VALUE-WRONG')]+=1; ex.append((op,hist[:]))
            elif op=='swap_to' and L>=2:
                i,f=[int(x) for x in rng.choice(L,size=2,replace=False)]; psi.swap_site_to_(i,f,info=info,cutoff=0.0); hist.append((op,i,f))
            elif op=='compress_site':
                i=int(rng.integers(L)); psi.compress_site(i,info=info,cutoff=0.0); hist.append((op,i))
                if not np.allclose(psi.to_dense(),d0): res[(op,'VALUE-WRONG')]+=1
            elif op=='measure' and L>=2:
                i=int(rng.integers(L)); rem=bool(rng.random()<0.4); o,_=psi.measure_(i,remove=rem,info=info,seed=int(rng.integers(1e6))); hist.append((op,i,rem,o))
            elif op=='schmidt' and L>=2:
                i=int(rng.integers(1,L)); s=psi.schmidt_values(i,info=info); hist.append((op,i))
                sv=np.linalg.svd(d0.reshape(2**i,-1),compute_uv=False)**2
                k=min(len(s),len(sv)); ok=np.allclose(np.sort(s)[::-1][:k],sv[:k],atol=1e-9) and abs(s.sum()-sv.sum())<1e-9
                if not ok: res[(op,'VALUE-WRONG')]+=1; ex.append((op,hist[:],np.sort(s)[::-1][:4],sv[:4]))
            elif op=='locexp' and L>=2:
                i,j=[int(x) for x in rng.choice(L,size=2,replace=False)]; G=crand(4); v=psi.local_expectation_canonical(G,(i,j),info=info); hist.append((op,i,j))
                ref=np.vdot(d0,np.asarray(qu.pkron(G,[2]*L,(i,j)))@d0)/nrm
                if not np.allclose(v,ref): res[(op,'VALUE-WRONG')]+=1; ex.append((op,hist[:],v,ref))
            elif op=='mag':
                i=int(rng.integers(L)); dirn=str(rng.choice(['X','Z'])); v=psi.magnetization(i,dirn,info=info); hist.append((op,i,dirn))
                ref=np.vdot(d0,np.asarray(qu.ikron(qu.spin_operator(dirn),[2]*L,i))@d0)
                if not np.allclose(v,ref): res[(op,'VALUE-WRONG')]+=1; ex.append((op,hist[:],v,ref))
            elif op=='sample':
                cfg,om=psi.sample_configuration(seed=int(rng.integers(1e6)),info=dict(info)); hist.append((op,))
                amp=d0.reshape([2]*L)[tuple(cfg)]; 
                if not np.allclose(om,abs(amp)**2/nrm): res[(op,'VALUE-WRONG')]+=1; ex.append((op,hist[:],om,abs(amp)**2/nrm))
            else: continue
            res[(op,'ran')]+=1
            ok,why=record_sound(psi,info)
            if not ok:
                res[(op,'RECORD-UNSOUND')]+=1
                if len(ex)<25: ex.append(('unsound',trial,hist[:],why))
                info.pop('cur_orthog',None)  # reset to continue
        except Exception as e:
            res[(op,'ERR '+type(e).__name__+' '+str(e)[:50])]+=1
            if len(ex)<25: ex.append(('err',op,hist[:],dict(info),psi.L,str(e)[:60]))
            break
for k,v in sorted(res.items(),key=str): print(k,v)
for e in ex[:25]: print(e)
