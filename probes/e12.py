import numpy as np, quimb as qu, quimb.tensor as qtn, warnings, scipy.linalg as sla
warnings.simplefilter('ignore')
def run(L,cyclic,order,imag,dt,T, seed=0):
    rng=np.random.default_rng(seed)
    H2={}
    nb=L if cyclic else L-1
    for i in range(nb):
        a=rng.normal(size=(4,4))+1j*rng.normal(size=(4,4)); H2[(i,(i+1)%L)]=(a+a.conj().T)/2
    H1={i:(lambda a:(a+a.conj().T)/2)(rng.normal(size=(2,2))+1j*rng.normal(size=(2,2))) for i in range(L)}
    ham=qtn.LocalHam1D(L,H2=H2,H1=H1,cyclic=cyclic)
    # dense H
    Hd=sum(qu.pkron(H2[k],[2]*L,k) for k in H2)+sum(qu.ikron(H1[i],[2]*L,i) for i in H1)
    # check terms sum
    Hs=sum(qu.pkron(np.asarray(v),[2]*L,k) for k,v in ham.terms.items())
    psi0=qtn.MPS_rand_state(L,3,cyclic=cyclic,seed=seed+1,dtype='complex128')
    p0=psi0.to_dense()
    tebd=qtn.TEBD(psi0,ham,dt=dt,imag=imag,progbar=False,split_opts=dict(cutoff=1e-13))
    tebd.update_to(T,order=order)
    pt=tebd.pt.to_dense()
    if imag:
        ex=sla.expm(-Hd*T)@p0; ex/=np.linalg.norm(ex)
    else:
        ex=sla.expm(-1j*Hd*T)@p0
    return np.allclose(Hs,Hd), tebd.t, np.linalg.norm(pt), np.linalg.norm(pt/np.linalg.norm(pt)-ex/np.linalg.norm(ex)) if imag else np.linalg.norm(pt-ex)
for L,cyc in [(4,True),(5,True)]:
    for order in (1,2):
        for imag in (False,):
            errs=[]
            for dt in (0.02,0.01):
                ok,t,nrm,err=run(L,cyc,order,imag,dt,0.04)
                errs.append(err)
            print(L,cyc,order,imag,'termsum',ok,'t',t,'norm',round(nrm,6),'errs',["%.2e"%e for e in errs],'rate',round(np.log2(errs[0]/errs[1]),2))
