import numpy as np, quimb as qu, warnings, itertools, collections, math
warnings.simplefilter('ignore')
from quimb.operator.hilbertspace import HilbertSpace
from quimb.operator.builder import SparseOperatorBuilder, get_mat
res=collections.Counter(); ex=[]
def check_space(hs, expected_size, pred, tag):
    try:
        sz=hs.size
        if sz!=expected_size: res[(tag,'SIZE-WRONG')]+=1; ex.append((tag,'size',sz,expected_size)); return
        seen=set()
        for r in range(sz):
            fc=tuple(int(x) for x in hs.rank_to_flatconfig(r))
            if not pred(fc): res[(tag,'CONFIG-NOT-IN-SECTOR')]+=1; ex.append((tag,r,fc)); return
            if fc in seen: res[(tag,'DUP')]+=1; return
            seen.add(fc)
            if hs.flatconfig_to_rank(np.array(fc,dtype=np.uint8))!=r: res[(tag,'NOT-INVERSE')]+=1; ex.append((tag,r,fc)); return
        res[(tag,'ok')]+=1
    except Exception as e:
        res[(tag,'ERR '+type(e).__name__+' '+str(e)[:50])]+=1
for n in range(1,9):
    check_space(HilbertSpace(n),2**n,lambda fc:True,'nosym')
    for sec in ('even','odd'):
        check_space(HilbertSpace(n,sector=sec,symmetry='Z2'),2**(n-1),lambda fc,sec=sec:sum(fc)%2==(0 if sec=='even' else 1),'Z2')
    for k in range(n+1):
        check_space(HilbertSpace(n,sector=k,symmetry='U1'),math.comb(n,k),lambda fc,k=k:sum(fc)==k,'U1')
for na in range(1,5):
  for nb in range(1,5):
    for ka in range(na+1):
      for kb in range(nb+1):
        check_space(HilbertSpace(na+nb,sector=((na,ka),(nb,kb)),symmetry='U1U1'),math.comb(na,ka)*math.comb(nb,kb),lambda fc,na=na,ka=ka,kb=kb:sum(fc[:na])==ka and sum(fc[na:])==kb,'U1U1-explicit')
# species interleaved
for n in range(1,4):
    sites=[(s,i) for i in range(n) for s in 'ab']  # interleaved order
    for order in [None,'blocked','interleaved',True]:
      for ka in range(n+1):
        for kb in range(n+1):
            try:
                hs=HilbertSpace(sites,order=order,species=lambda s:s[0],sector={'a':ka,'b':kb},symmetry='U1U1')
                ss=list(hs.sites)
                ia=[i for i,s in enumerate(ss) if s[0]=='a']; ib=[i for i,s in enumerate(ss) if s[0]=='b']
                check_space(hs,math.comb(n,ka)*math.comb(n,kb),lambda fc,ia=ia,ib=ib,ka=ka,kb=kb:sum(fc[i] for i in ia)==ka and sum(fc[i] for i in ib)==kb,'U1U1-species-'+str(order))
            except Exception as e:
                res[('U1U1-species-'+str(order),'ERR '+type(e).__name__+' '+str(e)[:50])]+=1
# mixed dims no symmetry
for dims in itertools.product([1,2,3],repeat=3):
    try:
        hs=HilbertSpace(3,dims=list(dims))
        sz=hs.size; ok=sz==int(np.prod(dims))
        seen=set()
        for r in range(sz):
            fc=tuple(int(x) for x in hs.rank_to_flatconfig(r)); seen.add(fc)
            ok&= all(0<=c<d for c,d in zip(fc,dims)) and hs.flatconfig_to_rank(np.array(fc,dtype=np.uint8))==r
        res[('mixed-dims','ok' if ok and len(seen)==sz else 'WRONG')]+=1
    except Exception as e: res[('mixed-dims','ERR '+type(e).__name__+' '+str(e)[:50])]+=1
for k,v in sorted(res.items()): print(k,v)
print(ex[:8])
# sector matrix vs projected full matrix
rng=np.random.default_rng(0)
n=5
b=SparseOperatorBuilder(hilbert_space=HilbertSpace(n))
for i in range(n-1):
    b.add_term(rng.normal(),('+',i),('-',i+1)); b.add_term(rng.normal(),('-',i),('+',i+1)); b.add_term(rng.normal(),('n',i),('n',i+1)); b.add_term(rng.normal(),('z',i))
full=b.build_dense()
for k in range(n+1):
    hs=HilbertSpace(n,sector=k,symmetry='U1')
    idx=[int(sum(int(c)*2**(n-1-j) for j,c in enumerate(hs.rank_to_flatconfig(r)))) for r in range(hs.size)]
    sub=b.build_dense(sector=k,symmetry='U1')
    print('U1 sector',k,np.allclose(sub,full[np.ix_(idx,idx)]))
for sec in ('even','odd'):
    hs=HilbertSpace(n,sector=sec,symmetry='Z2')
    idx=[int(sum(int(c)*2**(n-1-j) for j,c in enumerate(hs.rank_to_flatconfig(r)))) for r in range(hs.size)]
    print('Z2',sec,np.allclose(b.build_dense(sector=sec,symmetry='Z2'),full[np.ix_(idx,idx)]))
