import numpy as np, quimb as qu, quimb.tensor as qtn, traceback
rng=np.random.default_rng(0)
A=qtn.Tensor(rng.normal(size=(2,3)),inds=('a','x'),tags='A')
B=qtn.Tensor(rng.normal(size=(3,2)),inds=('x','b'),tags='B')
tn=A&B
G=np.array(qu.CNOT()).real
psi=tn.to_dense(['a','b'])
ref=(G@psi).reshape(2,2)
for c in ['split-gate','swap-split-gate','auto-split-gate']:
    try:
        out=tn.gate_inds(G,['a','b'],contract=c)
        d=out.to_dense(['a'],['b'])
        print(c, np.allclose(d,ref), out.outer_inds(), out.ind_map.keys())
    except Exception as e:
        print(c,'ERR',type(e).__name__,e)
tn2=tn.reindex({'b':'c'})
for c in ['split-gate','swap-split-gate','auto-split-gate']:
    out=tn2.gate_inds(G,['a','c'],contract=c)
    print(c, np.allclose(out.to_dense(['a'],['c']),ref))
