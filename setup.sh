#!/bin/sh
# setup_cmd: build everything the checks need from files on disk only (offline).
# networkx must NOT go into /venv (the repository baseline depends on its
# absence), so third-party helpers live in /verif/.deps and are put on sys.path
# only by the checks that need them.
set -e
cd "$(dirname "$0")"
export PIP_NO_INDEX=1
PY=/venv/bin/python
WH=/opt/veriftools/wheels
if ! $PY -c "import hypothesis" 2>/dev/null; then
    /venv/bin/pip install -q --no-index --find-links $WH hypothesis
fi
mkdir -p .deps .cache replays evidence
if ! PYTHONPATH=.deps $PY -c "import networkx, jsonschema" 2>/dev/null; then
    /venv/bin/pip install -q --no-index --find-links $WH --target .deps networkx jsonschema
fi
if ! PYTHONPATH=.deps $PY -c "import atheris" 2>/dev/null; then
    /venv/bin/pip install -q --no-index --find-links $WH --target .deps atheris || echo "atheris unavailable (thorough tiers fall back to hypothesis)"
fi
$PY - <<'EOF'
import sys
sys.path.insert(0, '/repo')
import hypothesis, numpy, quimb, quimb.tensor
print("setup ok: hypothesis", hypothesis.__version__, "numpy", numpy.__version__, "quimb", quimb.__file__)
EOF
